package times

// Injected into slog/internal/times by /verif's C20 check with `go test -overlay`
// (the repository is not modified). Driven by environment variables, reports in
// the JSONL format the driver reads.

import (
	"bufio"
	"encoding/binary"
	"encoding/json"
	"fmt"
	"hash/fnv"
	"math"
	"math/big"
	"math/rand/v2"
	"os"
	"strconv"
	"strings"
	"sync"
	"testing"
	"time"
)

type vc20viol struct {
	T      string `json:"t"`
	Idx    int    `json:"idx"`
	Clause string `json:"clause"`
	Sig    string `json:"sig"`
	Detail string `json:"detail"`
	Case   any    `json:"case,omitempty"`
}

type vc20rep struct {
	mu      sync.Mutex
	viols   []vc20viol
	perSig  map[string]int
	stats   map[string]int64
	samples []any
	nt      []uint64
	ntEvery uint64
}

func (r *vc20rep) viol(idx int, clause, sig, detail string, cas any) {
	r.mu.Lock()
	defer r.mu.Unlock()
	r.perSig[sig]++
	if r.perSig[sig] <= 3 {
		r.viols = append(r.viols, vc20viol{"viol", idx, clause, sig, detail, cas})
	}
}

func (r *vc20rep) add(k string, n int64) {
	r.mu.Lock()
	r.stats[k] += n
	r.mu.Unlock()
}

func vc20hash(kind string, s string) uint64 {
	h := fnv.New64a()
	h.Write([]byte(kind))
	h.Write([]byte{0})
	h.Write([]byte(s))
	return h.Sum64()
}

func vc20call(f func()) (p string) {
	defer func() {
		if e := recover(); e != nil {
			p = fmt.Sprint(e)
		}
	}()
	f()
	return ""
}

var vc20units = []time.Duration{time.Nanosecond, time.Microsecond, time.Millisecond, time.Second, time.Minute, time.Hour, 24 * time.Hour}

func vc20boundaryDurations() []time.Duration {
	var out []time.Duration
	add := func(d time.Duration) {
		out = append(out, d, -d)
	}
	for _, u := range vc20units {
		for _, k := range []int64{1, 2, 9, 10, 59, 60, 99, 100, 999, 1000, 23, 24, 25, 106751, 106752, 2562047, 2562048} {
			v := k * int64(u)
			if u != 0 && v/int64(u) != k {
				continue
			}
			add(time.Duration(v))
			add(time.Duration(v + 1))
			add(time.Duration(v - 1))
		}
	}
	p := int64(1)
	for i := 0; i < 19; i++ {
		add(time.Duration(p))
		add(time.Duration(p + 1))
		add(time.Duration(p - 1))
		if i < 18 {
			p *= 10
		}
	}
	out = append(out, 0, math.MaxInt64, math.MaxInt64-1, math.MinInt64, math.MinInt64+1, math.MinInt64+2)
	// the long region: large magnitudes with every field populated (33-character compact texts)
	base := -(106751*24*int64(time.Hour) + 23*int64(time.Hour) + 47*int64(time.Minute) + 16*int64(time.Second) + 854*int64(time.Millisecond) + 775*int64(time.Microsecond) + 807)
	for i := int64(0); i < 200; i++ {
		out = append(out, time.Duration(base+i*1000003), time.Duration(-(base + i*1000003)))
	}
	for d := int64(100000); d <= 106751; d += 97 {
		v := d*24*int64(time.Hour) + 11*int64(time.Hour) + 11*int64(time.Minute) + 11*int64(time.Second) + 111*int64(time.Millisecond) + 111*int64(time.Microsecond) + 111
		if v > 0 {
			out = append(out, time.Duration(v), time.Duration(-v))
		}
	}
	return out
}

func vc20randDuration(r *rand.Rand) time.Duration {
	switch r.IntN(4) {
	case 0:
		return time.Duration(r.Uint64()) // uniform over all int64
	case 1:
		return time.Duration(int64(r.Uint64()) >> uint(r.IntN(64))) // log-uniform
	case 2:
		// multi-field values
		v := int64(r.IntN(106751))*24*int64(time.Hour) + int64(r.IntN(24))*int64(time.Hour) + int64(r.IntN(60))*int64(time.Minute) + int64(r.IntN(60))*int64(time.Second) + int64(r.IntN(1000000000))
		if r.IntN(2) == 0 {
			v = -v
		}
		return time.Duration(v)
	}
	u := vc20units[r.IntN(len(vc20units))]
	return time.Duration(int64(r.IntN(2000)-1000)*int64(u) + int64(r.IntN(3)-1))
}

// ---- parser side -------------------------------------------------------------

var vc20unitTokens = []string{"ns", "us", "µs", "μs", "ms", "s", "m", "h", "d"}

// vc20directed is a fixed corpus that every run evaluates in full, whatever the seed: families of texts around the
// decisions a duration parser makes (unit spelling byte by byte, digit counts, signs, zero, fractions, several terms,
// cut-off encodings). Random generation visits these families too, but a family of two or three strings out of 2^40
// deserves to be listed.
func vc20directed() []string {
	var out []string
	add := func(ss ...string) { out = append(out, ss...) }
	// unit spellings: every two-byte sequence around the two micro signs, and look-alikes
	for _, lead := range []byte{0xc2, 0xce, 0xc3, 0xcf, 0xcd, 0xe2} {
		for _, cont := range []byte{0xb5, 0xbc, 0xb4, 0xb6, 0xbb, 0xbd, 0x95, 0x9c} {
			add("7"+string([]byte{lead, cont})+"s", "1h2"+string([]byte{lead, cont})+"s", "7"+string([]byte{lead, cont}))
		}
	}
	for _, u := range []string{"ns", "us", "µs", "μs", "ms", "s", "m", "h", "d", "NS", "S", "H", "D", "Ms", "mS", "u", "µ", "μ", "n", "sec", "min", "hr", "hs", "mm", "sm", "ds", "dd", "", " s", "s ", "\x00s", "s\x00"} {
		add("5"+u, "1.5"+u, "-5"+u, ".5"+u, "5."+u, "1h5"+u)
	}
	// digit counts: zero padding and the 19/20-digit edge
	for k := 0; k <= 26; k++ {
		z := strings.Repeat("0", k)
		add(z+"1h", z+"9223372036854775807ns", z+"9223372036854775808ns", "-"+z+"9223372036854775808ns", "1h"+z+"30m", "0."+z+"1s", "1."+z+"h", z+"."+z+"s", z+"d", z+"1d")
	}
	for k := 15; k <= 32; k++ {
		add("0."+strings.Repeat("9", k)+"s", "1."+strings.Repeat("0", k)+"1h", "0."+strings.Repeat("123456789", k/9+1)[:k]+"m", "2562047."+strings.Repeat("7", k)+"h", strings.Repeat("9", k)+"ns", "0."+strings.Repeat("9", k)+"d")
	}
	// signs and zero
	add("--5s", "-+5s", "+-1h30m", "++0", "+-0", "-", "+", "--", "- 5s", "5-s", "5s-", "-5s-3s", "5s+3s", "-0s", "+0s", "-0h0m0s", "-0.0ms", "-0.4ns", "+0.4ns", "-.0s", "-0", "+0", "0", "-0d", "-0.4d", "00", "-00", "0s0", "0 ")
	// several terms: fractions carried (or not) from one term to the next, repeated and descending/ascending units
	add("1.5h30m", "0.5s1ns", "1.25m3s0.5ms", "1h.5m", "1.h2m", "1.5h1.5h", "0.1s0.1s0.1s", "1ns1us1ms1s1m1h", "1h1m1s1ms1us1ns", "1s1s", "1.5s2", "1.5s2s", "3s1.5", "1d1.5h", "1.5d1h", "0.5d0.5d", "1h2d3m")
	// the extremes, approached from several terms
	add("2562047h47m16.854775807s", "2562047h47m16.854775808s", "-2562047h47m16.854775808s", "-2562047h47m16.854775809s", "2562047h47m16s854775807ns", "2562047h47m16s854775808ns", "9223372036s854775807ns", "9223372036s854775808ns", "153722867m16.854775807s", "153722867m16.854775808s",
		"106751d23h47m16.854775807s", "106751d23h47m16.854775808s", "-106751d23h47m16.854775808s", "-106751d23h47m16.854775809s", "106752d", "106751.991167300d", "9223372036854775807ns9223372036854775807ns", "4611686018427387904ns4611686018427387904ns", "4611686018427387904ns4611686018427387903ns")
	// totals that reach 1<<63 and then 1<<64 exactly (the standard parser's running total wraps there), in several splits
	for _, sign := range []string{"", "-", "+"} {
		for _, tail := range []string{"", "1s", "0s", "1ns", "9223372036854775808ns"} {
			add(sign+"9223372036854775808ns9223372036854775808ns"+tail, sign+"9223372036854775807ns1ns9223372036854775808ns"+tail, sign+"4611686018427387904ns4611686018427387904ns9223372036854775808ns"+tail,
				sign+"9223372036854775808ns9223372036854775807ns"+tail, sign+"9223372036854775808ns9223372036854775809ns"+tail, sign+"9223372036.854775808s9223372036854775808ns"+tail, sign+"2562047h47m16.854775808s9223372036854775808ns"+tail)
		}
	}
	// a running total close to 1<<63, then a term whose integer part still fits while its FRACTION carries the sum
	// past 1<<63 - or, added to the total, past 1<<64, where an unsigned sum wraps around to a small number
	for _, first := range []string{"9223372036854775807ns", "9223372036854775808ns", "2562047h47m16s", "153722867m", "9223372036s", "2562047h", "4611686018427387904ns4611686018427387903ns"} {
		for _, second := range []string{"2562047.8h", "2562047.99999h", "2562046.5h", "153722867.3m", "9223372036.9s", "9223372036854.9ms", "2562047.5h0.5h", "0.9ns", "1.5ns"} {
			add(first+second, "-"+first+second, first+second+"1ns")
		}
	}
	// LONG texts: the grammar has no length limit (zero padding, long fractions, many terms)
	for _, k := range []int{200, 253, 254, 255, 256, 257, 300, 1000, 5000} {
		z := strings.Repeat("0", k)
		add(z+"1h", "0."+z+"1s", "1."+strings.Repeat("1", k)+"s", "-"+z+"5m"+z+"3s", strings.Repeat("x", k), z, z+"1d")
	}
	for _, n := range []int{64, 85, 86, 100, 300, 2000} {
		add(strings.Repeat("1ns", n), strings.Repeat("0s", n), strings.Repeat("1h1ns", n/2), "-"+strings.Repeat("1.5us", n))
	}
	// invisible characters in front of, inside and behind a valid text: a byte order mark, zero-width and other spaces
	for _, inv := range []string{"\xef\xbb\xbf", "\ufeff\ufeff", "\u200b", "\u00a0", "\u2060", "\u200e", " ", "\t", "\n", "\r\n", "\x00", "\ufffe", "\xfe\xff", "\xff\xfe"} {
		add(inv+"1h", inv+"10s", inv+"-1s", "-"+inv+"1s", "1h"+inv, "1h"+inv+"30m", "1"+inv+"h", inv, inv+"0", inv+"1.5h30m", inv+"1d")
	}
	// cut-off and odd encodings anywhere
	for _, frag := range []string{"\xef\xbf", "\xef", "\xef\xbf\xbd", "\xc2", "\xce", "\xf0\x9f\x98", "\xff", "\x80", "\xc0\xaf", "\xed\xa0\x80"} {
		add("5"+frag, frag, "1h"+frag+"30m", frag+"5s", "5s"+frag, "5"+frag+"s", "1.5"+frag)
	}
	// decimal digits of other scripts (Arabic-Indic, extended Arabic-Indic, Devanagari, fullwidth, mathematical bold) and
	// number characters that are no decimal digits (superscript, circled, Roman numeral): at the start of a term, after
	// ASCII digits, in a fraction, alone - the grammar knows the ten ASCII digits
	for _, dg := range []string{"\u0663", "\u06f5", "\u0967", "\uff11", "\U0001d7cf", "\u00b2", "\u2460", "\u2167", "\u0e53", "\u1047"} {
		add("1"+dg+"s", dg+"1s", dg+"s", "2"+dg+"h", "-4"+dg+dg+"ms", "1h5"+dg+"m", "1."+dg+"s", "1.5"+dg+"s", "0"+dg+"d", "1"+dg+"d", "1"+dg, "12"+dg+"3ns", "1h"+dg+"m", "+7"+dg+"us", "1"+dg+".5s")
	}
	var un []string
	for _, x := range out {
		if y, err := strconv.Unquote(`"` + strings.ReplaceAll(x, `"`, `\"`) + `"`); err == nil {
			un = append(un, y)
		} else {
			un = append(un, x)
		}
	}
	return un
}

func vc20genString(r *rand.Rand) string {
	switch r.IntN(10) {
	case 0, 1, 2, 3, 4: // grammar
		var sb strings.Builder
		switch r.IntN(6) {
		case 0:
			sb.WriteByte('-')
		case 1:
			sb.WriteByte('+')
		}
		n := 1 + r.IntN(4)
		for i := 0; i < n; i++ {
			switch r.IntN(8) {
			case 0:
				sb.WriteString(strconv.FormatUint(r.Uint64()>>uint(r.IntN(64)), 10))
			case 1:
				sb.WriteString(strconv.Itoa(r.IntN(200)))
				sb.WriteByte('.')
				sb.WriteString(strconv.Itoa(r.IntN(1000000)))
			case 2:
				sb.WriteByte('.')
				sb.WriteString(strconv.Itoa(r.IntN(1000)))
			case 3:
				sb.WriteString(strconv.Itoa(r.IntN(100)))
				sb.WriteByte('.')
			case 4:
				sb.WriteString([]string{"106751", "106752", "2562047", "2562048", "9223372036", "9223372037", "9223372036854775807", "9223372036854775808", "153722867", "153722868", "0", "00", "1"}[r.IntN(13)])
			case 5:
				sb.WriteString(strconv.Itoa(r.IntN(30)))
				sb.WriteByte('.')
				sb.WriteString(strings.Repeat(strconv.Itoa(r.IntN(10)), 1+r.IntN(25)))
			default:
				sb.WriteString(strconv.Itoa(r.IntN(100000)))
			}
			if r.IntN(25) != 0 {
				sb.WriteString(vc20unitTokens[r.IntN(len(vc20unitTokens))])
			}
		}
		return sb.String()
	case 5, 6: // mutate a valid text
		s := time.Duration(int64(r.Uint64()) >> uint(r.IntN(64))).String()
		if r.IntN(2) == 0 {
			s = SmartDurationStringEx(time.Duration(int64(r.Uint64())>>uint(1+r.IntN(63))), r.IntN(2) == 0)
		}
		b := []byte(s)
		for k := r.IntN(3); k >= 0 && len(b) > 0; k-- {
			i := r.IntN(len(b))
			switch r.IntN(4) {
			case 0:
				b = append(b[:i], b[i+1:]...)
			case 1:
				b[i] = "0123456789.-+dhmsnuµ e"[r.IntN(22)]
			case 2:
				b = append(b[:i], append([]byte{"0123456789.dhms"[r.IntN(15)]}, b[i:]...)...)
			default:
				b = append(b, "dhmsn.0"[r.IntN(7)])
			}
		}
		return string(b)
	case 7: // alphabet soup
		n := r.IntN(12)
		b := make([]byte, n)
		for i := range b {
			b[i] = "0123456789+-.dhmsnuµμ "[r.IntN(22)]
		}
		return string(b)
	case 9: // a valid text with a digit of another script put next to (or in place of) one of its digits
		if r.IntN(2) == 0 {
			b := []rune(time.Duration(int64(r.Uint64()) >> uint(r.IntN(64))).String())
			i := r.IntN(len(b))
			dg := []rune("\u0660\u0669\u06f3\u0966\u096f\uff10\uff19\u09e7\u0be8\U0001d7d8\u00b9\u2075")[r.IntN(12)]
			if r.IntN(2) == 0 && b[i] >= '0' && b[i] <= '9' {
				b[i] = dg
			} else {
				b = append(b[:i], append([]rune{dg}, b[i:]...)...)
			}
			return string(b)
		}
	case 8: // arbitrary bytes
		n := r.IntN(8)
		b := make([]byte, n)
		for i := range b {
			b[i] = byte(r.IntN(256))
		}
		return string(b)
	}
	return []string{"", "0", "-0", "+0", "d", "1d", "-1d", "1.5d", "106751d", "106752d", "106751d23h47m16.854775807s", "106751d23h47m16.854775808s", "-106751d23h47m16.854775808s", "1d1d", "0.000000001d", ".5d", "1dh", "1 d", "1D", "3d7s", "1h1d", "0d", "00d", "1e3s", "١s"}[r.IntN(25)]
}

// vc20reference evaluates a duration string with the day unit exactly (big integers): returns the
// value, how many terms had a fractional part (each may be off by one nanosecond through floating
// point), and whether the text is grammatical at all.
func vc20reference(s string) (val *big.Int, fracTerms int, ok bool) {
	units := map[string]int64{"ns": 1, "us": 1e3, "µs": 1e3, "μs": 1e3, "ms": 1e6, "s": 1e9, "m": 60e9, "h": 3600e9, "d": 86400e9}
	neg := false
	if s != "" && (s[0] == '-' || s[0] == '+') {
		neg = s[0] == '-'
		s = s[1:]
	}
	if s == "0" {
		return big.NewInt(0), 0, true
	}
	if s == "" {
		return nil, 0, false
	}
	total := new(big.Int)
	for s != "" {
		i := 0
		for i < len(s) && s[i] >= '0' && s[i] <= '9' {
			i++
		}
		intDigits := s[:i]
		s = s[i:]
		fracDigits := ""
		hasDot := false
		if s != "" && s[0] == '.' {
			hasDot = true
			s = s[1:]
			j := 0
			for j < len(s) && s[j] >= '0' && s[j] <= '9' {
				j++
			}
			fracDigits = s[:j]
			s = s[j:]
		}
		_ = hasDot
		if intDigits == "" && fracDigits == "" {
			return nil, 0, false
		}
		j := 0
		for j < len(s) && s[j] != '.' && !(s[j] >= '0' && s[j] <= '9') {
			j++
		}
		if j == 0 {
			return nil, 0, false
		}
		u, known := units[s[:j]]
		s = s[j:]
		if !known {
			return nil, 0, false
		}
		term := new(big.Int)
		if intDigits != "" {
			term.SetString(intDigits, 10)
		}
		term.Mul(term, big.NewInt(u))
		if strings.Trim(fracDigits, "0") != "" {
			f, _ := new(big.Int).SetString(fracDigits, 10)
			scale := new(big.Int).Exp(big.NewInt(10), big.NewInt(int64(len(fracDigits))), nil)
			f.Mul(f, big.NewInt(u))
			f.Quo(f, scale)
			term.Add(term, f)
			fracTerms++
		}
		total.Add(total, term)
	}
	if neg {
		total.Neg(total)
	}
	return total, fracTerms, true
}

// vc20daysToHours rewrites every day term "<number>d" as the exactly equal hour term (24 x the decimal
// number, still a finite decimal), so that time.ParseDuration - quirks included - can serve as the reference
// for texts with the day unit: "differs only by additionally understanding the day unit".
func vc20daysToHours(s string) (string, bool) {
	var sb strings.Builder
	if s != "" && (s[0] == '-' || s[0] == '+') {
		sb.WriteByte(s[0])
		s = s[1:]
	}
	if s == "" {
		return "", false
	}
	for s != "" {
		i := 0
		for i < len(s) && (s[i] == '.' || (s[i] >= '0' && s[i] <= '9')) {
			i++
		}
		num := s[:i]
		s = s[i:]
		j := 0
		for j < len(s) && s[j] != '.' && !(s[j] >= '0' && s[j] <= '9') {
			j++
		}
		unit := s[:j]
		s = s[j:]
		if num == "" || unit == "" || strings.Count(num, ".") > 1 {
			return "", false
		}
		if unit != "d" {
			sb.WriteString(num)
			sb.WriteString(unit)
			continue
		}
		intPart, frac := num, ""
		if k := strings.IndexByte(num, '.'); k >= 0 {
			intPart, frac = num[:k], num[k+1:]
		}
		if intPart == "" && frac == "" {
			return "", false
		}
		n := new(big.Int)
		if intPart+frac != "" {
			n.SetString(intPart+frac, 10)
		}
		n.Mul(n, big.NewInt(24))
		digits := n.String()
		if len(frac) > 0 {
			for len(digits) <= len(frac) {
				digits = "0" + digits
			}
			digits = digits[:len(digits)-len(frac)] + "." + digits[len(digits)-len(frac):]
		}
		sb.WriteString(digits)
		sb.WriteString("h")
	}
	return sb.String(), true
}

func vc20hasDayUnit(s string) bool {
	// a 'd' that is a unit token: preceded by a digit or '.', i.e. not part of another word
	for i := 0; i < len(s); i++ {
		if s[i] == 'd' {
			return true
		}
	}
	return false
}

func TestVerifC20(t *testing.T) {
	out := os.Getenv("VERIF_C20_OUT")
	if out == "" {
		t.Skip("not driven by the verification harness")
	}
	// the application has used the package's TIME helpers before it formats or parses its first duration (the two
	// halves of the package share nothing a caller could see)
	_, _ = SmartParseTime("2024-01-02 03:04:05")
	// the process's own time zone is not UTC (containers usually run in UTC, users' machines do not): a duration has no zone
	time.Local = time.FixedZone("PROC", 5*3600+1800)
	seed, _ := strconv.ParseInt(os.Getenv("VERIF_SEED"), 10, 64)
	nDur, _ := strconv.Atoi(os.Getenv("VERIF_C20_DURATIONS"))
	nStr, _ := strconv.Atoi(os.Getenv("VERIF_C20_STRINGS"))
	ntEvery, _ := strconv.ParseUint(os.Getenv("VERIF_C20_NT_EVERY"), 10, 64)
	if ntEvery == 0 {
		ntEvery = 1
	}
	only := os.Getenv("VERIF_C20_ONLY") // replay: "dur:<int64>" or "str:<quoted>"
	rep := &vc20rep{perSig: map[string]int{}, stats: map[string]int64{}, ntEvery: ntEvery}
	start := time.Now()

	checkDur := func(idx int, d time.Duration, local *[]uint64) {
		for _, frac := range []bool{false, true} {
			style := "compact"
			if frac {
				style = "fractional"
			}
			var text string
			if p := vc20call(func() { text = SmartDurationStringEx(d, frac) }); p != "" {
				rep.viol(idx, "formatter-panic", "C20/formatter-panic/"+style, fmt.Sprintf("SmartDurationStringEx(%d ns, frac=%v) panicked: %s", int64(d), frac, p), map[string]any{"duration_ns": int64(d), "style": style, "replay": fmt.Sprintf("dur:%d", int64(d))})
				continue
			}
			var back time.Duration
			var err error
			if p := vc20call(func() { back, err = ParseDuration(text) }); p != "" {
				rep.viol(idx, "parser-panic", "C20/parser-panic/own-output", fmt.Sprintf("ParseDuration(%q) panicked: %s", text, p), map[string]any{"duration_ns": int64(d), "text": text})
				continue
			}
			if err != nil || back != d {
				rep.viol(idx, "roundtrip", "C20/roundtrip/"+style, fmt.Sprintf("SmartDurationStringEx(%d ns, frac=%v) = %q, ParseDuration gives %d ns, err %v", int64(d), frac, text, int64(back), err), map[string]any{"duration_ns": int64(d), "style": style, "text": text, "replay": fmt.Sprintf("dur:%d", int64(d))})
				continue
			}
			if len(text) >= 32 {
				rep.add("texts_of_32_or_more_bytes", 1)
			}
		}
		if h := vc20hash("dur", strconv.FormatInt(int64(d), 10)); h%ntEvery == 0 {
			*local = append(*local, h)
		}
	}
	checkStr := func(idx int, s string, local *[]uint64) {
		std, stdErr := time.ParseDuration(s)
		var ours time.Duration
		var ourErr error
		if p := vc20call(func() { ours, ourErr = ParseDuration(s) }); p != "" {
			rep.viol(idx, "parser-panic", "C20/parser-panic/input", fmt.Sprintf("ParseDuration(%q) panicked: %s", s, p), map[string]any{"text": strconv.Quote(s), "replay": "str:" + strconv.Quote(s)})
			return
		}
		cas := map[string]any{"text": strconv.Quote(s), "replay": "str:" + strconv.Quote(s)}
		switch {
		case stdErr == nil:
			rep.add("strings_accepted_by_time.ParseDuration", 1)
			if ourErr != nil || ours != std {
				rep.viol(idx, "agrees-with-std", "C20/agrees-with-std/accept", fmt.Sprintf("time.ParseDuration(%q) = %d ns; ours = %d ns, err %v", s, int64(std), int64(ours), ourErr), cas)
				return
			}
		case !vc20hasDayUnit(s):
			rep.add("strings_rejected_by_time.ParseDuration", 1)
			if ourErr == nil {
				rep.viol(idx, "agrees-with-std", "C20/agrees-with-std/reject", fmt.Sprintf("time.ParseDuration(%q) rejects (%v); ours accepts with %d ns", s, stdErr, int64(ours)), cas)
				return
			}
		default:
			ref, fracTerms, ok := vc20reference(s)
			rep.add("strings_with_day_unit", 1)
			if !ok {
				if ourErr == nil {
					rep.viol(idx, "day-unit", "C20/day-unit/accepts-ungrammatical", fmt.Sprintf("ParseDuration(%q) = %d ns although the text is not a duration even with the day unit", s, int64(ours)), cas)
				}
				return
			}
			tol := big.NewInt(int64(fracTerms) + 1)
			maxV := new(big.Int).Lsh(big.NewInt(1), 63)
			nearEdge := new(big.Int).Sub(new(big.Int).Abs(ref), maxV)
			nearEdge.Abs(nearEdge)
			edge := nearEdge.Cmp(new(big.Int).Add(tol, big.NewInt(1))) <= 0 // the exact value lies on the overflow boundary: either decision is fine
			tr, trOK := vc20daysToHours(s)
			if !trOK {
				return
			}
			std2, err2 := time.ParseDuration(tr)
			cas["with_days_rewritten_as_hours"] = strconv.Quote(tr)
			switch {
			case err2 == nil && ourErr != nil:
				if !edge {
					rep.viol(idx, "day-unit", "C20/day-unit/rejected", fmt.Sprintf("ParseDuration(%q) rejects (%v); time.ParseDuration accepts the same text with days written as hours (%q = %d ns)", s, ourErr, tr, int64(std2)), cas)
					return
				}
			case err2 != nil && ourErr == nil:
				if !edge {
					rep.viol(idx, "day-unit", "C20/day-unit/accepted", fmt.Sprintf("ParseDuration(%q) = %d ns; time.ParseDuration rejects the same text with days written as hours (%q: %v); exact value %s", s, int64(ours), tr, err2, ref.String()), cas)
					return
				}
			case err2 == nil && ourErr == nil:
				diff := new(big.Int).Sub(big.NewInt(int64(ours)), big.NewInt(int64(std2)))
				if diff.Abs(diff).Cmp(tol) > 0 {
					rep.viol(idx, "day-unit", "C20/day-unit/value", fmt.Sprintf("ParseDuration(%q) = %d ns; time.ParseDuration of the same text with days written as hours (%q) = %d ns (tolerance %s ns for fractional terms)", s, int64(ours), tr, int64(std2), tol.String()), cas)
					return
				}
				rep.add("day_unit_values_confirmed", 1)
			default:
				rep.add("day_unit_rejections_confirmed", 1)
			}
		}
		if h := vc20hash("str", s); h%ntEvery == 0 {
			*local = append(*local, h)
		}
	}

	if only != "" {
		var local []uint64
		if strings.HasPrefix(only, "dur:") {
			v, _ := strconv.ParseInt(only[4:], 10, 64)
			checkDur(0, time.Duration(v), &local)
		} else if strings.HasPrefix(only, "str:") {
			s, _ := strconv.Unquote(only[4:])
			checkStr(0, s, &local)
		}
		nDur, nStr = 0, 0
	} else {
		var local []uint64
		bd := vc20boundaryDurations()
		for i, d := range bd {
			checkDur(i, d, &local)
		}
		rep.add("boundary_durations", int64(len(bd)))
		ds := vc20directed()
		for i, x := range ds {
			checkStr(i, x, &local)
		}
		rep.add("directed_strings", int64(len(ds)))
		rep.nt = append(rep.nt, local...)
	}

	workers := 16
	var wg sync.WaitGroup
	for wk := 0; wk < workers; wk++ {
		wk := wk
		wg.Add(1)
		go func() {
			defer wg.Done()
			r := rand.New(rand.NewPCG(uint64(seed)*0x9e3779b97f4a7c15+7, uint64(wk)+1))
			var local []uint64
			for i := wk; i < nDur; i += workers {
				checkDur(i, vc20randDuration(r), &local)
			}
			for i := wk; i < nStr; i += workers {
				checkStr(i, vc20genString(r), &local)
			}
			rep.mu.Lock()
			rep.nt = append(rep.nt, local...)
			rep.mu.Unlock()
		}()
	}
	wg.Wait()
	rep.add("durations", int64(nDur))
	rep.add("strings", int64(nStr))
	// a burst: sixteen goroutines format a handful of durations of their own over and over, both styles, at the same time
	// (what a program does that logs the same timeouts again and again); then one goroutine asks for all of them once more
	if only == "" {
		var hot [][]time.Duration
		for wk := 0; wk < workers; wk++ {
			r := rand.New(rand.NewPCG(uint64(seed)+99, uint64(wk)+1))
			ds := []time.Duration{time.Duration(wk+1) * 36 * time.Hour, time.Duration(wk+1)*time.Second + 13*time.Microsecond, vc20randDuration(r), vc20randDuration(r)}
			hot = append(hot, ds)
		}
		burst := func(wk, rounds int, local *[]uint64) {
			for k := 0; k < rounds; k++ {
				d := hot[wk][k%len(hot[wk])]
				for _, frac := range []bool{false, true} {
					text := SmartDurationStringEx(d, frac)
					if back, err := ParseDuration(text); err != nil || back != d {
						style := map[bool]string{false: "compact", true: "fractional"}[frac]
						rep.viol(k, "roundtrip", "C20/roundtrip/"+style+"/while-other-goroutines-format", fmt.Sprintf("SmartDurationStringEx(%d ns, frac=%v) = %q while other goroutines format other durations; ParseDuration gives %d ns, err %v", int64(d), frac, text, int64(back), err), map[string]any{"duration_ns": int64(d), "style": style, "text": text})
						return
					}
				}
			}
		}
		var wg2 sync.WaitGroup
		for wk := 0; wk < workers; wk++ {
			wk := wk
			wg2.Add(1)
			go func() { defer wg2.Done(); var l []uint64; burst(wk, 60000, &l) }()
		}
		wg2.Wait()
		for wk := 0; wk < workers; wk++ {
			var l []uint64
			burst(wk, 8, &l)
		}
		rep.add("burst_calls_from_sixteen_goroutines", int64(workers*60000*2))
	}

	// write the report
	f, err := os.Create(out + ".report")
	if err != nil {
		t.Fatal(err)
	}
	w := bufio.NewWriter(f)
	enc := func(v any) {
		b, _ := json.Marshal(v)
		w.Write(b)
		w.WriteByte('\n')
	}
	for _, v := range rep.viols {
		enc(v)
	}
	for k, n := range rep.perSig {
		enc(map[string]any{"t": "stat", "k": "violations." + k, "n": n})
	}
	for k, n := range rep.stats {
		enc(map[string]any{"t": "stat", "k": k, "n": n})
	}
	enc(map[string]any{"t": "sample", "idx": 0, "case": map[string]any{"duration_ns": int64(-9223372036854775807), "compact": vc20try(-9223372036854775807, false), "fractional": vc20try(-9223372036854775807, true)}, "observed": "formatted and parsed back"})
	enc(map[string]any{"t": "sample", "idx": 1, "case": map[string]any{"text": "1.5d3h", "ours": vc20parse("1.5d3h"), "std": "rejects (unknown unit d)"}, "observed": "day unit understood"})
	enc(map[string]any{"t": "sample", "idx": 2, "case": map[string]any{"text": "2h45m30.5s", "ours": vc20parse("2h45m30.5s")}, "observed": "agrees with time.ParseDuration"})
	evals := int64(nDur+nStr) + rep.stats["boundary_durations"] + rep.stats["directed_strings"]
	if only != "" {
		evals = 1
	}
	enc(map[string]any{"t": "done", "evaluations": evals, "wall_s": time.Since(start).Seconds()})
	w.Flush()
	f.Close()
	nf, _ := os.Create(out + ".nt")
	nw := bufio.NewWriter(nf)
	var b8 [8]byte
	for _, h := range rep.nt {
		binary.LittleEndian.PutUint64(b8[:], h)
		nw.Write(b8[:])
	}
	nw.Flush()
	nf.Close()
}

func vc20try(d int64, frac bool) (s string) {
	defer func() {
		if e := recover(); e != nil {
			s = fmt.Sprint("panic: ", e)
		}
	}()
	return SmartDurationStringEx(time.Duration(d), frac)
}

func vc20parse(s string) string {
	d, err := ParseDuration(s)
	if err != nil {
		return "error: " + err.Error()
	}
	return fmt.Sprintf("%d ns", int64(d))
}
