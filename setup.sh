#!/bin/sh
# Offline setup after a fresh restore: build the driver and warm the Go build cache
# (one plain and one -race build of the workload binary against /repo).
set -u
here=$(cd "$(dirname "$0")" && pwd)
export VERIF_DIR="$here"
export GOFLAGS=-mod=mod GOWORK=off GOPROXY=off GOSUMDB=off GOTOOLCHAIN=local
mkdir -p "$here/.build/setup"
cd "$here/harness" || exit 1
go build -o "$here/.build/vcheck" ./cmd/vcheck || exit 1
repo=${VERIF_REPO:-/repo}
sed "s#replace github.com/hedzr/logg => /repo#replace github.com/hedzr/logg => $repo#" go.mod > "$here/.build/setup/go.mod"
cp "$repo/go.sum" "$here/.build/setup/go.sum"
go build -tags verif -modfile="$here/.build/setup/go.mod" -o "$here/.build/setup/vfh" ./cmd/vfh || exit 1
go build -race -tags verif -modfile="$here/.build/setup/go.mod" -o "$here/.build/setup/vfh-race" ./cmd/vfh || exit 1
rm -rf "$here/.build/setup"
echo "setup ok"
