// Package slog (import path verifharness/facade/slog) is an application-side facade over the library's native API
// whose package and type names collide with the library's own ("slog", "Entry"): attribution must count frames, not
// match names.
package slog

import (
	"context"

	real "github.com/hedzr/logg/slog"
)

type Entry struct{ L real.Logger }

func (e *Entry) Info(msg string, args ...any) { e.L.Info(msg, args...) }

//go:noinline
func (e *Entry) WarnContext(ctx context.Context, msg string, args ...any) {
	e.L.WarnContext(ctx, msg, args...)
}

func (e *Entry) logContext(ctx context.Context, msg string, args ...any) {
	e.L.LogAttrs(ctx, real.ErrorLevel, msg, args...)
}

// Error goes through an unexported method named like the library's own internal one.
func (e *Entry) Error(ctx context.Context, msg string, args ...any) { e.logContext(ctx, msg, args...) }
