// Package applog is an application-side logging facade the way services write them: a type that happens to be called
// Logger, in a package whose path ends in "log", forwarding to a std log.Logger (here: one built on the bridge).
// A caller-attribution scheme that recognises library frames by NAME would take these methods for library frames.
package applog

import "log"

type Logger struct{ L *log.Logger }

func New(l *log.Logger) *Logger { return &Logger{l} }

func (l *Logger) Infof(format string, a ...any) { l.L.Printf(format, a...) }

//go:noinline
func (l *Logger) Warnf(format string, a ...any) { l.L.Printf(format, a...) }

func (l *Logger) Println(a ...any) { l.L.Println(a...) }
