package main

import (
	"bytes"
	"context"
	"fmt"
	"runtime"
	"sync"
	"sync/atomic"
	"time"

	"github.com/hedzr/is"
	"github.com/hedzr/logg/slog"

	"verifharness/gen"
)

func init() { reg("C01", "overlap", c01overlap) }

// holdWriter keeps every Write inside the destination until the driver opens the gate: the calls of one case are all
// in flight on the same logger at the same time (an interleaved history). It counts, it never judges.
type holdWriter struct {
	mu      sync.Mutex
	gate    chan struct{}
	inside  atomic.Int32
	peak    atomic.Int32
	writes  atomic.Int32
	records [][]byte
}

func (w *holdWriter) Write(p []byte) (int, error) {
	n := w.inside.Add(1)
	for {
		pk := w.peak.Load()
		if n <= pk || w.peak.CompareAndSwap(pk, n) {
			break
		}
	}
	<-w.gate
	w.mu.Lock()
	w.records = append(w.records, append([]byte(nil), p...))
	w.mu.Unlock()
	w.writes.Add(1)
	w.inside.Add(-1)
	return len(p), nil
}

// c01overlap: the admission rule under interleaved histories. N goroutines (17..96) issue one call each on the SAME
// logger (or on it and on one child of it) while every earlier admitted call is still inside the destination's Write.
// Oracle: the number of Writes equals the number of calls the rule admits, each admitted call's id arrives exactly
// once and no gated call's id arrives. The gate opens when every call either sits in Write or has returned (a
// generous watchdog opens it otherwise - that only costs overlap, the verdict is the count alone).
func c01overlap(c *Ctx) {
	sevs := []slog.Level{slog.ErrorLevel, slog.WarnLevel, slog.InfoLevel, slog.DebugLevel, slog.TraceLevel, slog.AlwaysLevel, slog.OKLevel, slog.FailLevel, slog.OffLevel}
	c.Each(func(idx int, r *gen.R) {
		slog.AddFlags(slog.LnoInterrupt)
		is.SetDebugMode(false)
		n := gen.Pick(r, []int{17, 18, 24, 33, 40, 64, 96})
		L := gen.Pick(r, []slog.Level{slog.ErrorLevel, slog.WarnLevel, slog.InfoLevel, slog.DebugLevel, slog.TraceLevel, slog.AlwaysLevel})
		w := &holdWriter{gate: make(chan struct{})}
		root := slog.New(fmt.Sprintf("ov%d", idx)).SetLevel(L)
		root.SetWriter(w).SetErrorWriter(w)
		switch idx % 3 {
		case 0:
			root.SetJSONMode(true)
		case 1:
			root.SetColorMode(false)
		}
		child := root.New("kid").SetLevel(L)
		child.SetWriter(w).SetErrorWriter(w)
		debugOn := L == slog.DebugLevel // SetLevel(Debug) switches the process-wide mode on
		type call struct {
			sev   slog.Level
			id    string
			kid   bool
			form  int
			admit bool
		}
		calls := make([]call, n)
		wantWrites := 0
		for i := range calls {
			cl := call{sev: gen.Pick(r, sevs), id: fmt.Sprintf("ov-%d-%d;", idx, i), kid: r.P(25), form: r.IntN(3)}
			cl.admit = admit(L, cl.sev, debugOn, builtinTreatAs)
			if cl.admit {
				wantWrites++
			}
			calls[i] = cl
		}
		var returned atomic.Int32
		var wg sync.WaitGroup
		ctx := context.Background()
		for i := range calls {
			cl := calls[i]
			l := slog.Logger(root)
			if cl.kid {
				l = child
			}
			wg.Add(1)
			go func() {
				defer wg.Done()
				defer returned.Add(1)
				switch cl.form {
				case 0:
					l.LogAttrs(ctx, cl.sev, cl.id, "i", 1)
				case 1:
					l.Logit(ctx, cl.sev, cl.id, "i", 1)
				default:
					switch cl.sev {
					case slog.ErrorLevel:
						l.Error(cl.id, "i", 1)
					case slog.WarnLevel:
						l.WarnContext(ctx, cl.id, "i", 1)
					case slog.InfoLevel:
						_ = l.Infof("%s", cl.id)
					case slog.DebugLevel:
						l.Debug(cl.id, "i", 1)
					case slog.TraceLevel:
						l.TraceContext(ctx, cl.id, "i", 1)
					case slog.AlwaysLevel:
						l.Println(cl.id, "i", 1)
					case slog.OKLevel:
						l.OK(cl.id, "i", 1)
					case slog.FailLevel:
						l.FailContext(ctx, cl.id, "i", 1)
					default:
						l.LogAttrs(ctx, cl.sev, cl.id, "i", 1)
					}
				}
			}()
		}
		watchdog := time.Now().Add(3 * time.Second)
		byWatchdog := false
		for int(w.inside.Load()+returned.Load()) < n {
			runtime.Gosched()
			if time.Now().After(watchdog) {
				byWatchdog = true
				break
			}
		}
		peak := int(w.inside.Load())
		close(w.gate)
		wg.Wait()
		if byWatchdog {
			c.R.Add("gates_opened_by_the_watchdog", 1)
		}
		c.R.Add("overlap_cases", 1)
		c.R.Add("overlap_calls", int64(n))
		c.R.Add("overlap_calls_admitted", int64(wantWrites))
		c.R.Max("calls_inside_Write_at_once", int64(peak))
		c.R.Distinct("overlap_sizes", fmt.Sprint(n))
		c.R.NonTrivial("overlap", n, int(L), wantWrites, idx)
		got := int(w.writes.Load())
		cs := map[string]any{"goroutines": n, "logger_level": int(L), "admitted_by_the_rule": wantWrites, "writes": got, "inside_Write_when_the_gate_opened": peak}
		if got != wantWrites {
			c.R.Violation(idx, "gate", "C01/gate/overlapping-calls/count",
				fmt.Sprintf("%d calls in flight on one logger (level %v): the rule admits %d of them, the destination saw %d Write(s) (%d were inside Write when the gate opened)", n, L, wantWrites, got, peak), cs)
			return
		}
		for _, cl := range calls {
			k := 0
			for _, rec := range w.records {
				if bytes.Contains(rec, []byte(cl.id)) {
					k++
				}
			}
			if (cl.admit && k != 1) || (!cl.admit && k != 0) {
				c.R.Violation(idx, "gate", "C01/gate/overlapping-calls/identity",
					fmt.Sprintf("call %q (severity %v, logger level %v, admit=%v) arrived %d time(s) among %d overlapping calls", cl.id, cl.sev, L, cl.admit, k, n), cs)
				return
			}
		}
		if c.R.WantSample() {
			c.R.Sample(idx, cs, map[string]any{"writes": got})
		}
	})
}
