package main

import (
	"bytes"
	"fmt"

	"github.com/hedzr/logg/slog"

	"verifharness/gen"
	"verifharness/mon"
)

func init() { reg("C13", "verbosebuild", c13verbosebuild) }

// c13verbosebuild runs in a workload that was built with the tag "verbose" (the library's own tracing facility is
// compiled in; on this tree only AddFlags uses it). The failing destination is the first NORMAL destination of the
// process's default logger - the logger the tracing facility itself writes to - and fails 1-4 attempts in a row;
// records are issued through the package-level functions. Oracle, per record: the call returns; the failing destination
// saw ONE attempt (nothing is written to it from inside its own failing write); the healthy destination behind it holds
// the record once and nothing else; at most one diagnostic, at the logger's warning destination.
func c13verbosebuild(c *Ctx) {
	if !builtVerbose {
		c.R.Add("not_a_verbose_build", 1)
		return
	}
	slog.SetFlags((slog.GetFlags() | slog.LnoInterrupt) &^ slog.Lcaller) // (AddFlags traces in this build)
	savedDefault := slog.Default()
	log := mon.NewLog()
	c.Each(func(idx int, r *gen.R) {
		defer slog.SetDefault(savedDefault)
		kind := []string{"a logger installed with SetDefault", "a child installed with SetDefault"}[idx%2]
		f := Format((idx / 2) % 3)
		k := 1 + (idx/6)%4
		flaky := mon.New(log, "FLAKY", mon.ShapePlain)
		good := mon.New(log, "GOOD", mon.ShapePlain)
		we := mon.New(log, "WE", mon.ShapePlain)
		lg := slog.New(fmt.Sprintf("vb%d", idx)).Root()
		if idx%2 == 1 {
			lg = lg.New("kid")
		}
		lg.SetWriter(flaky).AddWriter(good).SetErrorWriter(we)
		setFormat(lg, f)
		lg.SetLevel(slog.AlwaysLevel)
		slog.SetDefault(lg)
		left := k
		flaky.Core().Fail = func(_ int, p []byte) (bool, int) {
			if left > 0 {
				left--
				return true, 0
			}
			return false, len(p)
		}
		desc := map[string]any{"default_logger": kind, "format": f.String(), "consecutive_failing_attempts": k, "build_tags": "verbose"}
		for i := 0; i < k+2; i++ {
			id := fmt.Sprintf("#vb%d-%d#", idx, i)
			log.Reset()
			failing := left > 0
			panicked := ""
			func() {
				defer func() {
					if e := recover(); e != nil {
						panicked = fmt.Sprint(e)
					}
				}()
				c.R.JournalNote(fmt.Sprintf("verbosebuild %v %s", desc, id))
				if i%2 == 0 {
					slog.Info("rec "+id, "k", i)
				} else {
					slog.Print("rec "+id, "k", i)
				}
			}()
			sig := func(clause string) string { return "C13/" + clause + "/verbose-build/default-logger" }
			if panicked != "" {
				c.R.Violation(idx, "returns-normally", sig("returns-normally"), "the logging call panicked: "+panicked, desc)
				return
			}
			own, other, diags := map[string]int{}, map[string]int{}, map[string]int{}
			var stray []byte
			for _, e := range log.Events() {
				if e.Kind != mon.EvWrite {
					continue
				}
				switch {
				case bytes.Contains(e.Data, []byte(diagText)):
					diags[e.W]++
				case bytes.Contains(e.Data, []byte(id)):
					own[e.W]++
				default:
					other[e.W]++
					stray = e.Data
				}
			}
			if own["FLAKY"] != 1 || other["FLAKY"] != 0 {
				c.R.Violation(idx, "cascade", sig("cascade"), fmt.Sprintf("record %d (the destination fails: %v): the first normal destination saw %d attempt(s) for the record and %d other write(s) during the call (expected one attempt, nothing else): %s", i, failing, own["FLAKY"], other["FLAKY"], q(clip(string(stray), 300))), desc)
				return
			}
			if own["GOOD"] != 1 || other["GOOD"] != 0 || own["WE"] != 0 || other["WE"] != 0 {
				c.R.Violation(idx, "other-destinations", sig("other-destinations"), fmt.Sprintf("record %d: the healthy destination behind the failing one holds the record %d time(s) and %d other write(s), the error destination %d/%d (expected 1/0 and 0/0): %s", i, own["GOOD"], other["GOOD"], own["WE"], other["WE"], q(clip(string(stray), 300))), desc)
				return
			}
			maxDiag := 0
			if failing {
				maxDiag = 1
			}
			if diags["WE"] > maxDiag || diags["GOOD"] > 0 || diags["FLAKY"] > 0 {
				c.R.Violation(idx, "diagnostic", sig("diagnostic"), fmt.Sprintf("record %d (the destination fails: %v): %d diagnostic(s) at the warning destination (at most %d), %d at the healthy normal destination, %d at the failing one", i, failing, diags["WE"], maxDiag, diags["GOOD"], diags["FLAKY"]), desc)
				return
			}
			c.R.Add("verbose_build_records_judged", 1)
			if diags["WE"] > 0 {
				c.R.Add("diagnostic_records_seen", 1)
			}
		}
		c.R.NonTrivial("verbosebuild", idx)
		if c.R.WantSample() {
			c.R.Sample(idx, desc, "every call returned; one attempt per record at the failing destination; the healthy destination holds each record once; at most one diagnostic per failing record")
		}
	})
}
