package main

import (
	"bytes"
	"fmt"
	"os"
	"os/signal"
	"strings"
	"syscall"

	"github.com/hedzr/logg/slog"

	"verifharness/gen"
	"verifharness/mon"
)

func init() { reg("C13", "verbosebuild", c13verbosebuild) }

// c13verbosebuild runs in a workload that was built with the tag "verbose" (the library's own tracing facility is
// compiled in; on this tree only AddFlags uses it). The failing destination is the first NORMAL destination of the
// process's default logger - the logger the tracing facility itself writes to - and fails 1-4 attempts in a row;
// records are issued through the package-level functions. Oracle, per record: the call returns; the failing destination
// saw ONE attempt (nothing is written to it from inside its own failing write); the healthy destination behind it holds
// the record once and nothing else; at most one diagnostic, at the logger's warning destination.
func c13verbosebuild(c *Ctx) {
	if !builtVerbose {
		c.R.Add("not_a_verbose_build", 1)
		return
	}
	slog.SetFlags((slog.GetFlags() | slog.LnoInterrupt) &^ slog.Lcaller) // (AddFlags traces in this build)
	savedDefault := slog.Default()
	log := mon.NewLog()
	c.Each(func(idx int, r *gen.R) {
		defer slog.SetDefault(savedDefault)
		kind := []string{"a logger installed with SetDefault", "a child installed with SetDefault"}[idx%2]
		f := Format((idx / 2) % 3)
		k := 1 + (idx/6)%4
		flaky := mon.New(log, "FLAKY", mon.ShapePlain)
		good := mon.New(log, "GOOD", mon.ShapePlain)
		we := mon.New(log, "WE", mon.ShapePlain)
		lg := slog.New(fmt.Sprintf("vb%d", idx)).Root()
		if idx%2 == 1 {
			lg = lg.New("kid")
		}
		lg.SetWriter(flaky).AddWriter(good).SetErrorWriter(we)
		setFormat(lg, f)
		lg.SetLevel(slog.AlwaysLevel)
		slog.SetDefault(lg)
		left := k
		flaky.Core().Fail = func(_ int, p []byte) (bool, int) {
			if left > 0 {
				left--
				return true, 0
			}
			return false, len(p)
		}
		desc := map[string]any{"default_logger": kind, "format": f.String(), "consecutive_failing_attempts": k, "build_tags": "verbose"}
		for i := 0; i < k+2; i++ {
			id := fmt.Sprintf("#vb%d-%d#", idx, i)
			log.Reset()
			failing := left > 0
			panicked := ""
			func() {
				defer func() {
					if e := recover(); e != nil {
						panicked = fmt.Sprint(e)
					}
				}()
				c.R.JournalNote(fmt.Sprintf("verbosebuild %v %s", desc, id))
				if i%2 == 0 {
					slog.Info("rec "+id, "k", i)
				} else {
					slog.Print("rec "+id, "k", i)
				}
			}()
			sig := func(clause string) string { return "C13/" + clause + "/verbose-build/default-logger" }
			if panicked != "" {
				c.R.Violation(idx, "returns-normally", sig("returns-normally"), "the logging call panicked: "+panicked, desc)
				return
			}
			own, other, diags := map[string]int{}, map[string]int{}, map[string]int{}
			var stray []byte
			for _, e := range log.Events() {
				if e.Kind != mon.EvWrite {
					continue
				}
				switch {
				case bytes.Contains(e.Data, []byte(diagText)):
					diags[e.W]++
				case bytes.Contains(e.Data, []byte(id)):
					own[e.W]++
				default:
					other[e.W]++
					stray = e.Data
				}
			}
			if own["FLAKY"] != 1 || other["FLAKY"] != 0 {
				c.R.Violation(idx, "cascade", sig("cascade"), fmt.Sprintf("record %d (the destination fails: %v): the first normal destination saw %d attempt(s) for the record and %d other write(s) during the call (expected one attempt, nothing else): %s", i, failing, own["FLAKY"], other["FLAKY"], q(clip(string(stray), 300))), desc)
				return
			}
			if own["GOOD"] != 1 || other["GOOD"] != 0 || own["WE"] != 0 || other["WE"] != 0 {
				c.R.Violation(idx, "other-destinations", sig("other-destinations"), fmt.Sprintf("record %d: the healthy destination behind the failing one holds the record %d time(s) and %d other write(s), the error destination %d/%d (expected 1/0 and 0/0): %s", i, own["GOOD"], other["GOOD"], own["WE"], other["WE"], q(clip(string(stray), 300))), desc)
				return
			}
			maxDiag := 0
			if failing {
				maxDiag = 1
			}
			if diags["WE"] > maxDiag || diags["GOOD"] > 0 || diags["FLAKY"] > 0 {
				c.R.Violation(idx, "diagnostic", sig("diagnostic"), fmt.Sprintf("record %d (the destination fails: %v): %d diagnostic(s) at the warning destination (at most %d), %d at the healthy normal destination, %d at the failing one", i, failing, diags["WE"], maxDiag, diags["GOOD"], diags["FLAKY"]), desc)
				return
			}
			c.R.Add("verbose_build_records_judged", 1)
			if diags["WE"] > 0 {
				c.R.Add("diagnostic_records_seen", 1)
			}
		}
		c.R.NonTrivial("verbosebuild", idx)
		if c.R.WantSample() {
			c.R.Sample(idx, desc, "every call returned; one attempt per record at the failing destination; the healthy destination holds each record once; at most one diagnostic per failing record")
		}
	})
}

func init() { reg("C13", "addonly", c13addOnly) }

// c13addOnly: loggers configured with Add* calls only - they KEEP the built-in standard devices and get one to three
// further normal destinations and zero to two further error destinations (the README's "tty+file" set-up, grown). One of
// the added normal destinations fails. Oracle per record: every normal destination (stdout included) is handed a
// normal-class record once, every error destination (stderr included) an error-class record once, nobody else gets it;
// the diagnostic about the failure goes to warning destinations only (the error set), at most once each.
func c13addOnly(c *Ctx) {
	fds, err := captureFds()
	if err != nil {
		c.R.Violation(-1, "harness", "C13/harness", err.Error(), nil)
		return
	}
	slog.SetFlags((slog.GetFlags() | slog.LnoInterrupt) &^ slog.Lcaller)
	log := mon.NewLog()
	c.Each(func(idx int, r *gen.R) {
		nN := 1 + idx%3       // added normal destinations
		nE := (idx / 3) % 3   // added error destinations
		bad := (idx / 9) % nN // which of the added normal ones fails
		f := Format((idx / 27) % 3)
		lg := slog.New(fmt.Sprintf("ao%d", idx)).Root()
		if (idx/81)%2 == 1 {
			lg = lg.New("kid")
		}
		var normal, errs []string
		for i := 0; i < nN; i++ {
			w := mon.New(log, fmt.Sprintf("N%d", i), mon.ShapePlain)
			if i == bad {
				w.Core().Fail = func(int, []byte) (bool, int) { return true, 0 }
			}
			lg.AddWriter(w)
			normal = append(normal, fmt.Sprintf("N%d", i))
		}
		for i := 0; i < nE; i++ {
			lg.AddErrorWriter(mon.New(log, fmt.Sprintf("E%d", i), mon.ShapePlain))
			errs = append(errs, fmt.Sprintf("E%d", i))
		}
		setFormat(lg, f)
		lg.SetLevel(slog.AlwaysLevel)
		desc := map[string]any{"format": f.String(), "added_normal_destinations": nN, "added_error_destinations": nE, "failing": fmt.Sprintf("N%d", bad), "built_with": "AddWriter / AddErrorWriter only (the standard devices stay)"}
		for ci, sev := range []slog.Level{slog.InfoLevel, slog.ErrorLevel, slog.InfoLevel, slog.WarnLevel, slog.DebugLevel, slog.InfoLevel} {
			id := fmt.Sprintf("#ao%d-%d#", idx, ci)
			big := ""
			if ci == 5 {
				big = strings.Repeat("0123456789abcdef", 4400) + "#end-of-the-record#" // (a record of more than 64 KiB)
			}
			log.Reset()
			m1, m2 := fds.mark()
			panicked := ""
			func() {
				defer func() {
					if e := recover(); e != nil {
						panicked = fmt.Sprint(e)
					}
				}()
				c.R.JournalNote(fmt.Sprintf("addonly %v sev=%v %s", desc, sev, id))
				lg.LogAttrs(bg, sev, "rec "+id, "k", ci, "zbig", big)
			}()
			sig := func(clause string) string { return "C13/" + clause + "/add-only/" + className(sev) }
			if panicked != "" {
				c.R.Violation(idx, "returns-normally", sig("returns-normally"), "the logging call panicked: "+panicked, desc)
				return
			}
			b1, b2 := fds.since(m1, m2)
			own, diags := map[string]int{}, map[string]int{}
			for _, e := range log.Events() {
				if e.Kind != mon.EvWrite {
					continue
				}
				if bytes.Contains(e.Data, []byte(diagText)) {
					diags[e.W]++
				} else if bytes.Contains(e.Data, []byte(id)) {
					own[e.W]++
					if e.W != fmt.Sprintf("N%d", bad) && (!bytes.HasSuffix(e.Data, []byte("\n")) || (big != "" && !bytes.Contains(e.Data, []byte("#end-of-the-record#")))) {
						c.R.Violation(idx, "other-destinations", sig("other-destinations"), fmt.Sprintf("the healthy destination %s was handed %d bytes of a record of %d+ bytes (no end of record): ...%s", e.W, len(e.Data), len(big), q(string(e.Data[max0(len(e.Data)-60):]))), desc)
						return
					}
				}
			}
			own["stdout"], own["stderr"] = bytes.Count(b1, []byte(id)), bytes.Count(b2, []byte(id))
			diags["stdout"], diags["stderr"] = bytes.Count(b1, []byte(diagText)), bytes.Count(b2, []byte(diagText))
			normalClass := !builtinErrorClass(sev)
			for _, wn := range append([]string{"stdout"}, normal...) {
				want := 0
				if normalClass {
					want = 1
				}
				if own[wn] != want {
					c.R.Violation(idx, "other-destinations", sig("other-destinations"), fmt.Sprintf("normal destination %s was handed the record %d time(s), expected %d (observed %v)", wn, own[wn], want, own), desc)
					return
				}
				if diags[wn] != 0 {
					c.R.Violation(idx, "diagnostic", sig("diagnostic"), fmt.Sprintf("the report about the failing destination went to the NORMAL destination %s (%d time(s)); warning destinations are stderr and %v (observed %v)", wn, diags[wn], errs, diags), desc)
					return
				}
			}
			for _, wn := range append([]string{"stderr"}, errs...) {
				want := 0
				if !normalClass {
					want = 1
				}
				if own[wn] != want {
					c.R.Violation(idx, "other-destinations", sig("other-destinations"), fmt.Sprintf("error destination %s was handed the record %d time(s), expected %d (observed %v)", wn, own[wn], want, own), desc)
					return
				}
				if diags[wn] > 1 || (diags[wn] > 0 && !normalClass) {
					c.R.Violation(idx, "diagnostic", sig("diagnostic"), fmt.Sprintf("warning destination %s got %d reports for one record (severity class normal: %v)", wn, diags[wn], normalClass), desc)
					return
				}
			}
			if normalClass {
				c.R.Add("calls_with_a_failing_write", 1)
			}
			if diags["stderr"] > 0 {
				c.R.Add("diagnostic_records_seen", 1)
			}
			c.R.Add("add_only_records_judged", 1)
		}
		c.R.NonTrivial("addonly", idx)
		if c.R.WantSample() {
			c.R.Sample(idx, desc, "every destination of the record's class was handed it once; reports about the failure only at warning destinations")
		}
	})
}

func init() { reg("C13", "fsizelimit", c13fsizeLimit) }

// c13fsizeLimit: a log file made by the package's own NewFileWriter hits a REAL, transient failure of the operating
// system - the process's file size limit (RLIMIT_FSIZE, SIGXFSZ ignored: write returns EFBIG), as a full disk or an
// exhausted quota would - for one or two records, then the limit is lifted again. Oracle: the calls return; the recording
// destination behind the file holds every record once; while the file fails there is at most one diagnostic per record
// (at the warning destination); once the limit is lifted, the records are IN THE FILE again and draw no diagnostic.
func c13fsizeLimit(c *Ctx) {
	slog.SetFlags((slog.GetFlags() | slog.LnoInterrupt) &^ slog.Lcaller)
	signal.Ignore(syscall.SIGXFSZ)
	var old syscall.Rlimit
	if err := syscall.Getrlimit(syscall.RLIMIT_FSIZE, &old); err != nil {
		c.R.Add("rlimit_fsize_not_available", 1)
		return
	}
	log := mon.NewLog()
	c.Each(func(idx int, r *gen.R) {
		f := Format(idx % 3)
		nFail := 1 + (idx/3)%2
		dir, err := os.MkdirTemp("", "c13-fsz-*")
		if err != nil {
			return
		}
		defer os.RemoveAll(dir)
		path := dir + "/app.log"
		fw := slog.NewFileWriter(path)
		w0 := mon.New(log, "W0", mon.ShapePlain)
		we := mon.New(log, "WE", mon.ShapePlain)
		lg := slog.New(fmt.Sprintf("fsz%d", idx)).Root()
		if (idx/6)%2 == 1 {
			lg = lg.New("kid")
		}
		lg.SetWriter(fw).AddWriter(w0).SetErrorWriter(we)
		setFormat(lg, f)
		lg.SetLevel(slog.AlwaysLevel)
		desc := map[string]any{"format": f.String(), "records_while_the_limit_is_in_force": nFail, "destination": "NewFileWriter file, then a recording one"}
		type step struct {
			limited bool
		}
		steps := []step{{false}, {false}}
		for i := 0; i < nFail; i++ {
			steps = append(steps, step{true})
		}
		steps = append(steps, step{false}, step{false}, step{false})
		var ids []string
		var expectInFile []string
		for ci, st := range steps {
			id := fmt.Sprintf("#fsz%d-%d#", idx, ci)
			ids = append(ids, id)
			log.Reset()
			if st.limited {
				fi, _ := os.Stat(path)
				lim := syscall.Rlimit{Cur: uint64(fi.Size()) + 5, Max: old.Max}
				if err := syscall.Setrlimit(syscall.RLIMIT_FSIZE, &lim); err != nil {
					c.R.Add("rlimit_fsize_not_available", 1)
					return
				}
			} else {
				expectInFile = append(expectInFile, id)
			}
			panicked := ""
			func() {
				defer func() {
					if e := recover(); e != nil {
						panicked = fmt.Sprint(e)
					}
				}()
				lg.Info("rec "+id, "k", ci, "pad", "0123456789012345678901234567890123456789")
			}()
			if st.limited {
				_ = syscall.Setrlimit(syscall.RLIMIT_FSIZE, &old) // (lifted again before anything else is written anywhere)
			}
			c.R.JournalNote(fmt.Sprintf("fsizelimit %v %s limited=%v", desc, id, st.limited))
			sig := func(clause string) string { return "C13/" + clause + "/file-size-limit" }
			if panicked != "" {
				c.R.Violation(idx, "returns-normally", sig("returns-normally"), "the logging call panicked: "+panicked, desc)
				return
			}
			own, diags := 0, 0
			for _, e := range log.Events() {
				if e.Kind != mon.EvWrite {
					continue
				}
				if bytes.Contains(e.Data, []byte(diagText)) {
					diags++
					if e.W != "WE" {
						c.R.Violation(idx, "diagnostic", sig("diagnostic"), fmt.Sprintf("a report about the failing file went to %s, which is no warning destination", e.W), desc)
						return
					}
				} else if e.W == "W0" && bytes.Contains(e.Data, []byte(id)) {
					own++
				}
			}
			if own != 1 {
				c.R.Violation(idx, "other-destinations", sig("other-destinations"), fmt.Sprintf("record %d (file size limit in force: %v): the recording destination behind the file got it %d time(s)", ci, st.limited, own), desc)
				return
			}
			if diags > 1 || (diags > 0 && !st.limited) {
				c.R.Violation(idx, "recovery", sig("recovery"), fmt.Sprintf("record %d (file size limit in force: %v; lifted %d record(s) ago): %d report(s) about a failing destination", ci, st.limited, ci-(1+nFail), diags), desc)
				return
			}
			if st.limited {
				c.R.Add("calls_with_a_failing_write", 1)
				if diags == 1 {
					c.R.Add("diagnostic_records_seen", 1)
				}
			}
		}
		_ = fw.Close()
		b, _ := os.ReadFile(path)
		for _, id := range expectInFile {
			if bytes.Count(b, []byte(id)) != 1 {
				c.R.Violation(idx, "recovery", "C13/recovery/file-size-limit", fmt.Sprintf("the log file holds record %s %d time(s), expected once (the file size limit was in force for %d record(s) in between and lifted again); file: %s", id, bytes.Count(b, []byte(id)), nFail, q(clip(string(b), 700))), desc)
				return
			}
		}
		c.R.Add("file_size_limit_cases_judged", 1)
		c.R.NonTrivial("fsizelimit", idx)
		if c.R.WantSample() {
			c.R.Sample(idx, desc, "every call returned; the recording destination got every record once; after the limit was lifted the file holds the later records and nothing is reported any more")
		}
	})
}
