package main

import (
	"bytes"
	"fmt"
	"io"
	stdslog "log/slog"
	"os"
	"sort"
	"strings"
	"syscall"

	"github.com/hedzr/logg/slog"
	errorsv3 "gopkg.in/hedzr/errors.v3"

	"verifharness/gen"
	"verifharness/mon"
)

func init() {
	reg("C03", "exh", c03exhaustive)
	reg("C03", "rand", c03random)
}

const (
	lvlCustErr   = slog.Level(30) // registered for the error device
	lvlCustPlain = slog.Level(31) // registered, normal device
	lvlCustGated = slog.Level(32) // registered, gated like Error but NOT for the error device: normal writers
	// the error device is a property of the registration alone: not of the numeric value (beyond 63, negative) and not of
	// what the level is gated as
	lvlCustErrBig   = slog.Level(1000) // registered for the error device, value above any machine word of flags
	lvlCustErr64    = slog.Level(64)   // registered for the error device
	lvlCustErrNeg   = slog.Level(-5)   // registered for the error device, negative value
	lvlCustErrInfo  = slog.Level(33)   // registered for the error device although it is gated like Info
	lvlCustPlain65  = slog.Level(65)   // registered, normal device
	lvlCustPlainNeg = slog.Level(-21)  // registered, NEGATIVE value, normal device
)

type fdCapture struct {
	f1, f2 *os.File
}

// captureFds redirects fds 1 and 2 of this process onto files so that the package
// fallback writers (stdout / stderr) can be observed.
func captureFds() (*fdCapture, error) {
	f1, err := os.OpenFile("fd1.out", os.O_RDWR|os.O_CREATE|os.O_TRUNC|os.O_APPEND, 0o644)
	if err != nil {
		return nil, err
	}
	f2, err := os.OpenFile("fd2.out", os.O_RDWR|os.O_CREATE|os.O_TRUNC|os.O_APPEND, 0o644)
	if err != nil {
		return nil, err
	}
	if err := syscall.Dup2(int(f1.Fd()), 1); err != nil {
		return nil, err
	}
	if err := syscall.Dup2(int(f2.Fd()), 2); err != nil {
		return nil, err
	}
	return &fdCapture{f1, f2}, nil
}

// borrowFds redirects fds 1 and 2 onto fresh files for the duration of one call and gives them back afterwards
// (the returned function restores the fds and returns what was written to each).
func borrowFds() func() (out1, out2 []byte) {
	s1, e1 := syscall.Dup(1)
	s2, e2 := syscall.Dup(2)
	f1, e3 := os.CreateTemp(".", "fd1-*.out")
	f2, e4 := os.CreateTemp(".", "fd2-*.out")
	if e1 != nil || e2 != nil || e3 != nil || e4 != nil {
		panic(fmt.Sprint("harness: borrowFds: ", e1, e2, e3, e4))
	}
	_ = syscall.Dup2(int(f1.Fd()), 1)
	_ = syscall.Dup2(int(f2.Fd()), 2)
	return func() ([]byte, []byte) {
		_ = syscall.Dup2(s1, 1)
		_ = syscall.Dup2(s2, 2)
		_ = syscall.Close(s1)
		_ = syscall.Close(s2)
		b1, _ := os.ReadFile(f1.Name())
		b2, _ := os.ReadFile(f2.Name())
		f1.Close()
		f2.Close()
		_ = os.Remove(f1.Name())
		_ = os.Remove(f2.Name())
		return b1, b2
	}
}

func (c *fdCapture) size(f *os.File) int64 {
	st, err := f.Stat()
	if err != nil {
		return 0
	}
	return st.Size()
}

func (c *fdCapture) mark() (int64, int64) { return c.size(c.f1), c.size(c.f2) }

// tail returns what was appended to f since the size mark.
func (c *fdCapture) tail(f *os.File, from int64) []byte {
	n := c.size(f) - from
	if n <= 0 {
		return nil
	}
	b := make([]byte, n)
	_, _ = f.ReadAt(b, from)
	return b
}

func (c *fdCapture) since(m1, m2 int64) (b1, b2 []byte) {
	rd := func(f *os.File, from int64) []byte {
		n := c.size(f) - from
		if n <= 0 {
			return nil
		}
		b := make([]byte, n)
		_, _ = f.ReadAt(b, from)
		return b
	}
	return rd(c.f1, m1), rd(c.f2, m2)
}

// ---- model -----------------------------------------------------------------

const (
	wSTDOUT = "STDOUT"
	wSTDERR = "STDERR"
)

type wlist struct {
	ids   []string
	loose map[string]bool // a removal met several copies: k-1 or 0 copies may remain
}

func (l *wlist) clone() wlist {
	n := wlist{ids: append([]string(nil), l.ids...), loose: map[string]bool{}}
	for k, v := range l.loose {
		n.loose[k] = v
	}
	return n
}

func (l *wlist) remove(id string) {
	cnt := 0
	for _, x := range l.ids {
		if x == id {
			cnt++
		}
	}
	if cnt == 0 {
		return
	}
	if cnt > 1 {
		if l.loose == nil {
			l.loose = map[string]bool{}
		}
		l.loose[id] = true
	}
	for i, x := range l.ids {
		if x == id {
			l.ids = append(append([]string(nil), l.ids[:i]...), l.ids[i+1:]...)
			return
		}
	}
}

type wmodel struct {
	fresh   bool // never given writers: package defaults
	normal  wlist
	errs    wlist
	leveled map[slog.Level]*wlist
}

func newModel() *wmodel {
	return &wmodel{fresh: true, normal: wlist{ids: []string{wSTDOUT}}, errs: wlist{ids: []string{wSTDERR}}, leveled: map[slog.Level]*wlist{}}
}

type wop struct {
	name string
	w    int        // writer index in the pool (-1: none)
	lvl  slog.Level // for level ops
}

func (o wop) String() string {
	s := o.name
	if strings.Contains(o.name, "Level") && o.name != "ResetLevelWriters" {
		s += fmt.Sprintf("(%v", o.lvl)
		if o.w >= 0 {
			s += fmt.Sprintf(",W%d", o.w)
		}
		return s + ")"
	}
	if o.w >= 0 {
		s += fmt.Sprintf("(W%d)", o.w)
	}
	return s
}

func (m *wmodel) apply(o wop) {
	id := fmt.Sprintf("W%d", o.w)
	switch o.w {
	case 12:
		id = wSTDOUT // os.Stdout handed over by the application: the same device as the default one, a second member
	case 13:
		id = wSTDERR
	}
	touch := func() { m.fresh = false }
	switch o.name {
	case "SetWriter":
		touch()
		m.normal = wlist{ids: []string{id}}
	case "AddWriter":
		touch()
		m.normal.ids = append(m.normal.ids, id)
	case "RemoveWriter":
		m.normal.remove(id)
	case "SetErrorWriter":
		touch()
		m.errs = wlist{ids: []string{id}}
	case "AddErrorWriter":
		touch()
		m.errs.ids = append(m.errs.ids, id)
	case "RemoveErrorWriter":
		m.errs.remove(id)
	case "ResetWriters":
		touch()
		m.normal = wlist{ids: []string{wSTDOUT}}
		m.errs = wlist{ids: []string{wSTDERR}}
		m.leveled = map[slog.Level]*wlist{}
	case "AddLevelWriter":
		touch()
		l := m.leveled[o.lvl]
		if l == nil {
			l = &wlist{}
			m.leveled[o.lvl] = l
		}
		l.ids = append(l.ids, id)
	case "RemoveLevelWriter":
		if l := m.leveled[o.lvl]; l != nil {
			l.remove(id)
		}
	case "ResetLevelWriter":
		delete(m.leveled, o.lvl)
	case "ResetLevelWriters":
		m.leveled = map[slog.Level]*wlist{}
	}
}

func errorClass(l slog.Level) bool {
	switch l {
	case slog.PanicLevel, slog.FatalLevel, slog.ErrorLevel, slog.WarnLevel, slog.FailLevel, lvlCustErr, lvlCustErrBig, lvlCustErr64, lvlCustErrNeg, lvlCustErrInfo:
		return true
	}
	return false
}

// dest returns the selected list for severity r.
func (m *wmodel) dest(r slog.Level) *wlist {
	if l := m.leveled[r]; l != nil && len(l.ids) > 0 {
		return l
	}
	if errorClass(r) {
		return &m.errs
	}
	return &m.normal
}

// ---- driving the library ---------------------------------------------------

type c03env struct {
	log   *mon.Log
	pool  []io.Writer
	shape []string
	fds   *fdCapture
	lvlS  map[string]bool // writer id -> LevelSettable
	seq   int
	file6 *os.File
	bare  []*bareW
	testing bool // the process runs under go test
	capped bool // this sequence: W2 and W4 take 40 bytes per Write and report no error
}

// c03reentrantW issues an Error record through its own logger from inside its first Write.
type c03reentrantW struct {
	lg    *slog.Entry
	id    string
	outer int
	busy  bool
}

func (w *c03reentrantW) Write(p []byte) (int, error) {
	w.outer++
	if !w.busy {
		w.busy = true
		w.lg.Error(w.id)
		w.busy = false
	}
	return len(p), nil
}

// bareW keeps what it is handed and nothing else.
type bareW struct{ buf []byte }

func (w *bareW) Write(p []byte) (int, error) { w.buf = append(w.buf, p...); return len(p), nil }

func newC03env(configureDefault bool) (*c03env, error) {
	e := &c03env{log: mon.NewLog(), lvlS: map[string]bool{}}
	if configureDefault {
		// the application has given the builtin default logger destinations of its own: that is the configuration of
		// ONE logger; loggers that were never given writers keep using the package's default devices
		decoy := mon.New(e.log, "WRITER-OF-THE-BUILTIN-DEFAULT-LOGGER", mon.ShapePlain)
		slog.Default().AddWriter(decoy)
		slog.Default().AddErrorWriter(decoy)
		slog.Default().AddLevelWriter(slog.InfoLevel, decoy)
		slog.Default().AddLevelWriter(slog.ErrorLevel, decoy)
	}
	shapes := []mon.Shape{mon.ShapePlain, mon.ShapeCloser, mon.ShapeLvlPlain, mon.ShapeLvlCloser, mon.ShapePlain}
	for i, s := range shapes {
		id := fmt.Sprintf("W%d", i)
		e.pool = append(e.pool, mon.New(e.log, id, s))
		e.shape = append(e.shape, s.String())
		e.lvlS[id] = s.LevelSettable()
	}
	// W2 (LevelSettable) and W4 are size-capped sinks in every other sequence: they take the first 40 bytes of what they
	// are handed and say so, without an error. Each is still told the severity and handed the record ONCE.
	for _, i := range []int{2, 4} {
		e.pool[i].(mon.W).Core().Fail = func(_ int, p []byte) (bool, int) {
			if e.capped && len(p) > 40 {
				return false, 40
			}
			return false, len(p)
		}
	}
	e.pool = append(e.pool, mon.NewPtr(e.log, "W5"))
	e.shape = append(e.shape, "ptr-plain")
	// W6: a real *os.File (the README's "tty+file" example); observed by reading the file back
	f6, ferr := os.OpenFile("w6.out", os.O_RDWR|os.O_CREATE|os.O_TRUNC|os.O_APPEND, 0o644)
	if ferr != nil {
		return nil, ferr
	}
	e.file6 = f6
	e.pool = append(e.pool, f6)
	e.shape = append(e.shape, "*os.File")
	// W7: a destination whose Write always fails: it is still handed every record it is selected for, and so is
	// every writer registered after it in the same list
	w7 := mon.New(e.log, "W7", mon.ShapePlain)
	w7.Core().Fail = func(int, []byte) (bool, int) { return true, 0 }
	e.pool = append(e.pool, w7)
	e.shape = append(e.shape, "always-failing")
	// W8, W9: two writers of the same type that look alike (same contents at any time they sit in the same list) and
	// are told apart by identity only, like two bytes.Buffers
	for i := 8; i <= 9; i++ {
		b := &bareW{}
		e.bare = append(e.bare, b)
		e.pool = append(e.pool, b)
		e.shape = append(e.shape, "bare-lookalike")
	}
	// W10: a real file that was closed under the logger (rotated away): every Write fails with os.ErrClosed. What it was
	// handed cannot be observed; what matters is that nobody ELSE gets the record because of it
	f10, ferr := os.OpenFile("w10.out", os.O_RDWR|os.O_CREATE|os.O_TRUNC, 0o644)
	if ferr != nil {
		return nil, ferr
	}
	_ = f10.Close()
	e.pool = append(e.pool, f10)
	e.shape = append(e.shape, "closed *os.File")
	// W12, W13: os.Stdout / os.Stderr themselves, ADDED by the application (a program that picks its writer from a command
	// line option): one more member of the list, also when the list still holds the default device for the same file
	// W11: a LevelSettable destination registered through the exported NewLogWriter wrapper
	w11 := mon.New(e.log, "W11", mon.ShapeLvlPlain)
	e.pool = append(e.pool, slog.NewLogWriter(w11))
	e.shape = append(e.shape, "NewLogWriter(LevelSettable)")
	e.lvlS["W11"] = true
	e.pool = append(e.pool, os.Stdout, os.Stderr) // W12, W13
	e.shape = append(e.shape, "os.Stdout", "os.Stderr")
	var err error
	e.fds, err = captureFds()
	if err != nil {
		return nil, err
	}
	_ = slog.RegisterLevel(lvlCustErr, "custerr", slog.RegWithTreatedAsLevel(slog.ErrorLevel), slog.RegWithPrintToErrorDevice(true))
	_ = slog.RegisterLevel(lvlCustPlain, "custplain", slog.RegWithTreatedAsLevel(slog.InfoLevel))
	// the error-device request is a yes/no option: an explicit "no" (also as the last of several values) is a no
	_ = slog.RegisterLevel(lvlCustGated, "custgated", slog.RegWithTreatedAsLevel(slog.ErrorLevel), slog.RegWithPrintToErrorDevice(true, false))
	_ = slog.RegisterLevel(lvlCustErrBig, "custerrbig", slog.RegWithPrintToErrorDevice(false, true))
	_ = slog.RegisterLevel(lvlCustErr64, "custerr64", slog.RegWithTreatedAsLevel(slog.WarnLevel), slog.RegWithPrintToErrorDevice(true))
	_ = slog.RegisterLevel(lvlCustErrNeg, "custerrneg", slog.RegWithTreatedAsLevel(slog.WarnLevel), slog.RegWithPrintToErrorDevice(true))
	_ = slog.RegisterLevel(lvlCustErrInfo, "custerrinfo", slog.RegWithTreatedAsLevel(slog.InfoLevel), slog.RegWithPrintToErrorDevice(true))
	// a NEGATIVE value that is not registered for the error device (an application's AUDIT level above Panic): normal class
	_ = slog.RegisterLevel(lvlCustPlainNeg, "custplainneg", slog.RegWithTreatedAsLevel(slog.InfoLevel))
	_ = slog.RegisterLevel(lvlCustPlain65, "custplain65", slog.RegWithTreatedAsLevel(slog.InfoLevel), slog.RegWithPrintToErrorDevice(false))
	// registrations that are REFUSED (value or title in use), each asking for the error device: they leave no trace
	_ = slog.RegisterLevel(slog.InfoLevel, "info-again", slog.RegWithPrintToErrorDevice(true))
	_ = slog.RegisterLevel(slog.DebugLevel, "debug-again", slog.RegWithPrintToErrorDevice(true), slog.RegWithTreatedAsLevel(slog.ErrorLevel))
	_ = slog.RegisterLevel(lvlCustPlain, "custplain-again", slog.RegWithPrintToErrorDevice(true))
	_ = slog.RegisterLevel(slog.Level(88), "custerr", slog.RegWithPrintToErrorDevice(true)) // title taken: 88 stays unregistered
	_ = slog.RegisterLevel(slog.Level(89), "warning", slog.RegWithPrintToErrorDevice(true)) // title of a built-in level
	slog.AddFlags(slog.LnoInterrupt)
	slog.RemoveFlags(slog.Lcaller)
	return e, nil
}

func (e *c03env) applyMethod(l *slog.Entry, o wop) {
	var w io.Writer
	if o.w >= 0 {
		w = e.pool[o.w]
	}
	switch o.name {
	case "SetWriter":
		l.SetWriter(w)
	case "AddWriter":
		l.AddWriter(w)
	case "RemoveWriter":
		l.RemoveWriter(w)
	case "SetErrorWriter":
		l.SetErrorWriter(w)
	case "AddErrorWriter":
		l.AddErrorWriter(w)
	case "RemoveErrorWriter":
		l.RemoveErrorWriter(w)
	case "ResetWriters":
		l.ResetWriters()
	case "AddLevelWriter":
		l.AddLevelWriter(o.lvl, w)
	case "RemoveLevelWriter":
		l.RemoveLevelWriter(o.lvl, w)
	case "ResetLevelWriter":
		l.ResetLevelWriter(o.lvl)
	case "ResetLevelWriters":
		l.ResetLevelWriters()
	case "pkg.Reset":
		// the package-level Reset() restores level and flags; it is not a writer operation
		slog.Reset()
		slog.AddFlags(slog.LnoInterrupt)
		slog.RemoveFlags(slog.Lcaller)
		l.SetLevel(slog.AlwaysLevel)
	case "CloseAnotherLogger":
		// Close on ANOTHER logger that was never given writers (it resolves to the package defaults): this logger, and
		// the package defaults it may fall back to, keep working
		other := slog.New(fmt.Sprintf("closed%d", e.seq))
		other.Close()
		if o.w%2 == 1 {
			kid := slog.New(fmt.Sprintf("closedparent%d", e.seq)).Root().New("kid")
			kid.Close()
		}
	case "DeriveWithWriter", "DeriveWithErrorWriter":
		// a child derived with the With form and reconfigured afterwards: the receiver's configuration stays what it was
		var ch *slog.Entry
		if o.name == "DeriveWithWriter" {
			ch = l.WithWriter(w)
		} else {
			ch = l.WithErrorWriter(w)
		}
		ch.AddWriter(e.pool[(o.w+1)%5])
		ch.SetErrorWriter(e.pool[(o.w+2)%5])
		ch.AddLevelWriter(slog.InfoLevel, e.pool[(o.w+3)%5])
		ch.SetWriter(e.pool[(o.w+4)%5])
	}
}

// asOpt returns the New(...) option form of an operation, nil if it has none.
func (e *c03env) asOpt(o wop) slog.Opt {
	var w io.Writer
	if o.w >= 0 {
		w = e.pool[o.w]
	}
	switch o.name {
	case "SetWriter":
		return slog.WithWriter(w)
	case "AddWriter":
		return slog.AddWriter(w)
	case "SetErrorWriter":
		return slog.WithErrorWriter(w)
	case "AddErrorWriter":
		return slog.AddErrorWriter(w)
	case "ResetWriters":
		return slog.ResetWriters()
	case "AddLevelWriter":
		return slog.AddLevelWriter(o.lvl, w)
	case "RemoveLevelWriter":
		return slog.RemoveLevelWriter(o.lvl, w)
	case "ResetLevelWriter":
		return slog.ResetLevelWriter(o.lvl)
	case "ResetLevelWriters":
		return slog.ResetLevelWriters()
	}
	return nil
}

// c03form is one way of issuing a probe record.
type c03form struct {
	name  string
	sev   slog.Level
	blank bool
	emit  func(lg *slog.Entry, id string)
	inner *slog.Level // the severity of the record that one of the probe's values issues while the probe is being formatted
}

// c03nest is a value whose String() issues a record of another severity through the same logger (a lazy value with
// an instrumented String()): that record is complete - selected, announced, written - before the outer one goes out.
type c03nest struct {
	lg  *slog.Entry
	sev slog.Level
	id  string
}

func (n c03nest) String() string { n.lg.LogAttrs(bg, n.sev, "inner-"+n.id); return "nest" }

var c03forms = func() []c03form {
	var fs []c03form
	for _, sev := range probeSevs {
		sev := sev
		fs = append(fs, c03form{"LogAttrs", sev, false, func(lg *slog.Entry, id string) { lg.LogAttrs(bg, sev, id) }, nil})
	}
	// the same severities through the verbs, and the blank-line forms of Print/Println (one newline byte, Always severity)
	fs = append(fs,
		c03form{"Info", slog.InfoLevel, false, func(lg *slog.Entry, id string) { lg.Info(id, "k", 1) }, nil},
		c03form{"Errorf", slog.ErrorLevel, false, func(lg *slog.Entry, id string) { _ = lg.Errorf("%s", id) }, nil},
		c03form{"WarnContext", slog.WarnLevel, false, func(lg *slog.Entry, id string) { lg.WarnContext(bg, id) }, nil},
		c03form{"Println(id)", slog.AlwaysLevel, false, func(lg *slog.Entry, id string) { lg.Println(id) }, nil},
		c03form{"Print(id)", slog.AlwaysLevel, false, func(lg *slog.Entry, id string) { lg.Print(id) }, nil},
		c03form{"Println()", slog.AlwaysLevel, true, func(lg *slog.Entry, id string) { lg.Println() }, nil},
		c03form{"Print(\"\")", slog.AlwaysLevel, true, func(lg *slog.Entry, id string) { lg.Print("") }, nil},
		c03form{"Print(\" \\n\")", slog.AlwaysLevel, true, func(lg *slog.Entry, id string) { lg.Print(" \n") }, nil},
		c03form{name: "PrintContext(\"\\n\")", sev: slog.AlwaysLevel, blank: true, emit: func(lg *slog.Entry, id string) { lg.PrintContext(bg, "\n") }},
		// records that carry an error with a stack trace (under go test the text formats append its details to the record):
		// what a record carries is no input of where it goes
		c03form{name: "Info(id, err with a stack trace)", sev: slog.InfoLevel, emit: func(lg *slog.Entry, id string) { lg.Info(id, "err", errorsv3.New("boom"), "k", 1) }},
		c03form{name: "OK(id, err with a stack trace)", sev: slog.OKLevel, emit: func(lg *slog.Entry, id string) { lg.OK(id, "err", errorsv3.New("boom")) }},
		c03form{name: "LogAttrs(custplain, err with a stack trace)", sev: lvlCustPlain, emit: func(lg *slog.Entry, id string) { lg.LogAttrs(bg, lvlCustPlain, id, "err", errorsv3.New("boom")) }},
	)
	// ... and through the log/slog front end built on the logger with format options (JSON, then colour: at least one of
	// the two differs from what the logger printed before): a record of that front end goes where the logger's go
	fs = append(fs,
		c03form{name: "log/slog handler(JSON).Info", sev: slog.InfoLevel, emit: func(lg *slog.Entry, id string) {
			stdslog.New(slog.NewSlogHandler(lg, &slog.HandlerOptions{JSON: true, NoColor: true, NoSource: true, Level: slog.PanicLevel})).Info(id)
		}},
		c03form{name: "log/slog handler(colour).Error", sev: slog.ErrorLevel, emit: func(lg *slog.Entry, id string) {
			stdslog.New(slog.NewSlogHandler(lg, &slog.HandlerOptions{JSON: false, NoColor: false, NoSource: true, Level: slog.PanicLevel})).Error(id)
		}},
		c03form{name: "log/slog handler(logfmt).Warn", sev: slog.WarnLevel, emit: func(lg *slog.Entry, id string) {
			stdslog.New(slog.NewSlogHandler(lg, &slog.HandlerOptions{JSON: false, NoColor: true, NoSource: true, Level: slog.PanicLevel})).Warn(id)
		}},
	)
	for _, p := range [][2]slog.Level{{slog.InfoLevel, slog.DebugLevel}, {slog.ErrorLevel, slog.WarnLevel}, {slog.InfoLevel, slog.ErrorLevel}, {slog.WarnLevel, slog.InfoLevel}, {slog.AlwaysLevel, slog.TraceLevel}} {
		outer, inner := p[0], p[1]
		fs = append(fs, c03form{name: fmt.Sprintf("LogAttrs(%v, a value whose String() logs at %v)", outer, inner), sev: outer, inner: &inner,
			emit: func(lg *slog.Entry, id string) { lg.LogAttrs(bg, outer, id, "v", c03nest{lg, inner, id}) }})
	}
	return fs
}()

var probeSevs = []slog.Level{slog.InfoLevel, slog.ErrorLevel, slog.DebugLevel, slog.WarnLevel, slog.TraceLevel, slog.PanicLevel, slog.AlwaysLevel, slog.FatalLevel,
	slog.OKLevel, slog.FailLevel, slog.SuccessLevel, lvlCustErr, lvlCustPlain, lvlCustGated, slog.Level(88), slog.Level(89), lvlCustErrBig, lvlCustErr64, lvlCustErrNeg, lvlCustErrInfo, lvlCustPlain65, lvlCustPlainNeg, slog.Level(-88)}

type c03viol struct{ clause, detail string }

// runSeq applies the sequence (as methods, or as New options when viaOpts and every op has an
// option form) to a fresh logger of the given kind, probes every severity and compares with the model.
// c03fanoutW is a LevelSettable destination that applications pass by value; its type is not comparable (a slice field).
type c03fanoutW struct {
	st    *c03fanoutState
	sinks []io.Writer
}

type c03fanoutState struct {
	writes, toldBeforeWrite int
	told                    bool
	lvl                     slog.Level
}

func (f c03fanoutW) SetLevel(l slog.Level) { f.st.told, f.st.lvl = true, l }
func (f c03fanoutW) Write(p []byte) (int, error) {
	f.st.writes++
	want := slog.InfoLevel
	if f.st.writes == 2 {
		want = slog.ErrorLevel
	}
	if f.st.told && f.st.lvl == want {
		f.st.toldBeforeWrite++
	}
	f.st.told = false
	for _, s := range f.sinks {
		_, _ = s.Write(p)
	}
	return len(p), nil
}

func (e *c03env) runSeq(kind string, viaOpts bool, ops []wop, rp func(k string, n int64)) []c03viol {
	e.capped = !e.capped
	if e.capped {
		rp("sequences_with_size_capped_destinations_in_the_pool", 1)
	}
	if out := e.runSeq1(kind, viaOpts, ops, rp); len(out) > 0 {
		return out
	}
	// some OTHER part of the application owns a logger that it reset to the package defaults (it holds default devices of
	// its own now) and closes what that logger's getters hand out at shutdown: the loggers here print where they printed
	e.seq++
	x := slog.New(fmt.Sprintf("elsewhere%d", e.seq)).Root()
	x.ResetWriters()
	func() {
		defer func() { _ = recover() }()
		for _, lv := range []slog.Level{slog.InfoLevel, slog.ErrorLevel} {
			if cl, ok := x.GetWriterBy(lv).(io.Closer); ok {
				_ = cl.Close()
			}
		}
	}()
	// a destination that, from inside its Write, issues a record of ANOTHER class through the same logger (an alerting
	// sink that reports what it sees): that record has destinations of its own and reaches them
	{
		e.seq++
		rl := slog.New(fmt.Sprintf("reentrant%d", e.seq)).Root()
		rl.SetColorMode(false)
		rl.SetLevel(slog.AlwaysLevel)
		inner := fmt.Sprintf("inner-%d-", e.seq)
		rw := &c03reentrantW{lg: rl, id: inner}
		rl.SetWriter(rw).SetErrorWriter(e.pool[0])
		e.log.Reset()
		rl.Info(fmt.Sprintf("outer-%d-", e.seq))
		gotInner := 0
		for _, ev := range e.log.Writes("W0") {
			if bytes.Contains(ev.Data, []byte(inner)) {
				gotInner++
			}
		}
		rp("records_issued_from_inside_a_destination_of_the_same_logger", 1)
		if rw.outer != 1 || gotInner != 1 {
			return []c03viol{{"routing", fmt.Sprintf("a normal destination that issues an Error record through the same logger from inside its Write: it was handed the outer record %d time(s) (expected 1), the error destination got the inner record %d time(s) (expected 1)", rw.outer, gotInner)}}
		}
	}
	// a LevelSettable destination passed BY VALUE whose type holds a slice (a fan-out writer): it sits behind another
	// destination in the normal list; it is told the severity and handed the record like any other
	{
		e.seq++
		fl := slog.New(fmt.Sprintf("fanout%d", e.seq)).Root()
		fl.SetColorMode(false)
		fl.SetLevel(slog.AlwaysLevel)
		fo := c03fanoutW{st: &c03fanoutState{}, sinks: []io.Writer{io.Discard}}
		var panicked any
		e.log.Reset()
		func() {
			defer func() { panicked = recover() }()
			fl.SetWriter(e.pool[0]).AddWriter(fo)
			fl.SetErrorWriter(e.pool[1]).AddErrorWriter(slog.NewLogWriter(fo))
			fl.Info(fmt.Sprintf("to-the-fanout-%d-", e.seq))
			fl.Error(fmt.Sprintf("to-the-fanout-%d-", e.seq))
		}()
		rp("records_to_a_level_settable_destination_of_an_uncomparable_value_type", 2)
		if panicked != nil || fo.st.writes != 2 || fo.st.toldBeforeWrite != 2 || len(e.log.Writes("W0")) != 1 || len(e.log.Writes("W1")) != 1 {
			return []c03viol{{"setlevel", fmt.Sprintf("a LevelSettable fan-out destination passed by value (its type holds a slice) behind another destination, one Info and one Error record: panic %v; it was handed %d record(s) (expected 2), told the severity right before %d of them; the destinations in front of it got %d and %d record(s) (expected 1 and 1)", panicked, fo.st.writes, fo.st.toldBeforeWrite, len(e.log.Writes("W0")), len(e.log.Writes("W1")))}}
		}
	}
	rp("sequences_followed_by_a_Close_of_another_loggers_own_default_devices", 1)
	fresh := slog.New(fmt.Sprintf("fresh-after-close%d", e.seq)).Root()
	fresh.SetColorMode(false)
	fresh.SetLevel(slog.AlwaysLevel)
	out := e.probeAll(fresh, newModel(), rp)
	for i := range out {
		out[i].detail = "after another logger (reset to the package defaults) closed what ITS getters hand out, a logger that was never given writers: " + out[i].detail
	}
	return out
}

func (e *c03env) runSeq1(kind string, viaOpts bool, ops []wop, rp func(k string, n int64)) []c03viol {
	model := newModel()
	var lg *slog.Entry
	mk := func(opts ...any) *slog.Entry {
		e.seq++
		name := fmt.Sprintf("r%d", e.seq)
		switch kind {
		case "child":
			parent := slog.New("parent").Root()
			parent.SetWriter(e.pool[4]).SetErrorWriter(e.pool[4]) // a configured parent: the child must NOT use these
			return parent.New(append([]any{name}, opts...)...)
		case "entry":
			return slog.New(append([]any{name}, opts...)...).Root()
		case "default":
			// the logger under test is also the one the package-level functions use
			l := slog.New(append([]any{name}, opts...)...).Root()
			slog.SetDefault(l)
			return l
		}
		return slog.New(append([]any{name}, opts...)...).Root()
	}
	if viaOpts {
		var opts []any
		if e.seq%2 == 1 {
			// New(name, key, value, options...): options may follow attributes (the doc comment of New shows that order)
			opts = append(opts, "k0", 1, slog.Int("k1", 2))
			rp("option_lists_that_follow_attributes", 1)
		}
		for _, o := range ops {
			opts = append(opts, e.asOpt(o))
			model.apply(o)
		}
		lg = mk(opts...)
		lg.SetColorMode(false)
		lg.SetLevel(slog.AlwaysLevel)
		return e.probeAll(lg, model, rp)
	}
	lg = mk()
	lg.SetColorMode(false)
	lg.SetLevel(slog.AlwaysLevel)
	// probe after EVERY operation: records emitted between two reconfigurations must not
	// influence where later records go (e.g. a route cached at the first emission)
	if out := e.probeAll(lg, model, rp); len(out) > 0 {
		return out
	}
	for _, o := range ops {
		e.applyMethod(lg, o)
		model.apply(o)
		if out := e.probeAll(lg, model, rp); len(out) > 0 {
			return out
		}
	}
	return nil
}

// probeAll issues one probe record per severity and compares per-writer counts with the model.
func (e *c03env) probeAll(lg *slog.Entry, model *wmodel, rp func(k string, n int64)) []c03viol {
	var out []c03viol
	for _, pf := range c03forms {
		if pf.blank && e.testing {
			// (under go test the library's report about a failing destination is followed by the details of the error it
			// carries: lines of their own on the same device, which a probe that counts LINES cannot tell from its own)
			continue
		}
		sev := pf.sev
		e.seq++
		id := fmt.Sprintf("probe-%d-", e.seq)
		e.log.Reset()
		m1, m2 := e.fds.mark()
		m6 := e.fds.size(e.file6)
		pf.emit(lg, id)
		if pf.blank {
			id = "\n" // a blank Print/Println is delivered as one newline byte and nothing else
			rp("blank_line_probes", 1)
		}
		if pf.name != "LogAttrs" {
			rp("probes_through_verbs_and_print", 1)
		}
		evs := e.log.Events()
		b1, b2 := e.fds.since(m1, m2)
		rp("probes", 1)
		// observed counts
		got := map[string]int{}
		for _, ev := range evs {
			if ev.Kind == mon.EvWrite {
				if bytes.Contains(ev.Data, []byte("slog print log failed")) {
					continue // the library's diagnostic about the failing destination (C13's subject)
				}
				if !bytes.Contains(ev.Data, []byte(id)) || (pf.blank && string(ev.Data) != id) {
					out = append(out, c03viol{"foreign-payload", fmt.Sprintf("writer %s received bytes that are not this probe: %s", ev.W, q(clip(string(ev.Data), 200)))})
					continue
				}
				got[ev.W]++
			}
		}
		cnt := func(b []byte) int {
			if !pf.blank {
				return bytes.Count(b, []byte(id))
			}
			n := 0 // blank probe: every line that is not the library's diagnostic about a failing destination counts
			for _, ln := range bytes.SplitAfter(b, []byte("\n")) {
				if len(ln) > 0 && !bytes.Contains(ln, []byte("slog print log failed")) {
					n++
				}
			}
			return n
		}
		got[wSTDOUT] = cnt(b1)
		got[wSTDERR] = cnt(b2)
		if b6 := e.fds.tail(e.file6, m6); len(b6) > 0 {
			got["W6"] = cnt(b6)
		}
		for i, b := range e.bare {
			if len(b.buf) > 0 {
				got[fmt.Sprintf("W%d", 8+i)] = cnt(b.buf)
				b.buf = b.buf[:0]
			}
		}
		rp("write_events", int64(len(evs)))
		rp("fallback_bytes", int64(len(b1)+len(b2)))
		// expected
		d := model.dest(sev)
		want := map[string]int{}
		for _, x := range d.ids {
			want[x]++
		}
		if pf.inner != nil {
			for _, x := range model.dest(*pf.inner).ids {
				want[x]++
			}
			rp("probes_whose_value_issues_a_record_of_another_severity", 1)
		}
		ids := map[string]bool{}
		for k := range got {
			ids[k] = true
		}
		for k := range want {
			ids[k] = true
		}
		var keys []string
		for k := range ids {
			keys = append(keys, k)
		}
		sort.Strings(keys)
		for _, k := range keys {
			if k == "W10" {
				continue // the closed file: what it was handed cannot be observed
			}
			g, w := got[k], want[k]
			ok := g == w
			if !ok && d.loose[k] && g >= 0 && g <= w {
				ok = true
			}
			if !ok {
				out = append(out, c03viol{"routing", fmt.Sprintf("severity %v(%d) issued by %s: writer %s received the record %d time(s), the configuration denotes %d (selected list %v; observed %v)", sev, int(sev), pf.name, k, g, w, d.ids, got)})
			}
		}
		// LevelSettable: told the severity immediately before each Write
		lastSet := map[string]*slog.Level{}
		for _, ev := range evs {
			switch ev.Kind {
			case mon.EvSetLevel:
				l := ev.Lvl
				lastSet[ev.W] = &l
			case mon.EvWrite:
				if bytes.Contains(ev.Data, []byte("slog print log failed")) {
					continue // the diagnostic record about a failing destination has its own severity
				}
				if e.lvlS[ev.W] {
					rp("levelsettable_writes", 1)
					sev := sev
					if pf.inner != nil && bytes.Contains(ev.Data, []byte("inner-"+id)) {
						sev = *pf.inner
					}
					if ls := lastSet[ev.W]; ls == nil {
						out = append(out, c03viol{"setlevel", fmt.Sprintf("severity %v (%s): LevelSettable destination %s was written to without being told the severity first", sev, pf.name, ev.W)})
					} else if *ls != sev {
						out = append(out, c03viol{"setlevel", fmt.Sprintf("severity %v (%s): LevelSettable destination %s was told %v before the Write", sev, pf.name, ev.W, *ls)})
					}
				}
			}
		}
		if len(out) > 0 {
			break
		}
	}
	return out
}

func opsString(ops []wop) string {
	var s []string
	for _, o := range ops {
		s = append(s, o.String())
	}
	return strings.Join(s, "; ")
}

func opNames(ops []wop) string {
	var s []string
	for _, o := range ops {
		s = append(s, o.name)
	}
	return strings.Join(s, ",")
}

// judge runs a sequence, shrinks a failing one greedily (drop operations while the same clause
// still fails) and reports it under the names of the remaining operations.
func (e *c03env) judge(c *Ctx, idx int, kind string, viaOpts bool, ops []wop) {
	rp := func(k string, n int64) { c.R.Add(k, n) }
	vs := e.runSeq(kind, viaOpts, ops, rp)
	c.R.NonTrivial(kind, fmt.Sprint(viaOpts), opsString(ops))
	if len(vs) == 0 {
		if c.R.WantSample() && len(ops) >= 2 {
			c.R.Sample(idx, map[string]any{"logger": kind, "via_options": viaOpts, "ops": opsString(ops), "writer_shapes": e.shape}, "all 29 probe forms (20 severities through LogAttrs, 5 through verbs and Print/Println, 4 blank-line forms) were routed as the model says after every operation")
		}
		return
	}
	clause := vs[0].clause
	cur := append([]wop(nil), ops...)
	none := func(string, int64) {}
	for changed := true; changed; {
		changed = false
		for i := range cur {
			cand := append(append([]wop(nil), cur[:i]...), cur[i+1:]...)
			v2 := e.runSeq(kind, viaOpts, cand, none)
			if len(v2) > 0 && v2[0].clause == clause {
				cur, vs, changed = cand, v2, true
				break
			}
		}
	}
	shapes := map[string]bool{}
	for _, o := range cur {
		if o.w >= 0 {
			shapes[e.shape[o.w]] = true
		}
	}
	var sh []string
	for s := range shapes {
		sh = append(sh, s)
	}
	sort.Strings(sh)
	feat := opNames(cur)
	if feat == "" {
		feat = "fresh"
	}
	if clause == "setlevel" {
		feat = "destination-never-told"
	}
	via := "methods"
	if viaOpts {
		via = "options"
	}
	c.R.Violation(idx, clause, "C03/"+clause+"/"+feat, fmt.Sprintf("%s\nlogger kind %s via %s; shrunk sequence: %s (writer shapes %v); original: %s", vs[0].detail, kind, via, opsString(cur), sh, opsString(ops)),
		map[string]any{"logger": kind, "via_options": viaOpts, "ops": opsString(cur), "original_ops": opsString(ops), "writer_shapes": e.shape})
}

func c03alphabet(full bool) []wop {
	var a []wop
	ws := []int{0, 1, 2, 6}
	lvls := []slog.Level{slog.InfoLevel, slog.ErrorLevel}
	if full {
		ws = []int{0, 1, 2, 3, 4, 5, 6, 7, 8, 9, 10, 11}
		lvls = []slog.Level{slog.InfoLevel, slog.ErrorLevel, slog.DebugLevel, slog.AlwaysLevel, slog.FailLevel, lvlCustErr, lvlCustPlain, slog.Level(88)}
	}
	for _, n := range []string{"SetWriter", "AddWriter", "RemoveWriter", "SetErrorWriter", "AddErrorWriter", "RemoveErrorWriter"} {
		for _, w := range ws {
			a = append(a, wop{name: n, w: w})
		}
	}
	lw := []int{0, 2, 6}
	if full {
		lw = ws
	}
	for _, n := range []string{"AddLevelWriter", "RemoveLevelWriter"} {
		for _, l := range lvls {
			for _, w := range lw {
				a = append(a, wop{name: n, w: w, lvl: l})
			}
		}
	}
	if full {
		a = append(a, wop{name: "AddWriter", w: 12}, wop{name: "AddErrorWriter", w: 13}, wop{name: "AddLevelWriter", w: 12, lvl: slog.InfoLevel}, wop{name: "AddWriter", w: 12})
		a = append(a, wop{name: "CloseAnotherLogger", w: 0}, wop{name: "CloseAnotherLogger", w: 1}, wop{name: "pkg.Reset", w: -1}, wop{name: "pkg.Reset", w: -1})
		for _, n := range []string{"DeriveWithWriter", "DeriveWithErrorWriter"} {
			for _, w := range []int{0, 1, 2, 3, 4} {
				a = append(a, wop{name: n, w: w})
			}
		}
	}
	for _, l := range lvls {
		a = append(a, wop{name: "ResetLevelWriter", w: -1, lvl: l})
	}
	a = append(a, wop{name: "ResetLevelWriters", w: -1}, wop{name: "ResetWriters", w: -1})
	return a
}

func allOptable(e *c03env, ops []wop) bool {
	for _, o := range ops {
		if e.asOpt(o) == nil {
			return false
		}
	}
	return true
}

// c03exhaustive: case index = index into the enumeration of all sequences up to the length bound.
func c03exhaustive(c *Ctx) {
	cfgDefault := c.To > c.From && (c.From/(c.To-c.From))%2 == 1 // every other process
	if cfgDefault {
		c.R.Add("processes_with_the_builtin_default_logger_configured", 1)
	}
	e, err := newC03env(cfgDefault)
	if err != nil {
		c.R.Violation(-1, "harness", "C03/harness", err.Error(), nil)
		return
	}
	alpha := c03alphabet(false)
	n := len(alpha)
	c.R.Max("alphabet", int64(n))
	c.Each(func(idx int, r *gen.R) {
		// decode idx -> sequence: lengths 0,1,2,3 …
		var ops []wop
		k := idx
		length, block := 0, 1
		for k >= block {
			k -= block
			block *= n
			length++
		}
		for i := 0; i < length; i++ {
			ops = append(ops, alpha[k%n])
			k /= n
		}
		kinds := []string{"root", "child"}
		for _, kind := range kinds {
			e.judge(c, idx, kind, false, ops)
			if len(ops) > 0 && allOptable(e, ops) {
				e.judge(c, idx, kind, true, ops)
			}
		}
		c.R.Max("max_sequence_length", int64(length))
	})
}

var c03savedDefault = slog.Default()

func c03random(c *Ctx) {
	c.R.Add("processes_with_the_builtin_default_logger_configured", 1)
	e, err := newC03env(true)
	if err != nil {
		c.R.Violation(-1, "harness", "C03/harness", err.Error(), nil)
		return
	}
	e.testing = c.Testing
	alpha := c03alphabet(true)
	c.Each(func(idx int, r *gen.R) {
		n := r.Range(3, 10)
		var ops []wop
		for i := 0; i < n; i++ {
			ops = append(ops, gen.Pick(r, alpha))
		}
		kind := gen.Pick(r, []string{"root", "child", "entry", "default"})
		defer slog.SetDefault(c03savedDefault)
		via := r.P(30) && allOptable(e, ops)
		e.judge(c, idx, kind, via, ops)
	})
}
