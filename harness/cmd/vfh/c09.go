package main

import (
	"bytes"
	"context"
	"errors"
	"fmt"
	"io"
	stdslog "log/slog"
	"os"
	"reflect"
	"runtime"
	"strings"
	"sync"
	"time"

	"github.com/hedzr/is"
	"github.com/hedzr/is/term/color"
	"github.com/hedzr/logg/slog"

	"verifharness/gen"
	"verifharness/mon"
)

func init() { reg("C09", "hist", c09hist) }

type ptrSpy struct{ last *string }

func (s ptrSpy) MarshalSlogObject(enc *slog.PrintCtx) error {
	*s.last = fmt.Sprintf("%p", enc)
	_, _ = enc.WriteString("7")
	return nil
}

func levelClass(l slog.Level) string {
	switch l {
	case lvlFgOnly:
		return "registered-fg-only"
	case lvlFgBg:
		return "registered-fg-bg"
	case lvlNoClr:
		return "registered-no-colour"
	case lvlUnreg:
		return "unregistered"
	}
	return "builtin"
}

// panicky panics while being formatted; the application recovers. The record is lost, later records must not care.
type panicky struct{}

func (panicky) String() string { panic("value that panics while being formatted") }

type c09probe struct {
	as         slog.Attrs // the caller's own slice, the same one for every emission of this probe
	minW, tagW int
	f          Format
	name       string
	lvl        slog.Level
	ts         time.Time
	msg        string
	kvs        []gen.KV
	spy        bool
	utc        int     // the logger's UTC mode: 0 never chosen, 1 on, 2 off (configuration of the logger, an input of the call)
	pc         uintptr // the frame the record is attributed to: one of the harness, or one inside the library's own package
}

// c09libPC is a program counter inside a function of the library: its qualified name holds the names of a code hosting
// provider AND of an organisation the application registered as one ("github.com/hedzr/logg/slog...").
var c09libPC = reflect.ValueOf(slog.RegisterLevel).Pointer() + 1

// c09funcW is a destination made of a function.
type c09funcW func(p []byte)

func (f c09funcW) Write(p []byte) (int, error) { f(p); return len(p), nil }

// c09writer hands every payload to the monitor; while reenter is set it first logs a record of its own through another
// logger (what a destination that reports metrics through the same library does). The bytes of the record it was given
// must not depend on that.
type c09writer struct {
	inner   mon.W
	nest    *slog.Entry
	reenter bool
	busy    bool
	n       int
}

func (w *c09writer) Write(p []byte) (int, error) {
	if w.reenter && !w.busy {
		w.busy = true
		w.n++
		w.nest.Info("nested record issued from inside a destination's Write", "len", len(p), "n", w.n, "pad", strings.Repeat("0123456789", 1+w.n%40))
		w.busy = false
	}
	return w.inner.Write(p)
}

// shortW accepts only a part of what it is handed, sometimes with io.ErrShortWrite, sometimes silently.
type shortW struct{ r *gen.R }

func (w shortW) Write(p []byte) (int, error) {
	n := len(p) / 3
	if w.r.Bool() {
		return n, io.ErrShortWrite
	}
	return n, nil
}

// c09verbProbe is the single call site of the verb probes (the caller field is an input of the call).
// c09valuer resolves itself when it is logged (log/slog.LogValuer); what it resolves to is what *cur holds at that time.
type c09valuer struct{ cur *int }

func (v c09valuer) LogValue() stdslog.Value { return stdslog.IntValue(*v.cur) }

func c09verbProbe(lg *slog.Entry, lvl slog.Level, msg string, args []any) {
	lg.LogAttrs(c09verbCtx, lvl, msg, args...)
}

// the context of the verb probes: the background, or one that holds values for SOME of the logger's context keys
var c09verbCtx = bg

func c09hist(c *Ctx) {
	registerCustomLevels()
	// the application has registered its organisation as a "code hosting provider" (a documented use of the table):
	// names that hold both "github.com" and "hedzr" are shortened by both rules, in whatever order
	slog.AddCodeHostingProviders("hedzr", "HZ")
	log := mon.NewLog()
	nestLog := mon.NewLog()
	nestLog.Discard = true
	nestLogger := slog.New("nested").Root()
	nestLogger.SetWriter(mon.New(nestLog, "N", mon.ShapePlain)).SetErrorWriter(mon.New(nestLog, "N", mon.ShapePlain)).SetLevel(slog.AlwaysLevel)
	w := &c09writer{inner: mon.New(log, "W", mon.ShapePlain), nest: nestLogger}
	var lastCtx string
	so := gen.StrOpt{HostilePc: 30, Long: true}
	o := gen.Options{Str: so, MaxDepth: 3}
	emit := func(p c09probe) []byte {
		if p.minW > 0 {
			slog.SetMessageMinimalWidth(p.minW)
			slog.SetLevelOutputWidth(p.tagW)
		}
		lg := newRoot(p.name, p.f, w, slog.AlwaysLevel)
		switch p.utc {
		case 1:
			lg.SetUTCMode(true)
		case 2:
			lg.SetUTCMode(false)
		}
		as := p.as
		if as == nil {
			as = attrsOf(p.kvs)
			if p.spy {
				as = append(as, slog.NewAttr("zzspy", ptrSpy{&lastCtx}))
			}
		}
		evs := capture(log, func() { lg.WriteThru(bg, p.lvl, p.ts, p.pc, p.msg, as) })
		var b []byte
		for _, e := range evs {
			b = append(b, e.Data...)
		}
		return b
	}
	genProbe := func(r *gen.R) c09probe {
		p := c09probe{f: Format(r.Intn(3)), ts: r.Time(), spy: true, minW: 36, tagW: 3, pc: thePC}
		if r.P(25) {
			p.pc = c09libPC
		}
		if r.P(8) {
			p.pc = 0 // no frame at all (what the bridge passes when it has none): the caller part is then what it is for no frame
		}
		if r.P(3) {
			p.ts = time.Time{} // the zero instant is an instant like any other: the call carries it
		}
		if r.P(25) {
			p.utc = 1 + r.Intn(2) // most loggers never choose a UTC mode; some switch it on, some off
		}
		if r.P(35) { // the presentation settings are inputs of the call too
			p.minW, p.tagW = r.Range(16, 170), r.Range(1, 5)
		}
		p.name = gen.Pick(r, []string{"", "app", "svc.db"})
		p.lvl = gen.Pick(r, colorLevels)
		rc := genTextCase(r, so, o)
		p.kvs = rc.kvs
		p.msg = r.Str(gen.StrOpt{HostilePc: 30, NoESC: true})
		if r.P(40) {
			p.msg += "\nsecond line\nthird"
			if r.P(40) {
				p.msg += gen.Pick(r, []string{"\n", "\n\n", "\r\n"})
			}
		}
		if strings.Trim(p.msg, "\n\r \t") == "" {
			p.msg = "x" + p.msg
		}
		return p
	}
	var first *c09probe
	var firstBytes []byte
	var firstFlags slog.Flags
	c.Each(func(idx int, r *gen.R) {
		restore := withFlags(0, 0)
		defer restore()
		defer slog.SetMessageMinimalWidth(36)
		defer slog.SetLevelOutputWidth(3)
		if r.Bool() {
			slog.AddFlags(slog.Lcaller)
		} else {
			slog.RemoveFlags(slog.Lcaller)
		}
		if r.Bool() {
			slog.AddFlags(slog.LattrsR)
		} else {
			slog.RemoveFlags(slog.LattrsR)
		}
		if r.Bool() {
			slog.AddFlags(slog.Lcallerpackagename)
		} else {
			slog.RemoveFlags(slog.Lcallerpackagename)
		}
		flagsNow := slog.GetFlags()
		is.SetDebugMode(false) // a history may leave the process-wide debug mode on (SetLevel(Debug) on some logger does that)
		p := genProbe(r)
		if len(p.kvs) > 0 && r.P(40) {
			// a key given twice (the later one wins), and ONE slice that the application passes again and again
			dup := p.kvs[r.Intn(len(p.kvs))]
			dup.Val = gen.V{Kind: "i64", I: 7, Go: int64(7)}
			p.kvs = append(p.kvs, dup)
			c.R.Add("probes_with_a_key_given_twice", 1)
		}
		if r.Bool() {
			p.as = attrsOf(p.kvs)
			p.as = append(p.as, slog.NewAttr("zzspy", ptrSpy{&lastCtx}))
			c.R.Add("probes_reusing_one_attribute_slice", 1)
		}
		// one of the probe's attributes may be an object the APPLICATION owns and passes to other loggers too, holding a
		// value that resolves itself when it is logged (log/slog's LogValuer: a configuration version, a gauge) - what it
		// resolved to for an EARLIER record is no part of this call
		var cfg *int
		var cfgAttr slog.Attr
		if p.as != nil && r.P(35) {
			cfg = new(int)
			cfgAttr = slog.NewAttr("zzcfg", c09valuer{cfg})
			p.as = append(p.as, cfgAttr)
			c.R.Add("probes_with_an_application_owned_attribute_that_resolves_itself", 1)
		}
		if p.as != nil && r.P(30) {
			// a value that is a map (request headers, labels): Go walks a map in a different order every time, a record
			// does not
			p.as = append(p.as, slog.NewAttr("zzmap", map[string]any{"alpha": 1, "beta": "x", "gamma": true, "delta": 2.5, "epsilon": []int{1, 2}}),
				slog.NewAttr("zzmap2", map[string]string{"k1": "v1", "k2": "v2", "k3": "v3", "k4": "v4"}))
			c.R.Add("probes_with_map_values", 1)
		}
		setCfg := func(v int) {
			if cfg != nil {
				*cfg = v
			}
		}
		setCfg(2)
		// reference: the probe formatted by a fresh context (pool flushed)
		runtime.GC()
		runtime.GC()
		ref := emit(p)
		refCtx := lastCtx
		if first == nil {
			cp := p
			first, firstBytes, firstFlags = &cp, ref, flagsNow
		}
		// several histories for the same probe
		nh := 6
		reuse := 0
		var lastClass string
		var hdesc []string
		history := func(h int) int {
			hr := gen.NewR(c.Seed, "C09h", fmt.Sprint(idx), h)
			n := hr.Range(1, 20)
			lastClass, hdesc = "", nil
			if cfg != nil {
				// (a FRESH attribute object of the application - the same key, the same self-resolving value - goes into a
				// record of ANOTHER logger while the value resolves to something else, and into the probe afterwards)
				cfgAttr = slog.NewAttr("zzcfg", c09valuer{cfg})
				for i, a := range p.as { // (the slice may have been put in key order by now)
					if a != nil && a.Key() == "zzcfg" {
						p.as[i] = cfgAttr
					}
				}
				setCfg(1)
				hl := newRoot("cfg-history", Format(hr.Intn(3)), w, slog.AlwaysLevel)
				capture(log, func() {
					hl.WriteThru(bg, slog.InfoLevel, p.ts, thePC, "a record of another logger that carries the same attribute object", slog.Attrs{cfgAttr})
				})
			}
			for i := 0; i < n; i++ {
				q := genProbe(hr)
				if hr.P(40) {
					q.f = p.f // same format, other level: the colour state is the interesting leak
				}
				if hr.P(30) {
					q.lvl = gen.Pick(hr, []slog.Level{slog.TraceLevel, slog.FailLevel, lvlFgBg, slog.AlwaysLevel}) // levels with background colours
				}
				if hr.P(10) {
					runtime.GC()
				}
				if hr.P(5) {
					// some OTHER logger is put at Debug level (and logs): that switches the sticky process-wide debug mode
					// on, which is not an input of anybody's record in a process that was not started in debug mode
					dl := newRoot("dbg", q.f, w, slog.DebugLevel)
					capture(log, func() { dl.Debug("a debug record of another logger", "k", 1) })
					c.R.Add("histories_that_put_another_logger_at_debug_level", 1)
				}
				// the global flags are inputs of a call: records of the history may be formatted under other
				// flags (caller, privacy paths, date/time); the probe's flags are restored before the probe
				if hr.P(25) {
					for _, fl := range []slog.Flags{slog.Lcaller, slog.Lprivacypath, slog.Lprivacypathregexp, slog.Ldate, slog.Lmicroseconds, slog.LlocalTime, slog.Lcallerpackagename} {
						if hr.Bool() {
							slog.AddFlags(fl)
						} else {
							slog.RemoveFlags(fl)
						}
					}
					c.R.Add("history_records_under_other_flags", 1)
				}
				if hr.P(10) {
					// records whose attributes use the names the envelope uses, as the last (and only) keys
					hl := newRoot("h", q.f, w, slog.AlwaysLevel)
					k := gen.Pick(hr, []string{"time", "level", "msg", "caller", "logger", "error", "err"})
					var v any = q.ts
					if k != "time" && hr.Bool() {
						v = gen.Pick(hr, []any{"x", 1, errors.New("e"), slog.InfoLevel})
					}
					capture(log, func() {
						hl.WriteThru(bg, slog.InfoLevel, q.ts, thePC, "reserved key", slog.Attrs{slog.NewAttr("a", 1), slog.NewAttr(k, v)})
					})
					capture(log, func() { hl.Info("reserved key", k, v) })
					c.R.Add("history_records_with_an_envelope_name_as_last_key", 1)
				}
				if hr.P(8) {
					// a destination that takes only part of the payload (with or without reporting it)
					hl := newRoot("short", q.f, shortW{r: hr}, slog.AlwaysLevel)
					hl.SetErrorWriter(shortW{r: hr})
					func() {
						defer func() { _ = recover() }()
						hl.Info("a record to a destination that takes part of it", "k", strings.Repeat("v", 300))
						hl.Warn("and a warning", "k", 1)
					}()
					c.R.Add("history_records_to_a_short_writing_destination", 1)
				}
				if hr.P(8) {
					// a record whose value panics while being formatted (recovered by the caller)
					func() {
						defer func() { _ = recover() }()
						lgp := newRoot("p", q.f, w, slog.AlwaysLevel)
						lgp.WriteThru(bg, q.lvl, q.ts, thePC, "doomed", slog.Attrs{slog.NewAttr("req", slog.NewGroupedAttrEasy("inner", "user", panicky{}))})
					}()
					func() {
						defer func() { _ = recover() }()
						lgp := newRoot("p", q.f, w, slog.AlwaysLevel)
						lgp.WriteThru(bg, q.lvl, q.ts, thePC, "doomed", slog.Attrs{slog.NewGroupedAttrEasy("grp", "user", panicky{})})
					}()
					c.R.Add("history_records_with_a_panicking_value", 1)
				}
				w.reenter = hr.P(20)
				if w.reenter {
					setFormat(nestLogger, Format(hr.Intn(3)))
					c.R.Add("history_records_to_a_destination_that_logs_itself", 1)
				}
				if hr.P(25) {
					// through a verb, with call arguments (WriteThru takes its attributes as they are)
					hl := newRoot("h", q.f, w, slog.AlwaysLevel)
					hl.Set("hz", 1, "ha", "x")
					lv := q.lvl
					if lv == slog.PanicLevel || lv == slog.FatalLevel {
						lv = slog.ErrorLevel
					}
					capture(log, func() { hl.LogAttrs(bg, lv, q.msg, anyAttrs(q.kvs)...) })
					c.R.Add("history_records_through_a_verb_with_arguments", 1)
				} else if hr.P(15) {
					var wg sync.WaitGroup
					wg.Add(1)
					go func() { defer wg.Done(); emit(q) }()
					wg.Wait()
				} else {
					emit(q)
				}
				w.reenter = false
				lastClass = fmt.Sprintf("%s/%s", q.f, levelClass(q.lvl))
				if len(hdesc) < 20 {
					hdesc = append(hdesc, fmt.Sprintf("%s:%v:%dattrs", q.f, q.lvl, len(q.kvs)))
				}
			}
			if hr.P(15) {
				// ... and the record right before the probe may be one that its destination took only in part
				hl := newRoot("short", Format(hr.Intn(3)), shortW{r: hr}, slog.AlwaysLevel)
				hl.SetErrorWriter(shortW{r: hr})
				func() {
					defer func() { _ = recover() }()
					hl.Info("the last record before the probe, taken in part by its destination", "k", strings.Repeat("v", hr.Range(1, 400)))
				}()
				c.R.Add("probes_right_after_a_partly_written_record", 1)
			}
			slog.SetFlags(flagsNow)
			setCfg(2)
			return n
		}
		// the probe issued from INSIDE the warning destination of another logger whose own destination has just failed
		// (a destination that forwards what it is handed through the library): the flags are what they are
		if r.P(15) {
			var inner []byte
			fwd := c09funcW(func([]byte) { inner = emit(p) })
			hl := newRoot("failing", Format(r.Intn(3)), shortW{r: gen.NewR(c.Seed, "C09f", fmt.Sprint(idx), 0)}, slog.AlwaysLevel)
			hl.SetErrorWriter(fwd)
			func() {
				defer func() { _ = recover() }()
				hl.Info("a record whose destination fails", "k", strings.Repeat("v", 200))
			}()
			slog.SetFlags(flagsNow)
			if inner != nil {
				c.R.Add("probes_issued_from_inside_a_warning_destination", 1)
				if !bytes.Equal(inner, ref) {
					c.R.Violation(idx, "bytes-differ", "C09/bytes-differ/inside-a-warning-destination/"+p.f.String(),
						fmt.Sprintf("the same WriteThru call issued from inside the warning destination of a logger whose own destination had just failed produced different bytes:\n fresh context: %s\n inside:        %s", q(clip(string(ref), 400)), q(clip(string(inner), 400))),
						map[string]any{"format": p.f.String(), "caller_flag": slog.IsAnyBitsSet(slog.Lcaller)})
					return
				}
			}
		}
		for h := 0; h < nh; h++ {
			n := history(h)
			histCtx := lastCtx
			// the destination may log a record of its own before it consumes the probe's payload
			w.reenter = h%3 == 2
			got := emit(p)
			w.reenter = false
			c.R.Add("probe_executions", 1)
			if lastCtx == histCtx {
				reuse++
				c.R.Add("reuse_of_pooled_context_confirmed", 1)
				if lastClass != fmt.Sprintf("%s/%s", p.f, levelClass(p.lvl)) {
					c.R.Add("reuse_after_a_different_class_of_record", 1)
				}
			}
			_ = refCtx
			if !bytes.Equal(got, ref) {
				desc := map[string]any{"probe": map[string]any{"format": p.f.String(), "logger": p.name, "level": p.lvl.String(), "level_class": levelClass(p.lvl), "ts": p.ts.Format(time.RFC3339Nano), "msg": q(clip(p.msg, 200)), "attrs": gen.DescKVs(p.kvs)}, "history": hdesc, "caller_flag": slog.IsAnyBitsSet(slog.Lcaller)}
				at := 0
				for at < len(got) && at < len(ref) && got[at] == ref[at] {
					at++
				}
				lo := at - 40
				if lo < 0 {
					lo = 0
				}
				c.R.Violation(idx, "bytes-differ", "C09/bytes-differ/"+p.f.String()+"/"+levelClass(p.lvl),
					fmt.Sprintf("the same WriteThru call produced different bytes after a history of %d other records (first difference at byte %d):\n fresh context: …%s\n after history: …%s", n, at, q(clip(string(ref[lo:]), 300)), q(clip(string(got[lo:]), 300))), desc)
				return
			}
		}
		// verb probes: ONE logger object that owns attributes (or inherits them), a constant timestamp layout, the same
		// call issued right after creation and again after each history - with and without call arguments
		{
			vr := gen.NewR(c.Seed, "C09v", fmt.Sprint(idx), 0)
			var lgv, par *slog.Entry
			kind := "root"
			if vr.P(30) {
				kind = "child"
				par = newRoot("par", p.f, w, slog.AlwaysLevel)
				par.Set("pz", 1, "pa", "x", "zeta", "parent's", "alpha", "parent's") // zeta / alpha may be redefined by the child
				par.SetTimeFormat("TS")
				lgv = par.New("kid")
				lgv.SetWriter(w).SetErrorWriter(w)
				setFormat(lgv, p.f)
				lgv.SetLevel(slog.AlwaysLevel)
			} else {
				lgv = newRoot(p.name, p.f, w, slog.AlwaysLevel)
			}
			c09verbCtx = bg
			if vr.P(40) {
				// registered context keys of which the call's context holds only some (or none)
				lgv.SetContextKeys("rid", ctxKeyT{"uid"}, "tenant", "zz-last")
				switch vr.Intn(3) {
				case 0:
					c09verbCtx = context.WithValue(bg, "rid", "r-1") //nolint:staticcheck // string keys are what the library documents
				case 1:
					c09verbCtx = context.WithValue(context.WithValue(bg, ctxKeyT{"uid"}, "u-1"), "zz-last", 9) //nolint:staticcheck
				}
				c.R.Add("verb_probes_on_a_logger_with_context_keys", 1)
			}
			defer func() { c09verbCtx = bg }()
			lgv.SetTimeFormat("TS") // a layout without any time element: the timestamp is constant text
			half := len(p.kvs) / 2
			if own := attrsOf(p.kvs[:half]); len(own) > 0 {
				lgv.SetAttrs(own...)
			}
			if vr.P(40) {
				lgv.Set("zeta", 1, "alpha", "A", "zeta", 2)
			}
			var args []any
			if vr.Bool() {
				args = anyAttrs(p.kvs[half:])
			}
			lv := p.lvl
			if lv == slog.PanicLevel || lv == slog.FatalLevel {
				lv = slog.WarnLevel
			}
			if normalSev := lv == slog.InfoLevel || lv == slog.DebugLevel || lv == slog.TraceLevel || lv == slog.AlwaysLevel || lv == slog.OKLevel || lv == slog.SuccessLevel; kind == "root" && normalSev && vr.P(50) {
				// the logger's first normal destination is a log file made by NewFileWriter that the application has closed
				// (rotated away); the recording destination stands behind it (what the library reports about the file goes to
				// an error device that discards): every record reaches the recording destination the same way
				if d, err := os.MkdirTemp("", "c09-closed-*"); err == nil {
					cf := slog.NewFileWriter(d + "/app.log")
					lgv.SetWriter(cf).AddWriter(w)
					lgv.SetErrorWriter(io.Discard)
					_ = cf.Close()
					defer os.RemoveAll(d)
					c.R.Add("verb_probes_behind_a_closed_NewFileWriter_file", 1)
				}
			}
			emitV := func() []byte {
				slog.SetMessageMinimalWidth(p.minW) // the presentation settings are inputs of the call
				slog.SetLevelOutputWidth(p.tagW)
				evs := capture(log, func() { c09verbProbe(lgv, lv, p.msg, args) })
				var b []byte
				for _, e := range evs {
					b = append(b, e.Data...)
				}
				return b
			}
			// the parent's own record, before the child has ever logged and after: what a child prints (and overrides)
			// is not an input of the parent's record
			emitP := func() []byte {
				slog.SetMessageMinimalWidth(p.minW)
				slog.SetLevelOutputWidth(p.tagW)
				evs := capture(log, func() { c09verbProbe(par, lv, p.msg, nil) })
				var b []byte
				for _, e := range evs {
					b = append(b, e.Data...)
				}
				return b
			}
			runtime.GC()
			var refP []byte
			if par != nil {
				refP = emitP()
			}
			refV := emitV()
			for h := 0; h < 3; h++ {
				n := history(100 + h)
				w.reenter = h == 2
				got := emitV()
				w.reenter = false
				c.R.Add("verb_probe_executions", 1)
				if len(args) == 0 {
					c.R.Add("verb_probes_without_call_arguments", 1)
				}
				if !bytes.Equal(got, refV) {
					at := 0
					for at < len(got) && at < len(refV) && got[at] == refV[at] {
						at++
					}
					lo := at - 40
					if lo < 0 {
						lo = 0
					}
					desc := map[string]any{"probe": map[string]any{"format": p.f.String(), "logger": kind, "level": lv.String(), "msg": q(clip(p.msg, 200)), "own_attrs": gen.DescKVs(p.kvs[:half]), "call_args": len(args)}, "history": hdesc, "flags": int64(flagsNow)}
					c.R.Violation(idx, "bytes-differ", "C09/bytes-differ/same-logger/"+p.f.String(),
						fmt.Sprintf("the same call on the same logger (own attributes, constant timestamp layout) produced different bytes after a history of %d other records (first difference at byte %d):\n first record: …%s\n after history: …%s", n, at, q(clip(string(refV[lo:]), 300)), q(clip(string(got[lo:]), 300))), desc)
					return
				}
			}
			if par != nil {
				c.R.Add("parent_probe_executions", 1)
				if got := emitP(); !bytes.Equal(got, refP) {
					at := 0
					for at < len(got) && at < len(refP) && got[at] == refP[at] {
						at++
					}
					lo := at - 40
					if lo < 0 {
						lo = 0
					}
					c.R.Violation(idx, "bytes-differ", "C09/bytes-differ/parent-after-child/"+p.f.String(),
						fmt.Sprintf("the parent's record differs after its child (which redefines some of the parent's keys) has logged (first difference at byte %d):\n before: …%s\n after:  …%s", at, q(clip(string(refP[lo:]), 300)), q(clip(string(got[lo:]), 300))),
						map[string]any{"format": p.f.String(), "flags": int64(flagsNow), "child_own_attrs": gen.DescKVs(p.kvs[:half])})
					return
				}
			}
		}
		// handler probes: a log/slog handler derived step by step; the same record through the same handler before and
		// after a younger sibling was derived from the same parent handler (and used) and a history of other records
		if r.P(25) {
			hrr := gen.NewR(c.Seed, "C09s", fmt.Sprint(idx), 0)
			lgH := newRoot("front", p.f, w, slog.AlwaysLevel)
			lgH.SetTimeFormat("TS")
			var h stdslog.Handler = slog.NewSlogHandler(lgH, &slog.HandlerOptions{NoColor: p.f != FColor, JSON: p.f == FJSON, NoSource: true, Level: slog.PanicLevel})
			steps := gen.Pick(hrr, []int{0, 1, 2, 3, 4, 5, 6, 7, 9, 11})
			for i := 0; i < steps; i++ {
				h = h.WithAttrs([]stdslog.Attr{stdslog.Int(fmt.Sprintf("h%d", i), i)})
			}
			older := h.WithAttrs([]stdslog.Attr{stdslog.String("user", "alice")})
			rec := stdslog.NewRecord(p.ts, stdslog.LevelInfo, "front-end probe", 0)
			rec.AddAttrs(stdslog.Int("n", 1))
			emitH := func(hd stdslog.Handler) []byte {
				slog.SetMessageMinimalWidth(p.minW)
				slog.SetLevelOutputWidth(p.tagW)
				evs := capture(log, func() { _ = hd.Handle(bg, rec) })
				var b []byte
				for _, e := range evs {
					b = append(b, e.Data...)
				}
				return b
			}
			refH := emitH(older)
			younger := h.WithAttrs([]stdslog.Attr{stdslog.String("user", "bob")})
			_ = emitH(younger)
			n := history(200)
			slog.RemoveFlags(slog.Lcaller)
			got := emitH(older)
			slog.SetFlags(flagsNow)
			c.R.Add("handler_probe_executions", 1)
			c.R.Max("handler_probe_derivation_steps", int64(steps+1))
			if !bytes.Equal(got, refH) {
				c.R.Violation(idx, "bytes-differ", "C09/bytes-differ/derived-handler/"+p.f.String(),
					fmt.Sprintf("the same record through the same derived log/slog handler (%d derivation steps) differs after a younger sibling was derived from its parent and %d other records were logged:\n before: %s\n after:  %s", steps+1, n, q(clip(string(refH), 400)), q(clip(string(got), 400))),
					map[string]any{"format": p.f.String(), "derivation_steps": steps + 1, "history": hdesc})
				return
			}
		}
		// a severity that was logged BEFORE it was registered, next to one that was not: registered with titles that
		// share their first five characters (so that their derived tags are equal) and the same colours, they print alike
		if p.f == FColor && r.P(12) {
			la, lb := slog.Level(7000+idx*2), slog.Level(7001+idx*2)
			pre := p
			pre.lvl, pre.as = la, nil
			emit(pre) // unregistered: tag L#7…
			ta, tb := fmt.Sprintf("audit%da", idx), fmt.Sprintf("audit%db", idx)
			errA := slog.RegisterLevel(la, ta, slog.RegWithColor(color.FgLightGreen))
			errB := slog.RegisterLevel(lb, tb, slog.RegWithColor(color.FgLightGreen))
			if errA == nil && errB == nil {
				pa, pb := p, p
				pa.lvl, pa.as = la, nil
				pb.lvl, pb.as = lb, nil
				ba, bb := emit(pa), emit(pb)
				c.R.Add("severities_logged_before_their_registration", 1)
				if !bytes.Equal(ba, bb) {
					c.R.Violation(idx, "bytes-differ", "C09/bytes-differ/logged-before-registration/color",
						fmt.Sprintf("two severities registered alike (titles %q / %q, same colours) print differently; the first one had been logged once before it was registered:\n logged before: %s\n never logged:  %s", ta, tb, q(clip(string(ba), 200)), q(clip(string(bb), 200))), nil)
					return
				}
			}
		}
		c.R.Distinct("probe_classes", p.f.String()+"/"+levelClass(p.lvl))
		c.R.NonTrivial(string(ref), reuse > 0)
		if c.R.WantSample() {
			c.R.Sample(idx, map[string]any{"format": p.f.String(), "level": p.lvl.String(), "level_class": levelClass(p.lvl), "attrs": len(p.kvs), "histories": nh}, map[string]any{"bytes": string(clipB(ref, 300)), "histories_with_confirmed_context_reuse": reuse})
		}
	})
	// the very first probe of this process, repeated after everything else
	if first != nil && c.Only < 0 {
		saved := slog.GetFlags()
		slog.SetFlags(firstFlags)
		again := emit(*first)
		slog.SetFlags(saved)
		c.R.Add("probe_executions", 1)
		if !bytes.Equal(again, firstBytes) {
			c.R.Violation(c.From, "bytes-differ", "C09/bytes-differ/first-vs-last/"+first.f.String(), fmt.Sprintf("the first record of the process, repeated after all other cases of this child, differs:\n first: %s\n again: %s", q(clip(string(firstBytes), 300)), q(clip(string(again), 300))), nil)
		}
	}
}

func clipB(b []byte, n int) []byte {
	if len(b) > n {
		return b[:n]
	}
	return b
}
