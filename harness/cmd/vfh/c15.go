package main

import (
	"math"
	"bytes"
	"context"
	"encoding/json"
	"errors"
	"fmt"
	stdslog "log/slog"
	"os"
	"strings"
	"sync"
	"time"

	"github.com/hedzr/is"
	"github.com/hedzr/logg/slog"

	"verifharness/gen"
	"verifharness/match"
	"verifharness/mon"
	"verifharness/oracle"
)

func init() {
	reg("C15", "handler", c15handler)
	reg("C15", "bridge", c15bridge)
	reg("C15", "levelsweep", c15levelsweep)
	reg("C15", "conc", c15concurrent)
}

// c15decorated is what an application writes to add methods of its own to a logger.
type c15decorated struct{ slog.Logger }

type valuer struct{ v stdslog.Value }

func (v valuer) LogValue() stdslog.Value { return v.v }

// c15attr builds a log/slog attribute of a random kind and the expectation for the decoders.
func c15attr(r *gen.R, key string, depth int) (stdslog.Attr, gen.KV) {
	so := gen.StrOpt{HostilePc: 35}
	o := gen.Options{Str: so}
	mk := func(kind string) gen.V { return r.Scalar(kind, o) }
	switch x := r.Intn(15); {
	case x == 0:
		v := mk("str")
		return stdslog.String(key, v.Text), gen.KV{Key: key, Val: v}
	case x == 1:
		v := mk("i64")
		return stdslog.Int64(key, v.I), gen.KV{Key: key, Val: v}
	case x == 2:
		v := mk("u64")
		return stdslog.Uint64(key, v.U), gen.KV{Key: key, Val: v}
	case x == 3:
		v := mk("f64")
		return stdslog.Float64(key, v.F), gen.KV{Key: key, Val: v}
	case x == 4:
		v := mk("bool")
		return stdslog.Bool(key, v.B), gen.KV{Key: key, Val: v}
	case x == 5:
		v := mk("time")
		// log/slog drops the monotonic clock reading and keeps the location
		return stdslog.Time(key, v.T), gen.KV{Key: key, Val: v}
	case x == 6:
		v := mk("dur")
		return stdslog.Duration(key, v.D), gen.KV{Key: key, Val: v}
	case x == 7:
		v := mk("err")
		return stdslog.Any(key, v.Go), gen.KV{Key: key, Val: v}
	case x == 8:
		v := r.Fallback("struct", o)
		return stdslog.Any(key, v.Go), gen.KV{Key: key, Val: v}
	case x == 9:
		return stdslog.Any(key, nil), gen.KV{Key: key, Val: gen.V{Kind: "nil"}}
	case x == 10: // Any(int8) etc. are normalised by log/slog to Int64 / Uint64 / Float64
		v := mk("i64")
		v.I = int64(int8(v.I))
		return stdslog.Any(key, int8(v.I)), gen.KV{Key: key, Val: v}
	case x == 11:
		v := mk("str")
		return stdslog.Any(key, valuer{stdslog.StringValue(v.Text)}), gen.KV{Key: key, Val: v}
	case x == 12 && depth < 3 && r.Bool():
		// a LogValuer (or a chain of two) that resolves to a GROUP - the example of the log/slog documentation
		a, kv := c15attr(r, "in", 3)
		b, kv2 := c15attr(r, "n", 3)
		gv := stdslog.GroupValue(a, b)
		var lv stdslog.LogValuer = valuer{gv}
		if r.Bool() {
			lv = valuer{stdslog.AnyValue(lv)}
		}
		return stdslog.Any(key, lv), gen.KV{Key: key, Val: gen.V{Kind: "group", Items: []gen.KV{kv, kv2}}}
	case x == 12:
		v := r.Slice("strs", gen.Options{Str: so, NoSpaceInSliceStrings: true})
		return stdslog.Any(key, v.Go), gen.KV{Key: key, Val: v}
	case depth < 3:
		n := r.Range(1, 3)
		var as []any
		g := gen.V{Kind: "group"}
		for i := 0; i < n; i++ {
			mk := fmt.Sprintf("%sm%d", key, i)
			if r.P(12) {
				mk = key + "." + fmt.Sprintf("m%d", i) // a member whose own key starts with the group's path and a dot
			}
			if i == n-1 && r.P(12) {
				// a group member named like an envelope field, holding an instant: inside a group it is an attribute like any other
				v := mk0(r, "time")
				as = append(as, stdslog.Time("time", v.T))
				g.Items = append(g.Items, gen.KV{Key: "time", Val: v})
				continue
			}
			a, kv := c15attr(r, mk, depth+1)
			as = append(as, a)
			g.Items = append(g.Items, kv)
		}
		return stdslog.Group(key, as...), gen.KV{Key: key, Val: g}
	}
	v := mk("i64")
	return stdslog.Int64(key, v.I), gen.KV{Key: key, Val: v}
}

func mk0(r *gen.R, kind string) gen.V { return r.Scalar(kind, gen.Options{Str: gen.StrOpt{HostilePc: 35}}) }

var stdNames = map[stdslog.Level]slog.Level{stdslog.LevelDebug: slog.DebugLevel, stdslog.LevelInfo: slog.InfoLevel, stdslog.LevelWarn: slog.WarnLevel, stdslog.LevelError: slog.ErrorLevel}

func c15handler(c *Ctx) {
	log := mon.NewLog()
	w := mon.New(log, "W", mon.ShapePlain)
	decoy := mon.New(log, "DECOY", mon.ShapePlain)
	fds, err := captureFds()
	if err != nil {
		c.R.Violation(-1, "harness", "C15/harness", err.Error(), nil)
		return
	}
	slog.AddFlags(slog.LnoInterrupt)
	gen.ExtremeTimes = true // instants in years outside 0..9999 travel through log/slog as time.Time values
	c.Each(func(idx int, r *gen.R) {
		restore := withFlags(0, 0)
		defer restore()
		is.SetDebugMode(false)
		name := gen.Pick(r, []string{"c15", "svc"})
		lgL := slog.New(name)
		lg := lgL.Root()
		lg.SetWriter(w).SetErrorWriter(w)
		if idx%7 == 3 || idx%7 == 5 {
			// a sick destination IN FRONT of the healthy one, in both classes: it takes half of every payload, either
			// silently (short count, no error) or with an error. The healthy destination gets its record all the same.
			sick := mon.New(log, "SICK", mon.ShapePlain)
			withErr := idx%7 == 5
			sick.Core().Fail = func(att int, p []byte) (bool, int) { return withErr, len(p) / 2 }
			lg.SetWriter(sick).SetErrorWriter(sick)
			lg.AddWriter(w).AddErrorWriter(w)
			c.R.Add("underlying_loggers_with_a_sick_destination_in_front", 1)
		}
		if r.P(15) {
			// per-level writers that the application added to the underlying logger and removed again
			for _, lv := range []slog.Level{slog.DebugLevel, slog.InfoLevel, slog.WarnLevel, slog.ErrorLevel} {
				lg.AddLevelWriter(lv, decoy)
				lg.RemoveLevelWriter(lv, decoy)
			}
			c.R.Add("underlying_loggers_whose_level_writers_were_added_and_removed", 1)
		}
		opt := &slog.HandlerOptions{NoColor: r.Bool(), NoSource: r.Bool(), JSON: r.Bool(), Level: gen.Pick(r, []slog.Level{slog.PanicLevel /* = leave */, slog.ErrorLevel, slog.WarnLevel, slog.InfoLevel, slog.DebugLevel, slog.TraceLevel})}
		preLevel := gen.Pick(r, []slog.Level{slog.ErrorLevel, slog.WarnLevel, slog.InfoLevel, slog.DebugLevel, slog.AlwaysLevel})
		lg.SetLevel(preLevel)
		is.SetDebugMode(false)
		var under slog.Logger = lgL
		switch r.Intn(5) {
		case 0, 1:
			under = lg
		case 2:
			// an application type that embeds a Logger (a decorating logger): the handler is a handler on that logger
			under = c15decorated{lgL}
			c.R.Add("handlers_on_a_decorating_logger_type", 1)
		}
		h := slog.NewSlogHandler(under, opt)
		is.SetDebugMode(false)
		f := FColor
		if opt.JSON {
			f = FJSON
		} else if opt.NoColor {
			f = FLogfmt
		}
		L := preLevel
		if opt.Level != slog.PanicLevel {
			L = opt.Level
		}
		if lg.Level() != L || lg.JSONMode() != (f == FJSON) || lg.ColorMode() != (f == FColor) {
			c.R.Violation(idx, "options", "C15/options/applied", fmt.Sprintf("NewSlogHandler(%+v): logger level %v json %v color %v, expected level %v format %v", *opt, lg.Level(), lg.JSONMode(), lg.ColorMode(), L, f), nil)
			return
		}
		caller := !opt.NoSource
		// derivation chain
		type layer struct {
			group string
			kvs   []gen.KV
		}
		var chain []layer
		cur := h
		var cdesc []string
		// JSON handlers: now and then a key or group name that holds a control character (TAB, LF, ESC, 0x01) and nothing
		// else that needs escaping - JSON has a spelling for every key (the text formats keep identifier-like keys)
		kx := func(base string) string {
			if opt.JSON && r.P(10) {
				c.R.Add("json_keys_with_a_control_character", 1)
				return base + gen.Pick(r, []string{"\tx", "\nx", "\x1b[1m", "\x01", "\r", "\x7f\x00"})
			}
			return base
		}
		nDer := r.Intn(9) // chains up to 8 steps: slice growth of the derivation list happens at 1, 2, 4, 8
		if r.P(30) {
			nDer = 0
		}
		kc := 0
		collisions := 0
		// keys of scalar attributes given by WithAttrs since the last WithGroup (the level later attributes join)
		sameLevelScalarKeys := func() []string {
			var out []string
			for i := len(chain) - 1; i >= 0 && chain[i].group == ""; i-- {
				for _, kv := range chain[i].kvs {
					if kv.Val.Kind != "group" {
						out = append(out, kv.Key)
					}
				}
			}
			return out
		}
		for i := 0; i < nDer; i++ {
			if r.P(40) {
				g := kx(fmt.Sprintf("grp%d", i))
				cur = cur.WithGroup(g)
				chain = append(chain, layer{group: g})
				cdesc = append(cdesc, "WithGroup("+g+")")
			} else {
				n := r.Range(1, 3)
				var as []stdslog.Attr
				var kvs []gen.KV
				for j := 0; j < n; j++ {
					kc++
					key := kx(fmt.Sprintf("d%d~", kc))
					depth := 1
					// now and then a key that an earlier WithAttrs at the same nesting level already used (scalars only):
					// every key is printed once, the later one wins
					if k := sameLevelScalarKeys(); len(k) > 0 && r.P(12) {
						key, depth = gen.Pick(r, k), 3
						collisions++
					}
					a, kv := c15attr(r, key, depth)
					as = append(as, a)
					kvs = append(kvs, kv)
				}
				if r.P(15) {
					// a group without members among them (only a derivation can hand one to a handler: records drop them):
					// it contributes nothing, the attributes around it are printed as always
					kc++
					eg := stdslog.Group(fmt.Sprintf("d%d~", kc))
					pos := r.Intn(len(as) + 1)
					as = append(as[:pos:pos], append([]stdslog.Attr{eg}, as[pos:]...)...)
					// (JSON may show it as an empty object; the text formats have nothing to show)
					kvs = append(kvs, gen.KV{Key: fmt.Sprintf("d%d~", kc), Val: gen.V{Kind: "group", Text: "given-to-a-derivation"}})
					c.R.Add("derivations_with_an_empty_group", 1)
				}
				cur = cur.WithAttrs(as)
				chain = append(chain, layer{kvs: kvs})
				cdesc = append(cdesc, fmt.Sprintf("WithAttrs(%d)", n))
			}
		}
		// siblings: two handlers derived from the same parent; the record goes through the FIRST one after
		// the second was derived (they must not share a slot of the derivation list)
		if nDer > 0 && r.P(40) {
			kc++
			a1, kv1 := c15attr(r, fmt.Sprintf("sibA%d~", kc), 3)
			a2, _ := c15attr(r, fmt.Sprintf("sibB%d~", kc), 3)
			first := cur.WithAttrs([]stdslog.Attr{a1})
			_ = cur.WithAttrs([]stdslog.Attr{a2}) // the later sibling
			cur = first
			chain = append(chain, layer{kvs: []gen.KV{kv1}})
			cdesc = append(cdesc, "WithAttrs(1) [first of two siblings]")
			c.R.Add("sibling_derivations", 1)
		}
		tail := len(chain) > 0 && chain[len(chain)-1].group != ""
		// the record
		nrec := r.Intn(6)
		if (tail && r.P(65)) || (r.P(50) && nDer > 0) {
			nrec = r.Range(1, 5)
		} else if tail {
			// a record WITHOUT attributes through a handler whose last step opened a group: the group stays empty (and is
			// omitted), everything the earlier steps gave is printed as always
			nrec = 0
			c.R.Add("records_without_attributes_through_a_handler_that_ends_in_WithGroup", 1)
		}
		var recAttrs []stdslog.Attr
		var recKVs []gen.KV
		for j := 0; j < nrec; j++ {
			key, depth := kx(fmt.Sprintf("r%d~", j)), 0
			// a record attribute under a key that the handler's own attributes (same level) already carry: the record's wins
			if k := sameLevelScalarKeys(); len(k) > 0 && r.P(15) {
				key, depth = gen.Pick(r, k), 3
				dup := false
				for _, kv := range recKVs {
					dup = dup || kv.Key == key
				}
				if dup {
					key, depth = fmt.Sprintf("r%d~", j), 0
				} else {
					collisions++
				}
			}
			a, kv := c15attr(r, key, depth)
			recAttrs = append(recAttrs, a)
			recKVs = append(recKVs, kv)
		}
		if collisions > 0 {
			c.R.Add("records_with_a_key_given_twice", 1)
		}
		// two attributes whose keys differ in the case of their letters only: two attributes
		if nrec >= 1 && r.P(12) {
			a1, kv1 := c15attr(r, fmt.Sprintf("Kv%d~", kc), 3)
			a2, kv2 := c15attr(r, fmt.Sprintf("kv%d~", kc), 3)
			recAttrs = append(recAttrs, a1, a2)
			recKVs = append(recKVs, kv1, kv2)
			c.R.Add("records_with_two_keys_that_differ_in_letter_case", 1)
		}
		// (JSON) an attribute whose key is EMPTY and whose value is not: an attribute like any other (only the zero Attr is
		// one that log/slog asks handlers to ignore)
		emptyKeyUsed := false
		if opt.JSON && r.P(10) {
			emptyKeyUsed = true
			recAttrs = append(recAttrs, stdslog.String("", "value-under-the-empty-key"))
			recKVs = append(recKVs, gen.KV{Key: "", Val: gen.V{Kind: "str", Text: "value-under-the-empty-key", Go: "value-under-the-empty-key"}})
			c.R.Add("records_with_a_value_under_the_empty_key", 1)
		}
		// a zero Attr among the record's attributes (log/slog asks handlers to ignore it): whatever the adapter does with
		// it, the attributes after it belong to the record. JSON only: an empty key has no logfmt / colored spelling.
		emptyAt := -1
		if opt.JSON && nrec >= 1 && !emptyKeyUsed && r.P(12) {
			emptyAt = r.Intn(nrec)
			recAttrs = append(recAttrs[:emptyAt:emptyAt], append([]stdslog.Attr{{}}, recAttrs[emptyAt:]...)...)
			c.R.Add("records_with_a_zero_attr", 1)
		}
		// expected tree: later attributes nest under the open groups
		exp := recKVs
		for i := len(chain) - 1; i >= 0; i-- {
			if chain[i].group != "" {
				exp = []gen.KV{{Key: chain[i].group, Val: gen.V{Kind: "group", Items: exp}}}
			} else {
				exp = lastWins(append(append([]gen.KV(nil), chain[i].kvs...), exp...))
			}
		}
		exp = pruneEmptyGroups(exp)
		std := gen.Pick(r, []stdslog.Level{stdslog.LevelDebug, stdslog.LevelInfo, stdslog.LevelWarn, stdslog.LevelError})
		oddLevel := r.P(15) // any level value: content, time and single emission still hold; the severity name is unspecified
		if oddLevel {
			std = stdslog.Level(r.Range(-12, 20))
			if _, ok := stdNames[std]; ok {
				oddLevel = false
			}
		}
		ts := r.Time()
		if r.P(3) {
			ts = time.Time{} // a hand-built record may carry the zero instant: it is the record's own time like any other
			c.R.Add("records_with_the_zero_instant", 1)
		}
		msg := "h" + r.Str(gen.StrOpt{HostilePc: 30, NoESC: true, NoMarkup: true, NoCtl: f == FColor, ValidUTF8: f == FColor})
		if f == FColor {
			msg = "h" + r.SimpleKey("") + gen.Pick(r, []string{"", "-msg", "_x", ".y"})
			msg = strings.ReplaceAll(msg, " ", "_")
			if len(msg) > 30 {
				msg = msg[:30]
				msg = strings.ToValidUTF8(msg, "")
			}
		}
		rec := stdslog.NewRecord(ts, std, msg, 0)
		rec.AddAttrs(recAttrs...)
		desc := map[string]any{"options": fmt.Sprintf("%+v", *opt), "format": f.String(), "logger_level": L.String(), "derivation": cdesc, "record_level": std.String(), "msg": q(msg), "ts": ts.Format(time.RFC3339Nano), "expected_attrs": gen.DescKVs(exp), "keys_given_twice": collisions, "zero_attr_at": emptyAt}
		derived := "base"
		if nDer > 0 {
			derived = "derived"
		}
		// Enabled agrees with the underlying logger's gate, also for the derived handler
		for sl, nat := range stdNames {
			want := lg.Enabled(nat)
			if got := cur.Enabled(bg, sl); got != want {
				c.R.Violation(idx, "enabled", "C15/enabled/"+derived, fmt.Sprintf("Handler.Enabled(%v)=%v but the underlying logger (level %v) Enabled(%v)=%v; derivation %v", sl, got, L, nat, want, cdesc), desc)
				return
			}
			c.R.Add("enabled_compared", 1)
		}
		// Handle: exactly one record at the underlying logger's destination. A log/slog.Logger only calls Handle
		// after Enabled said yes, so Handle is driven directly only for records the logger admits (a handler that
		// gates again inside Handle is just as correct; the not-admitted side is covered through the Logger below).
		if !oddLevel && !lg.Enabled(stdNames[std]) {
			sl := stdslog.New(cur)
			log.Reset()
			sl.Log(bg, std, "via-logger")
			if n := len(log.Writes("W")); n != 0 {
				c.R.Violation(idx, "gated-by-logger", "C15/gated-by-logger/"+derived, fmt.Sprintf("slog.Logger.Log(%v) produced %d record(s) although the underlying logger (level %v) does not admit %v", std, n, L, stdNames[std]), desc)
			}
			c.R.Add("not_admitted_records_silent", 1)
			c.R.NonTrivial("silent", idx)
			return
		}
		log.Reset()
		m1, m2 := fds.mark()
		_ = decoy
		// the context of the call: the background, one that was cancelled, one whose deadline has passed (a finished
		// request's context): the record is the same
		hctx := bg
		if idx%4 == 2 && len(recKVs) > 0 && recKVs[0].Val.Kind != "group" {
			// the underlying logger has a context key registered whose name is that of an attribute of the RECORD, and the
			// context holds a value under it: the record's own attribute is what the record carries
			lg.SetContextKeys(recKVs[0].Key)
			hctx = context.WithValue(bg, recKVs[0].Key, "a value found in the context") //nolint:staticcheck // string keys are what the library documents
			c.R.Add("records_whose_context_holds_a_value_under_the_name_of_a_record_attribute", 1)
		}
		switch idx % 4 {
		case 1:
			cctx, cancel := context.WithCancel(bg)
			cancel()
			hctx = cctx
			c.R.Add("records_under_a_context_that_is_done", 1)
		case 3:
			dctx, cancel := context.WithDeadline(bg, time.Unix(1, 0))
			defer cancel()
			hctx = dctx
			c.R.Add("records_under_a_context_that_is_done", 1)
		}
		herr := cur.Handle(hctx, rec)
		evs := log.Events()
		b1, b2 := fds.since(m1, m2)
		c.R.Add("handle_calls", 1)
		if herr != nil {
			c.R.Violation(idx, "handle-error", "C15/handle-error/"+derived, herr.Error(), desc)
			return
		}
		var writes []mon.Event
		for _, e := range evs {
			if e.Kind == mon.EvWrite && e.W == "W" && !bytes.Contains(e.Data, []byte(diagText)) { // (a diagnostic about the sick destination is not the record)
				writes = append(writes, e)
			}
		}
		if len(writes) != 1 || len(b1)+len(b2) > 0 {
			where := ""
			if len(b1)+len(b2) > 0 {
				where = fmt.Sprintf("; %d bytes went to the process's stdout/stderr instead: %s", len(b1)+len(b2), q(clip(string(b1)+string(b2), 200)))
			}
			c.R.Violation(idx, "emitted-once", "C15/emitted-once/"+derived, fmt.Sprintf("Handle produced %d record(s) at the underlying logger's destination, expected exactly 1 (derivation %v)%s", len(writes), cdesc, where), desc)
			return
		}
		payload := writes[0].Data
		lvl := stdNames[std]
		if oddLevel {
			// read the severity name the adapter chose from the record itself
			if d0, err := decodeRecord(f, payload, true, caller); err == nil {
				for _, cand := range append(append([]slog.Level(nil), builtinLevels...), 77) {
					if d0.Level == cand.String() || d0.Level == cand.ShortTag(3) {
						lvl = cand
					}
				}
			}
			c.R.Add("records_with_non_standard_level", 1)
		}
		var viols []tv
		switch f {
		case FJSON:
			vs := c04check(payload, c04case{name: name, msg: msg, lvl: lvl, caller: caller, kvs: exp})
			if emptyAt >= 0 && len(vs) > 0 {
				// the zero Attr may also be shown (as "":null at the level the record's attributes join)
				withEmpty := append(append([]gen.KV(nil), recKVs...), gen.KV{Key: "", Val: gen.V{Kind: "nil"}})
				exp2 := withEmpty
				for i := len(chain) - 1; i >= 0; i-- {
					if chain[i].group != "" {
						exp2 = []gen.KV{{Key: chain[i].group, Val: gen.V{Kind: "group", Items: exp2}}}
					} else {
						exp2 = lastWins(append(append([]gen.KV(nil), chain[i].kvs...), exp2...))
					}
				}
				if v2 := c04check(payload, c04case{name: name, msg: msg, lvl: lvl, caller: caller, kvs: pruneEmptyGroups(exp2)}); len(v2) == 0 {
					vs = nil
				}
			}
			for _, v := range vs {
				viols = append(viols, tv{v.clause, "json", v.detail})
			}
		case FLogfmt:
			viols = c05check(payload, recCase{name: name, msg: msg, lvl: lvl, caller: caller, kvs: exp})
		default:
			viols = c15color(payload, name, msg, lvl, caller, exp)
		}
		// the record's own time
		if d, err := decodeRecord(f, payload, true, caller); err == nil {
			if want := ts.Format(slog.TimeNano); d.Time != want {
				viols = append(viols, tv{"time", "record-time", fmt.Sprintf("timestamp %q is not the record's own time %q", d.Time, want)})
			}
		}
		if len(viols) > 0 {
			for _, v := range viols {
				feat := v.feature
				if v.clause == "envelope" || v.clause == "envelope-msg" {
					feat = "envelope"
				}
				cl := v.clause
				if nDer > 0 && (cl == "members" || cl == "missing-pair" || cl == "forged-pair" || cl == "layout-attrs" || cl == "value") {
					cl = "derived-" + cl
					feat = deriveFeature(cdesc)
				}
				c.R.Violation(idx, cl, "C15/"+cl+"/"+feat, v.detail+"\npayload: "+q(clip(string(payload), 1200)), desc)
			}
			return
		}
		c.R.Add("records_decoded", 1)
		if nDer > 0 {
			c.R.Add("derived_handler_records", 1)
		}
		for _, k := range kindsOf(exp) {
			c.R.Distinct("value_kinds", k)
		}
		c.R.Distinct("handler_options", fmt.Sprintf("NoColor=%v NoSource=%v JSON=%v", opt.NoColor, opt.NoSource, opt.JSON))
		c.R.NonTrivial(string(payload))
		if c.R.WantSample() && nDer > 1 {
			c.R.Sample(idx, desc, map[string]any{"payload": string(payload)})
		}
		if oddLevel {
			return
		}
		// through a log/slog.Logger: emitted iff Enabled
		sl := stdslog.New(cur)
		log.Reset()
		sl.Log(hctx, std, "via-logger")
		n := 0
		for _, p := range log.Writes("W") {
			if !bytes.Contains(p.Data, []byte(diagText)) {
				n++
			}
		}
		want := 0
		if lg.Enabled(lvl) {
			want = 1
		}
		if n != want {
			c.R.Violation(idx, "gated-by-logger", "C15/gated-by-logger/"+derived, fmt.Sprintf("slog.Logger.Log(%v) produced %d record(s); the underlying logger (level %v) admits %v: %v", std, n, L, lvl, want == 1), desc)
		}
	})
}

// lastWins keeps, of the attributes given under one key at one level, the last one.
func lastWins(kvs []gen.KV) []gen.KV {
	last := map[string]int{}
	for i, kv := range kvs {
		last[kv.Key] = i
	}
	var out []gen.KV
	for i, kv := range kvs {
		if last[kv.Key] == i {
			out = append(out, kv)
		}
	}
	return out
}

func deriveFeature(cdesc []string) string {
	hasG, hasA := false, false
	for _, d := range cdesc {
		if strings.HasPrefix(d, "WithGroup") {
			hasG = true
		} else {
			hasA = true
		}
	}
	switch {
	case hasG && hasA:
		return "with-group+with-attrs"
	case hasG:
		return "with-group"
	}
	return "with-attrs"
}

func pruneEmptyGroups(kvs []gen.KV) []gen.KV {
	var out []gen.KV
	for _, kv := range kvs {
		if kv.Val.Kind == "group" {
			kv.Val.Items = pruneEmptyGroups(kv.Val.Items)
			if len(kv.Val.Items) == 0 && kv.Val.Text != "given-to-a-derivation" {
				continue
			}
		}
		out = append(out, kv)
	}
	return out
}

// c15color compares a colored record with the expectation (set equality of flattened leaves).
func c15color(payload []byte, name, msg string, lvl slog.Level, caller bool, exp []gen.KV) (out []tv) {
	d, err := decodeRecord(FColor, payload, true, caller)
	if err != nil {
		return []tv{{"decode", "color", err.Error()}}
	}
	if d.Logger != name {
		out = append(out, tv{"envelope", "logger", fmt.Sprintf("logger %q != %q", d.Logger, name)})
	}
	if d.Level != lvl.ShortTag(3) {
		out = append(out, tv{"envelope", "level", fmt.Sprintf("level tag %q != %q", d.Level, lvl.ShortTag(3))})
	}
	if d.Msg != msg {
		out = append(out, tv{"envelope-msg", "msg", fmt.Sprintf("message %q != %q", d.Msg, msg)})
	}
	leaves := match.Flatten("", exp)
	by := map[string]match.Leaf{}
	for _, l := range leaves {
		by[l.Key] = l
	}
	seen := map[string]bool{}
	for _, a := range d.Attrs {
		l, ok := by[a.Key]
		if !ok {
			out = append(out, tv{"forged-pair", "color", fmt.Sprintf("attribute %s=%s was not logged", a.Key, clip(a.Raw, 40))})
			continue
		}
		seen[a.Key] = true
		if ok, why := match.Text(oracle.Pair{Key: a.Key, HasKey: true, Raw: a.Raw, Val: a.Text, Quoted: a.Quoted}, l.Val, true); !ok {
			out = append(out, tv{"value", valueClass(l.Val), a.Key + ": " + why})
		}
	}
	for _, l := range leaves {
		if !seen[l.Key] {
			out = append(out, tv{"missing-pair", valueClass(l.Val), fmt.Sprintf("attribute %s is missing", l.Key)})
		}
	}
	if len(out) > 4 {
		out = out[:4]
	}
	return
}

// ---- std log bridge ---------------------------------------------------------

func c15bridge(c *Ctx) {
	log := mon.NewLog()
	w := mon.New(log, "W", mon.ShapePlain)
	slog.AddFlags(slog.LnoInterrupt)
	slog.RemoveFlags(slog.Lcaller)
	treat := map[slog.Level]slog.Level{}
	for k, v := range builtinTreatAs {
		treat[k] = v
	}
	levels := []slog.Level{slog.PanicLevel, slog.ErrorLevel, slog.WarnLevel, slog.InfoLevel, slog.DebugLevel, slog.TraceLevel, slog.OffLevel, slog.AlwaysLevel}
	sevs := []slog.Level{slog.ErrorLevel, slog.WarnLevel, slog.InfoLevel, slog.DebugLevel, slog.TraceLevel, slog.AlwaysLevel, slog.OKLevel, slog.FailLevel}
	// severities of the application (registered, outside the built-in range, with a treated-as entry): a bridge at such
	// a severity emits records of THAT severity, admitted by its treated-as entry
	registerCustomLevels()
	sevs = append(sevs, lvlFgOnly, lvlFgBg, lvlNoClr)
	treat[lvlFgOnly], treat[lvlFgBg], treat[lvlNoClr] = slog.InfoLevel, slog.ErrorLevel, slog.DebugLevel
	ownTitles := map[slog.Level]string{lvlFgOnly: "notice", lvlFgBg: "swell", lvlNoClr: "plainlvl"}
	c.Each(func(idx int, r *gen.R) {
		L := levels[idx%len(levels)]
		sev := sevs[(idx/len(levels))%len(sevs)]
		f := Format(r.Intn(2)) // json / logfmt: the message must be compared exactly
		lgL := slog.New("bridge")
		lg := lgL.Root()
		lg.SetWriter(w).SetErrorWriter(w)
		if r.P(15) {
			gone := mon.New(log, "GONE", mon.ShapePlain)
			lg.AddLevelWriter(sev, gone)
			lg.RemoveLevelWriter(sev, gone)
			c.R.Add("underlying_loggers_whose_level_writers_were_added_and_removed", 1)
		}
		setFormat(lg, f)
		debugMode := r.P(30) // the sticky process-wide debug mode additionally admits Debug
		var under slog.Logger = lgL
		switch r.Intn(5) {
		case 0, 1:
			under = lg
		case 2:
			// an application type that embeds a Logger (a decorating logger): the handler is a handler on that logger
			under = c15decorated{lgL}
			c.R.Add("handlers_on_a_decorating_logger_type", 1)
		}
		// the bridge is often built while the logger still has ANOTHER level (incl. Off): admission is decided per message
		builtAt := L
		if r.P(50) {
			builtAt = gen.Pick(r, levels)
		}
		lg.SetLevel(builtAt)
		bl := slog.NewLogLogger(under, sev)
		lg.SetLevel(L)
		is.SetDebugMode(debugMode)
		defer is.SetDebugMode(false)
		msg := r.Str(gen.StrOpt{HostilePc: 40})
		switch r.Intn(4) {
		case 0:
			msg += "\n"
		case 1:
			msg += "\n\n"
		}
		how := r.Intn(4)
		log.Reset()
		var formatted string
		switch how {
		case 0:
			bl.Print(msg)
			formatted = msg
		case 1:
			bl.Printf("%s", msg)
			formatted = msg
		case 2:
			bl.Println(msg)
			formatted = msg + "\n"
		default:
			_ = bl.Output(1, msg)
			formatted = msg
		}
		if !strings.HasSuffix(formatted, "\n") {
			formatted += "\n" // the std logger terminates the line
		}
		wantMsg := formatted[:len(formatted)-1] // "minus its trailing newline"
		adm := admit(L, sev, debugMode, treat)
		evs := log.Writes("W")
		desc := map[string]any{"debug_mode": debugMode, "bridge_built_while_logger_level_was": builtAt.String(), "logger_level": L.String(), "bridge_severity": sev.String(), "format": f.String(), "call": []string{"Print", "Printf", "Println", "Output"}[how], "msg": q(clip(msg, 200))}
		c.R.Add("bridge_calls", 1)
		want := 0
		if adm {
			want = 1
		}
		if len(evs) != want {
			kind := "admitted-but-silent"
			if !adm {
				kind = "emitted-but-not-admitted"
			}
			c.R.Violation(idx, "bridge-gate", "C15/bridge-gate/"+kind, fmt.Sprintf("logger level %v, bridge severity %v: %d record(s), the logger's gate says %v", L, sev, len(evs), adm), desc)
			return
		}
		c.R.NonTrivial(int(L), int(sev), how, msg, debugMode)
		if !adm {
			c.R.Add("bridge_silent", 1)
			return
		}
		p := evs[0].Data
		blank := sev == slog.AlwaysLevel && strings.Trim(wantMsg, "\n\r \t") == ""
		if blank {
			return
		}
		d, err := decodeRecord(f, p, true, false)
		if err != nil {
			// multi-line hostile message in logfmt/json is escaped, so decoding must work
			c.R.Violation(idx, "bridge-decode", "C15/bridge-decode/"+f.String(), err.Error()+": "+q(clip(string(p), 300)), desc)
			return
		}
		wm := wantMsg
		if f == FJSON {
			wm = match.ReplInvalid(wm)
		}
		if d.Msg != wm {
			c.R.Violation(idx, "bridge-message", "C15/bridge-message/"+f.String(), fmt.Sprintf("record message %q, expected the std-log line minus its trailing newline %q", clip(d.Msg, 200), clip(wm, 200)), desc)
			return
		}
		wantLevel := sev.String()
		if t, ok := ownTitles[sev]; ok {
			wantLevel = t
			c.R.Add("bridge_records_at_a_registered_severity_of_the_application", 1)
		}
		if d.Level != wantLevel {
			c.R.Violation(idx, "bridge-severity", "C15/bridge-severity/"+className(sev), fmt.Sprintf("record level %q, bridge severity %q", d.Level, wantLevel), desc)
			return
		}
		if len(d.Attrs) != 0 {
			c.R.Violation(idx, "bridge-attrs", "C15/bridge-attrs", fmt.Sprintf("bridge record carries attributes %v", d.Attrs), desc)
			return
		}
		c.R.Add("bridge_records_decoded", 1)
		if c.R.WantSample() {
			c.R.Sample(idx, desc, map[string]any{"payload": string(p)})
		}
	})
}

// ---- level sweep: which log/slog levels terminate a production process -----------

func c15levelsweep(c *Ctx) {
	c.Each(func(idx int, r *gen.R) {
		// idx 0: the whole range except 16/17 in one production process; idx 1,2: the two explicit constants
		base := fmt.Sprintf("c15sweep-%d", idx)
		os.Remove(base + ".res")
		os.Remove(base + ".rec")
		mode := []string{"all", "16", "17"}[idx%3]
		exit, to, se := runProbeFor(c, "C15", false, base, "sweep="+mode)
		c.R.Add("probe_processes", 1)
		if to {
			c.R.Add("watchdog_timeouts", 1)
			return
		}
		b, _ := os.ReadFile(base + ".res")
		rec, _ := os.ReadFile(base + ".rec")
		var res struct {
			Done     []int             `json:"done"`
			Names    map[string]string `json:"names"`
			Panicked string            `json:"panicked"`
			At       int               `json:"at"`
		}
		_ = json.Unmarshal(b, &res)
		desc := map[string]any{"mode": mode, "exit_status": exit, "stderr": clip(se, 300)}
		switch mode {
		case "all":
			if want := len(c15sweepLevels()); exit != 0 || res.Panicked != "" || len(res.Done) != want {
				c.R.Violation(idx, "level-mapping", "C15/level-mapping/terminating", fmt.Sprintf("Entry.Log with a log/slog level other than the Fatal/Panic constants terminated the process: exit %d, panicked %q, last level tried %d, %d of %d levels returned", exit, res.Panicked, res.At, len(res.Done), want), desc)
				return
			}
			for sl, nat := range stdNames {
				if got := res.Names[fmt.Sprint(int(sl))]; got != nat.String() {
					c.R.Violation(idx, "level-mapping", "C15/level-mapping/namesake", fmt.Sprintf("log/slog level %v was recorded as %q, expected its namesake %q", sl, got, nat.String()), desc)
					return
				}
			}
			c.R.Add("levels_returned_normally", int64(len(res.Done)))
			c.R.Sample(idx, desc, map[string]any{"levels_returned": len(res.Done), "names_of_standard_levels": res.Names})
		case "16":
			if exit != 253 || !bytes.Contains(rec, []byte("sweep-16")) {
				c.R.Violation(idx, "level-mapping", "C15/level-mapping/LevelFatal", fmt.Sprintf("Entry.Log(LevelFatal) in production: exit %d (expected 253), record %q", exit, clip(string(rec), 200)), desc)
				return
			}
			c.R.Add("explicit_terminations_observed", 1)
		case "17":
			if exit != 0 || res.Panicked == "" || !bytes.Contains(rec, []byte("sweep-17")) {
				c.R.Violation(idx, "level-mapping", "C15/level-mapping/LevelPanic", fmt.Sprintf("Entry.Log(LevelPanic) in production: exit %d, panic %q, record %q", exit, res.Panicked, clip(string(rec), 200)), desc)
				return
			}
			c.R.Add("explicit_terminations_observed", 1)
		}
		c.R.NonTrivial(mode, idx)
	})
}

// c15sweepLevels: every log/slog level value in -1100..1100 except the two explicit constants, plus far values - among
// them the ones that equal LevelFatal / LevelPanic modulo 2^8, 2^16 and 2^32.
func c15sweepLevels() []int {
	var lvls []int
	for l := -1100; l <= 1100; l++ {
		if l != 16 && l != 17 {
			lvls = append(lvls, l)
		}
	}
	for _, k := range []int{1 << 16, 1 << 20, 1 << 31, 1 << 32, 1 << 40, 1 << 62} {
		for _, d := range []int{16, 17, 0, -1} {
			lvls = append(lvls, k+d, -k+d)
		}
	}
	return append(lvls, math.MaxInt32, math.MinInt32, math.MaxInt64, math.MinInt64, math.MaxInt64-16)
}

func c15exec(c *Ctx, out string) {
	mode := c.X("sweep", "all")
	f, _ := os.OpenFile(out+".rec", os.O_CREATE|os.O_WRONLY|os.O_TRUNC, 0o644)
	lgL := slog.New("sweep")
	lg := lgL.Root()
	lg.SetWriter(f).SetErrorWriter(f).SetColorMode(false)
	lg.SetLevel(slog.AlwaysLevel)
	var done []int
	names := map[string]string{}
	panicked := ""
	at := 0
	func() {
		defer func() {
			if e := recover(); e != nil {
				panicked = fmt.Sprint(e)
			}
		}()
		var lvls []int
		switch mode {
		case "16":
			lvls = []int{16}
		case "17":
			lvls = []int{17}
		default:
			lvls = c15sweepLevels()
		}
		for _, l := range lvls {
			at = l
			lg.Log(context.Background(), stdslog.Level(l), fmt.Sprintf("sweep-%d", l))
			done = append(done, l)
		}
	}()
	f.Sync()
	if rec, err := os.ReadFile(out + ".rec"); err == nil {
		for _, ln := range bytes.Split(rec, []byte{'\n'}) {
			ps, err := oracle.ParseLogfmt(ln)
			if err != nil || len(ps) < 3 {
				continue
			}
			var lv, ms string
			for _, p := range ps {
				if p.Key == "level" {
					lv = p.Val
				}
				if p.Key == "msg" {
					ms = p.Val
				}
			}
			names[strings.TrimPrefix(ms, "sweep-")] = lv
		}
	}
	b, _ := json.Marshal(map[string]any{"done": done, "names": names, "panicked": panicked, "at": at})
	_ = os.WriteFile(out+".res", b, 0o644)
	os.Exit(0)
}

var _ = errors.New

// c15concurrent: several goroutines log through the SAME derived handler (WithAttrs / WithGroup chain); every record
// must come out with its own attributes under the group.
func c15concurrent(c *Ctx) {
	c.Each(func(idx int, r *gen.R) {
		log := mon.NewLog()
		w := mon.New(log, "W", mon.ShapePlain)
		w.Core().Yield = r.Bool()
		f := Format(r.Intn(2)) // json / logfmt
		lgL := slog.New("conc")
		lg := lgL.Root()
		lg.SetWriter(w).SetErrorWriter(w)
		h := slog.NewSlogHandler(lgL, &slog.HandlerOptions{NoColor: true, NoSource: true, JSON: f == FJSON, Level: slog.DebugLevel})
		is.SetDebugMode(false)
		var cur stdslog.Handler = h
		depth := r.Range(1, 3)
		var groups []string
		for i := 0; i < depth; i++ {
			cur = cur.WithAttrs([]stdslog.Attr{stdslog.Int(fmt.Sprintf("pre%d", i), i)})
			g := fmt.Sprintf("grp%d", i)
			cur = cur.WithGroup(g)
			groups = append(groups, g)
		}
		sl := stdslog.New(cur)
		G := gen.Pick(r, []int{2, 4, 8, 16})
		N := 1500 / G
		var wg sync.WaitGroup
		start := make(chan struct{})
		for g := 0; g < G; g++ {
			g := g
			wg.Add(1)
			go func() {
				defer wg.Done()
				<-start
				for k := 0; k < N; k++ {
					id := fmt.Sprintf("g%dk%d", g, k)
					sl.Info("m-"+id, "id", id, "twin", id+"-twin", "n", k, stdslog.Group("sub", "id", id))
				}
			}()
		}
		close(start)
		wg.Wait()
		prefix := strings.Join(groups, ".") + "."
		seen := map[string]int{}
		desc := map[string]any{"goroutines": G, "records_per_goroutine": N, "format": f.String(), "group_depth": depth}
		for _, e := range log.Writes("W") {
			d, err := decodeRecord(f, e.Data, true, false)
			if err != nil {
				c.R.Violation(idx, "concurrent-handler", "C15/concurrent-handler/decode", err.Error()+": "+q(clip(string(e.Data), 400)), desc)
				return
			}
			id := strings.TrimPrefix(d.Msg, "m-")
			got := map[string]string{}
			for _, a := range d.Attrs {
				got[a.Key] = a.Text
			}
			if got[prefix+"id"] != id || got[prefix+"twin"] != id+"-twin" || got[prefix+"sub.id"] != id {
				c.R.Violation(idx, "concurrent-handler", "C15/concurrent-handler/foreign-attributes", fmt.Sprintf("record of call %s carries %sid=%q %stwin=%q %ssub.id=%q: %s", id, prefix, got[prefix+"id"], prefix, got[prefix+"twin"], prefix, got[prefix+"sub.id"], q(clip(string(e.Data), 400))), desc)
				return
			}
			seen[id]++
		}
		if len(seen) != G*N {
			c.R.Violation(idx, "concurrent-handler", "C15/concurrent-handler/lost", fmt.Sprintf("%d distinct records delivered, %d issued", len(seen), G*N), desc)
			return
		}
		c.R.Add("concurrent_handler_records", int64(G*N))
		c.R.Max("max_writes_in_flight", int64(log.MaxIn))
		c.R.NonTrivial("conc", idx, c.X("race", ""))
	})
}
