// NOTE: do NOT run gofmt on this file without checking that the //line directives stay at the start of their lines.
package main

import (
	"fmt"
	"strings"

	"github.com/hedzr/logg/slog"

	"verifharness/gen"
	"verifharness/mon"
)

func init() { reg("C18", "generated", c18generated) }

// Code "generated" from sources in other directories (a grammar, a template): the file names the compiler records for
// these functions come from //line directives and are absolute, whatever the build does to the names of ordinary
// source files (-trimpath rewrites only module, GOROOT and module-cache roots).

//line /srv/c18-gen/parser.y:42
func c18fromGrammar(lg *slog.Entry) { lg.Warn("caller-path-probe from generated code") }

//line /srv/c18-gen/deep/er/lexer.l:7
func c18fromLexer(lg *slog.Entry) { lg.Info("caller-path-probe from generated code") }

//line /home/c18-user/templates/page.tmpl:120
func c18fromTemplate(lg *slog.Entry) { lg.Error("caller-path-probe from generated code") }

//line c18gen.go:40
// c18generated: records issued from below //line directives with absolute file names, in this build of the workload (the
// plan runs it in the ordinary build and in a -trimpath build). The directory of the generated code's source is a
// registered mapping (or lies under the home directory the process was started with), the privacy flag is on.
// Oracle: the caller field does not report that directory; Safety of the same file name does not either.
func c18generated(c *Ctx) {
	log := mon.NewLog()
	w := mon.New(log, "W", mon.ShapePlain)
	sites := []struct {
		name, dir, file string
		call            func(*slog.Entry)
	}{
		{"grammar", "/srv/c18-gen", "/srv/c18-gen/parser.y", c18fromGrammar},
		{"lexer", "/srv/c18-gen", "/srv/c18-gen/deep/er/lexer.l", c18fromLexer},
		{"template", "/home/c18-user", "/home/c18-user/templates/page.tmpl", c18fromTemplate},
	}
	c.Each(func(idx int, r *gen.R) {
		restore := withFlags(slog.Lcaller|slog.Lprivacypath, 0)
		defer restore()
		st := sites[idx%len(sites)]
		f := Format((idx / 3) % 3)
		short := []string{"@gen", "~gen", "GEN:"}[(idx/9)%3]
		slog.AddKnownPathMapping(st.dir, short)
		defer slog.RemoveKnownPathMapping(st.dir)
		lg := newRoot("p18gen", f, w, slog.AlwaysLevel)
		if (idx/27)%2 == 1 {
			lg = lg.New("kid")
			lg.SetWriter(w).SetErrorWriter(w)
		}
		desc := map[string]any{"site": st.name, "file_name_from_the_line_directive": st.file, "registered_directory": st.dir, "short_form": short, "format": f.String(), "build": c.X("build", "ordinary")}
		evs := capture(log, func() { st.call(lg) })
		if len(evs) != 1 {
			c.R.Violation(idx, "caller-field", "C18/caller-field/one-record", fmt.Sprintf("expected one record, saw %s", fmtEvents(evs)), desc)
			return
		}
		d, err := decodeRecord(f, evs[0].Data, true, true)
		if err != nil {
			c.R.Violation(idx, "caller-field", "C18/caller-field/decode", err.Error()+": "+q(clip(string(evs[0].Data), 300)), desc)
			return
		}
		file := d.Caller["file"]
		c.R.Add("caller_fields_of_generated_code_checked", 1)
		if file == st.dir || strings.HasPrefix(file, st.dir+"/") {
			c.R.Violation(idx, "caller-field", "C18/caller-field/prefix-leak/generated-code", fmt.Sprintf("caller.file = %q although %q is a registered directory (short form %q) and the privacy flag is on", file, st.dir, short), desc)
			return
		}
		if got := slog.Safety(st.file); got == st.file || strings.HasPrefix(got, st.dir+"/") {
			c.R.Violation(idx, "prefix-leak", "C18/prefix-leak/string-mapping", fmt.Sprintf("Safety(%q) = %q although %q is a registered directory", st.file, got, st.dir), desc)
			return
		}
		c.R.NonTrivial(st.name, f.String(), short, idx)
		if c.R.WantSample() {
			c.R.Sample(idx, desc, map[string]any{"caller.file": file})
		}
	})
}
