package main

import (
	errorsv3 "gopkg.in/hedzr/errors.v3"
	"bytes"
	"fmt"
	"os"
	"path/filepath"
	"runtime"
	"sort"
	"strconv"
	"strings"
	"time"
	"unicode/utf8"

	"github.com/hedzr/is"
	"github.com/hedzr/is/term/color"
	"github.com/hedzr/logg/slog"

	"verifharness/gen"
	"verifharness/match"
	"verifharness/mon"
	"verifharness/oracle"
)

func init() { reg("C06", "main", c06main) }

const (
	lvlFgOnly  = slog.Level(20) // registered with a foreground colour only
	lvlFgBg    = slog.Level(21) // registered with foreground and background
	lvlNoClr   = slog.Level(22) // registered without colours, custom tags
	lvlUnreg   = slog.Level(77) // never registered
	lvlCJK     = slog.Level(23) // registered under a CJK title, tags derived from it
	lvlCyr     = slog.Level(24) // registered under a Cyrillic title
	lvlMBTags  = slog.Level(25) // registered with multi-byte custom tags
	lvlRecolor = slog.Level(26) // registered; its colours are set anew (SetLevelColors) before every use
	lvlPartial = slog.Level(27) // registered with short tags for the widths 1-3 only
)

// the short tags the registrations below give (index = width)
var c06givenTags = map[slog.Level][6]string{
	lvlMBTags:  {"", "\u00e9", "\u00e9\u00e0", "\u65e5\u672c\u8a9e", "\u65e5\u672c\u8a9e\u3060", "\U0001f600\u65e5\u672c\u8a9e\u3060"},
	lvlNoClr:   {"", "p", "pl", "pln", "plnl", "plnlv"},
	lvlPartial: {"", "P", "PA", "PRT"},
}

var customRegistered bool

func registerCustomLevels() {
	if customRegistered {
		return
	}
	customRegistered = true
	_ = slog.RegisterLevel(lvlFgOnly, "notice", slog.RegWithColor(color.FgLightBlue), slog.RegWithTreatedAsLevel(slog.InfoLevel))
	_ = slog.RegisterLevel(lvlFgBg, "swell", slog.RegWithColor(color.FgRed, color.BgUnderline), slog.RegWithTreatedAsLevel(slog.ErrorLevel), slog.RegWithPrintToErrorDevice(true))
	_ = slog.RegisterLevel(lvlCJK, "\u8b66\u544a\u7ea7\u522b\u4e00", slog.RegWithColor(color.FgYellow))
	_ = slog.RegisterLevel(lvlCyr, "\u0443\u0432\u0435\u0434\u043e\u043c\u043b\u0435\u043d\u0438\u0435", slog.RegWithTreatedAsLevel(slog.InfoLevel))
	_ = slog.RegisterLevel(lvlMBTags, "mbtags", slog.RegWithShortTags([6]string{"", "\u00e9", "\u00e9\u00e0", "\u65e5\u672c\u8a9e", "\u65e5\u672c\u8a9e\u3060", "\U0001f600\u65e5\u672c\u8a9e\u3060"}))
	_ = slog.RegisterLevel(lvlRecolor, "recolor")
	_ = slog.RegisterLevel(lvlPartial, "partial", slog.RegWithShortTags([6]string{"", "P", "PA", "PRT"}))
	_ = slog.RegisterLevel(lvlNoClr, "plainlvl", slog.RegWithShortTags([6]string{"", "p", "pl", "pln", "plnl", "plnlv"}), slog.RegWithTreatedAsLevel(slog.DebugLevel))
}

var colorLevels = []slog.Level{slog.PanicLevel, slog.FatalLevel, slog.ErrorLevel, slog.WarnLevel, slog.InfoLevel, slog.DebugLevel, slog.TraceLevel,
	slog.AlwaysLevel, slog.OKLevel, slog.SuccessLevel, slog.FailLevel, lvlFgOnly, lvlFgBg, lvlNoClr, lvlUnreg, lvlCJK, lvlCyr, lvlMBTags, lvlRecolor, lvlRecolor, lvlPartial}

type c06case struct {
	recCase
	ts       time.Time
	tagW     int
	minW     int
	layoutOK bool    // message is in the layout-fidelity domain
	pc       uintptr // the call site the record is attributed to (one of 320)
	nilAt    []int   // positions at which the attribute list handed over holds an unused (nil) slot
	tsLayout string  // the logger's own timestamp layout, if the application set one (it concerns the timestamp only)
	tsFlags  int     // 0: the factory date/time flags; 1-8: one of the eight combinations of Ldate, Ltime, Lmicroseconds (+1)
}

// withNils inserts nil slots (what a pre-sized attribute list holds where nothing was put) at the given positions.
func withNils(as slog.Attrs, at []int) slog.Attrs {
	for _, i := range at {
		if i > len(as) {
			i = len(as)
		}
		as = append(as[:i:i], append(slog.Attrs{nil}, as[i:]...)...)
	}
	return as
}

func c06gen(r *gen.R, testing bool) c06case {
	var c c06case
	// values: any bytes; in testing mode error texts stay free of control bytes (the dump prints them raw by design)
	so := gen.StrOpt{HostilePc: 45, Long: false}
	o := gen.Options{Str: so, MaxDepth: 3}
	c.recCase = genTextCase(r, so, o)
	c.pc = gen.Pick(r, c06sitePCs)
	if testing {
		sanitizeErrs(c.kvs)
	}
	c.lvl = gen.Pick(r, colorLevels)
	if len(c.kvs) >= 2 && r.P(15) {
		for k := r.Range(1, 3); k > 0; k-- {
			c.nilAt = append(c.nilAt, r.Range(1, len(c.kvs)-1)) // in the middle of the list
		}
	}
	if r.P(4) {
		// a value whose MarshalText FAILS with an error text that echoes hostile input: whatever is printed for it, it
		// contributes no raw escape or control byte
		t := r.Str(gen.StrOpt{HostilePc: 100})
		c.kvs = append(c.kvs, gen.KV{Key: "zzfail~", Val: gen.V{Kind: "textmfail", Text: t, Go: gen.TextMFail{S: t}}})
	}
	if r.P(5) {
		// a value of a DEFINED string type without methods (type Status string) that holds hostile text: whatever is printed
		// for it, it contributes no raw escape or control byte
		t := r.Str(gen.StrOpt{HostilePc: 100})
		c.kvs = append(c.kvs, gen.KV{Key: "zzstatus~", Val: gen.V{Kind: "textmfail", Text: t, Go: c06status(t)}})
	}
	c.ts = r.Time()
	if r.P(3) {
		c.ts = time.Time{} // the zero instant is an instant like any other: the call carries it
	}
	if r.P(12) {
		// the application's own timestamp layout (blanks, commas, zone abbreviations): it says how the record's instant is
		// written, the attribute values are written as always
		c.tsLayout = gen.Pick(r, []string{time.RFC1123, time.UnixDate, time.Kitchen, "Jan _2 15:04:05 MST", time.RFC822, "2006-01-02 15:04:05.000"})
	}
	if c.tsLayout == "" && r.P(12) {
		// the application's choice of date/time flags (all eight combinations): they say how the instant is written
		c.tsFlags = 1 + r.Intn(8)
	}
	c.tagW = 3
	c.minW = 36
	if r.P(40) {
		c.tagW = r.Range(1, 5)
	}
	if r.P(40) {
		c.minW = r.Range(16, 160)
	}
	// name: printable (it is not a value; keep it free of controls and markup)
	if c.name != "" && r.P(50) {
		c.name = "n" + gen.Filter(c.name, gen.StrOpt{NoCtl: true, NoESC: true, NoMarkup: true, ValidUTF8: true})
	} else if c.name != "" {
		c.name = "svc.db"
	}
	// message
	switch x := r.Intn(10); {
	case x < 7: // layout domain: no markup, no control other than LF
		mo := gen.StrOpt{HostilePc: 35, NoCtl: true, NoESC: true, NoMarkup: true, ValidUTF8: true}
		lines := r.Range(1, 4)
		if r.P(60) {
			lines = 1
		}
		var parts []string
		for i := 0; i < lines; i++ {
			parts = append(parts, r.Str(mo))
		}
		if r.P(8) {
			// LINE SEPARATOR / PARAGRAPH SEPARATOR are characters of a line, not line breaks
			parts[0] = gen.Pick(r, []string{"a\u2028b", "\u2029lead", "tail\u2028", "x\u2028\u2029y"}) + parts[0]
		}
		c.msg = strings.Join(parts, "\n")
		if r.P(25) {
			c.msg += "\n"
		}
		if r.P(10) {
			c.msg = "  " + c.msg
		}
		c.layoutOK = true
	case x < 9: // hygiene domain: anything without ESC (markup, other controls allowed)
		c.msg = r.Str(gen.StrOpt{HostilePc: 50, NoESC: true})
	default:
		c.msg = "<b>bold</b> and <i>it</i>\nsecond <u>line</u>" + r.Str(gen.StrOpt{HostilePc: 30, NoESC: true})
	}
	switch {
	case r.P(2):
		// a message that consists of white space the blank-line rule does not name (only blank, tab, CR and LF make a
		// Print blank): it is a message like any other, at every severity
		c.msg = gen.Pick(r, []string{"\u00a0", "\u3000", "\u2003\u2003", "\u205f", "\u00a0 \u00a0", "\u2002x"})
		c.layoutOK = true
	case r.P(2):
		// a very long line after the first one (no line is too long to be indented and printed)
		c.msg = "head\n" + strings.Repeat("0123456789abcdef", gen.Pick(r, []int{4095, 4096, 4097, 8192})) + gen.Pick(r, []string{"", "x"}) + "\ntail"
		c.layoutOK = true
	}
	if r.P(3) {
		// a long dump after the first line (a goroutine dump, an SQL statement): 1-6 KiB of lines with EMPTY lines among them
		var sb strings.Builder
		sb.WriteString("head of a dump")
		for n := r.Range(20, 120); n > 0; n-- {
			sb.WriteByte('\n')
			if r.P(20) {
				continue // an empty line
			}
			sb.WriteString(strings.Repeat("frame ", r.Range(1, 12)))
		}
		c.msg = sb.String() + gen.Pick(r, []string{"", "\n", "end"})
		c.layoutOK = true
	}
	if c.lvl == slog.AlwaysLevel && strings.Trim(c.msg, "\n\r \t") == "" {
		c.msg = "x" + c.msg
	}
	// attributes named like the envelope fields are ordinary attributes in colored mode; a "time" key holding
	// a time.Time is rendered by the timestamp path
	if r.P(12) {
		k := gen.Pick(r, []string{"time", "time", "level", "msg", "zzz-last"})
		v := r.Scalar("time", o)
		if k != "time" && r.Bool() {
			v = r.Scalar("str", o)
		}
		c.kvs = append(c.kvs, gen.KV{Key: k, Val: v})
	}
	return c
}

func sanitizeErrs(kvs []gen.KV) {
	for i := range kvs {
		v := &kvs[i].Val
		if v.Kind == "group" {
			sanitizeErrs(v.Items)
		}
		if v.Kind == "err" || v.Kind == "errv3" {
			clean := gen.Filter(v.Text, gen.StrOpt{NoCtl: true, NoESC: true, ValidUTF8: true})
			nv := gen.V{Kind: "err", Text: clean}
			nv.Go = fmt.Errorf("%s", clean)
			if v.Kind == "errv3" {
				// an error that carries a stack trace stays one (its dump has the trace's lines too)
				e := errorsv3.New("%s", clean)
				nv = gen.V{Kind: "errv3", Text: e.Error(), Go: e}
			}
			*v = nv
		}
	}
}

// skeleton lists every escape sequence and control byte of a payload in order.
func skeleton(p []byte) []string {
	var out []string
	for _, s := range oracle.ScanANSI(p) {
		if s.Esc {
			if s.SGR {
				// which colour the library chose is not this clause's business (and for levels without a
				// registered colour it is whatever C09 says); that an SGR sequence is there is.
				out = append(out, "SGR")
			} else {
				out = append(out, s.Text)
			}
			continue
		}
		for i := 0; i < len(s.Text); i++ {
			b := s.Text[i]
			if b < 0x20 || b == 0x7f {
				out = append(out, string([]byte{b}))
			}
		}
		// C1 CSI (0x9b) as a raw byte: only when not part of valid UTF-8
		t := s.Text
		for i := 0; i < len(t); {
			r, w := utf8.DecodeRuneInString(t[i:])
			if r == utf8.RuneError && w == 1 && t[i] == 0x9b {
				out = append(out, "\x9b")
			}
			i += w
		}
	}
	return out
}

// neutral replaces every control / ESC / invalid byte of the values by 'X' (same shape, harmless content).
func neutralKVs(kvs []gen.KV) []gen.KV {
	out := make([]gen.KV, len(kvs))
	for i, kv := range kvs {
		out[i] = gen.KV{Key: kv.Key, Val: neutralV(kv.Val)}
	}
	return out
}

func neutralS(s string) string {
	b := []byte(s)
	for i, c := range b {
		if c < 0x20 || c == 0x7f || c == 0x9b {
			b[i] = 'X'
		}
	}
	return string(b)
}

func neutralV(v gen.V) gen.V {
	switch v.Kind {
	case "str":
		v.Text = neutralS(v.Text)
		v.Go = v.Text
	case "bytes":
		v.Text = neutralS(v.Text)
		v.Go = []byte(v.Text)
	case "errv3":
		// stays an error with a stack trace (the same object when there is nothing to neutralise)
		if t := neutralS(v.Text); t != v.Text {
			e := errorsv3.New("%s", t)
			v.Text, v.Go = e.Error(), e
		}
	case "err":
		v.Text = neutralS(v.Text)
		v.Go = fmt.Errorf("%s", v.Text)
	case "stringer":
		v.Text = neutralS(v.Text)
		v.Go = gen.Stringer{S: v.Text}
	case "tostring":
		v.Text = neutralS(v.Text)
		v.Go = gen.ToStr{S: v.Text}
	case "textm":
		v.Text = neutralS(v.Text)
		v.Go = gen.TextM{S: v.Text}
	case "textmfail":
		v.Text = neutralS(v.Text)
		if _, ok := v.Go.(c06status); ok {
			v.Go = c06status(v.Text)
		} else {
			v.Go = gen.TextMFail{S: v.Text}
		}
	case "strs":
		s := make([]string, len(v.Elems))
		es := make([]gen.V, len(v.Elems))
		for i, e := range v.Elems {
			es[i] = neutralV(e)
			s[i] = es[i].Text
		}
		v.Elems, v.Go = es, s
	case "group":
		v.Items = neutralKVs(v.Items)
	case "struct":
		z := v.Go.(gen.PlainStruct)
		z.B = neutralS(z.B)
		v.Go = z
	case "structptr":
		z := *v.Go.(*gen.PlainStruct)
		z.B = neutralS(z.B)
		v.Go = &z
	case "map":
		m := map[string]any{}
		for k, x := range v.Go.(map[string]any) {
			m[neutralS(k)] = x
		}
		v.Go = m
	case "iface-slice":
		a := append([]any(nil), v.Go.([]any)...)
		if s, ok := a[0].(string); ok {
			a[0] = neutralS(s)
		}
		v.Go = a
	}
	return v
}

func c06main(c *Ctx) {
	registerHostileTitles() // only as attribute VALUES here: a Level value prints its title, a string like any other
	registerCustomLevels()
	if c.X("cwdgone", "") == "1" {
		// the working directory of the process has been removed under it (os.Getwd fails from now on): a record still
		// names its call site
		if d, err := os.MkdirTemp("", "c06-gone-*"); err == nil && os.Chdir(d) == nil {
			_ = os.Remove(d)
			c.R.Add("processes_whose_working_directory_was_removed", 1)
		}
	}
	if c.X("nocolormode", "") == "1" {
		// the application's process-wide "--no-color" switch (hedzr/is) is on: whatever a colored record then carries in
		// the way of escape sequences, it switches off again what it switches on
		is.SetNoColorMode(true)
		c.R.Add("processes_with_the_no_color_switch_on", 1)
	}
	log := mon.NewLog()
	w := mon.New(log, "W", mon.ShapePlain)
	c.Each(func(idx int, r *gen.R) {
		cs := c06gen(r, c.Testing)
		restore := withFlags(0, 0)
		defer restore()
		defer slog.SetLevelOutputWidth(3)
		defer slog.SetMessageMinimalWidth(36)
		otherFlags := randomOtherFlags(r, slog.Ldate, slog.Ltime, slog.Lmicroseconds, slog.LlocalTime, slog.Lattrs)
		// some logger of the process is (or was) at Debug level: that switches the process-wide debug mode on; the process
		// is neither a go test process nor run under a debugger for that
		if !c.Testing && r.P(10) {
			dbg := slog.New("dbg")
			dbg.SetLevel(slog.DebugLevel)
			c.R.Add("records_after_some_logger_was_set_to_debug_level", 1)
			defer is.SetDebugMode(false)
		}
		warm := r.Intn(6)
		c.R.Distinct("same_logger_logged_before_in", []string{"-", "-", "json", "logfmt", "color", "a record that panicked while being formatted (recovered)"}[warm])
		recolor := ""
		if cs.lvl == lvlRecolor {
			// any pair of the public colour constants, "no colour" included on either side
			fg := gen.Pick(r, []color.Color{color.NoColor, color.FgRed, color.FgLightBlue, color.FgDarkGray, color.FgDefault, color.FgWhite})
			bg := gen.Pick(r, []color.Color{color.NoColor, color.NoColor, color.BgBlue, color.BgUnderline, color.BgBoldOrBright, color.BgInverse, color.BgDefault, color.BgLightYellow})
			slog.SetLevelColors(lvlRecolor, fg, bg)
			recolor = fmt.Sprintf("fg=%d bg=%d", fg, bg)
			c.R.Distinct("level_colour_pairs_set", recolor)
		}
		bridgeToo := r.P(20)
		run := func(cs c06case) ([]byte, []tv) {
			if cs.caller {
				slog.AddFlags(slog.Lcaller)
			} else {
				slog.RemoveFlags(slog.Lcaller)
			}
			slog.SetLevelOutputWidth(cs.tagW)
			slog.SetMessageMinimalWidth(cs.minW)
			if cs.tsFlags != 0 {
				for i, b := range []slog.Flags{slog.Ldate, slog.Ltime, slog.Lmicroseconds} {
					if (cs.tsFlags-1)&(1<<i) != 0 {
						slog.AddFlags(b)
					} else {
						slog.RemoveFlags(b)
					}
				}
				c.R.Add("records_under_another_combination_of_the_date_time_flags", 1)
			}
			lg := newRoot(cs.name, FColor, w, slog.AlwaysLevel)
			if cs.tsLayout != "" {
				lg.SetTimeFormat(cs.tsLayout)
				c.R.Add("records_of_a_logger_with_its_own_timestamp_layout", 1)
			}
			// the logger is not always fresh and colored from its first record: it may have logged in another format, in
			// colour already (a multi-line record with attributes), or the record before this one died in a panicking value
			switch warm {
			case 2:
				lg.SetJSONMode(true)
				lg.Info("warm-up record in JSON", "w", 1)
				lg.SetColorMode(true)
			case 3:
				lg.SetColorMode(false)
				lg.Info("warm-up record in logfmt", "w", 1, slog.Group("wg", "x", 1))
				lg.SetColorMode(true)
			case 4:
				lg.Warn("warm-up record in colour\nsecond line\nthird", "w", 1, slog.Group("wg", "x", 1, "y", 2))
			case 5:
				doomedRecord(FColor, w)
			}
			// a destination IN FRONT of the recording one that takes a part of what it is given and reports no error (a
			// chunking device): the recording destination holds the one whole record all the same
			if idx%11 == 5 {
				lg.SetWriter(c06chunkW{}).AddWriter(w)
				lg.SetErrorWriter(c06chunkW{}).AddErrorWriter(w)
				c.R.Add("records_with_a_chunking_destination_in_front", 1)
			}
			evs := capture(log, func() { lg.WriteThru(bg, cs.lvl, cs.ts, cs.pc, cs.msg, withNils(attrsOf(cs.kvs), cs.nilAt)) })
			if idx%11 == 5 {
				// (whatever the library reports about the chunking destination is a record of its own: C13 and C04 judge it)
				var own []mon.Event
				for _, e := range evs {
					if e.Kind == mon.EvWrite && bytes.Contains(e.Data, []byte(diagText)) && len(own) > 0 {
						continue
					}
					own = append(own, e)
				}
				evs = own
			}
			c.R.Add("write_events", int64(len(evs)))
			if len(evs) != 1 || evs[0].Kind != mon.EvWrite {
				return nil, []tv{{"one-write", "count", fmt.Sprintf("expected exactly one Write, saw %s", fmtEvents(evs))}}
			}
			payload := evs[0].Data
			// differential hygiene: the same record with neutralised values must show the same escape/control skeleton
			n := cs
			n.kvs = neutralKVs(cs.kvs)
			evs2 := capture(log, func() { lg.WriteThru(bg, n.lvl, n.ts, n.pc, n.msg, withNils(attrsOf(n.kvs), n.nilAt)) })
			var vs []tv
			if len(evs2) == 1 {
				a, b := skeleton(payload), skeleton(evs2[0].Data)
				if strings.Join(a, "\x00|") != strings.Join(b, "\x00|") {
					vs = append(vs, tv{"raw-bytes-from-values", "skeleton", fmt.Sprintf("escape/control skeleton differs from the same record with neutralised values: %q vs %q", clipList(a), clipList(b))})
				}
			}
			vs = append(vs, c06check(payload, cs, c.Testing)...)
			// the same message through the bridge entry (WriteInternal: what a log.Logger built by NewLogLogger calls, with
			// the ONE line break log.Logger appends) reads exactly like the message issued directly, timestamp aside
			if len(vs) == 0 && bridgeToo {
				d1 := capture(log, func() { lg.WriteThru(bg, cs.lvl, cs.ts, cs.pc, cs.msg, nil) })
				d2 := capture(log, func() { _, _ = lg.WriteInternal(bg, cs.lvl, cs.pc, []byte(cs.msg+"\n")) })
				c.R.Add("messages_also_sent_through_the_bridge_entry", 1)
				if len(d1) == 1 && len(d2) == 1 {
					a, b := d1[0].Data, d2[0].Data
					if i, j := bytes.IndexByte(a, '|'), bytes.IndexByte(b, '|'); i > 0 && j > 0 && !bytes.Equal(a[i:], b[j:]) {
						vs = append(vs, tv{"layout-message", "bridge-entry", fmt.Sprintf("message %q: issued directly the record reads %q, through WriteInternal (message + one line break) it reads %q", clip(cs.msg, 80), clip(string(a[i:]), 300), clip(string(b[j:]), 300))})
					}
				} else {
					vs = append(vs, tv{"one-write", "bridge-entry", fmt.Sprintf("expected one Write each, saw %d and %d", len(d1), len(d2))})
				}
			}
			// the same logger through a public entry point, from a statement of the harness: the record ends with THAT call
			// site, whichever entry point it was (timestamp and attributes of such a record are judged elsewhere)
			if len(vs) == 0 && cs.caller && idx%4 == 1 {
				site := c06verbSites[(idx/4)%len(c06verbSites)]
				saved := slog.Default()
				if strings.HasPrefix(site.name, "pkg.") {
					slog.SetDefault(lg)
				}
				var pc uintptr
				ev3 := capture(log, func() { pc = site.call(lg, "via-an-entry-point") })
				slog.SetDefault(saved)
				c.R.Add("records_through_a_public_entry_point_judged_for_their_call_site", 1)
				fr, _ := runtime.CallersFrames([]uintptr{pc}).Next()
				fn := fr.Function
				if i := strings.LastIndex(fn, "/"); i >= 0 {
					fn = fn[i+1:]
				}
				wantTail := fmt.Sprintf("%s:%d %s", filepath.Base(fr.File), fr.Line, fn)
				if len(ev3) != 1 {
					vs = append(vs, tv{"one-write", "entry-point", fmt.Sprintf("%s: expected one Write, saw %d", site.name, len(ev3))})
				} else if first := strings.SplitN(string(oracle.StripANSI(ev3[0].Data)), "\n", 2)[0]; !strings.HasSuffix(strings.TrimRight(first, " "), wantTail) {
					vs = append(vs, tv{"layout-caller", "entry-point/" + site.name, fmt.Sprintf("a record issued through %s does not end with its call site %s: %q", site.name, wantTail, clip(first, 300))})
				}
			}
			return payload, vs
		}
		// a severity that is logged BEFORE it is registered and again afterwards (registration changes its tag and colours)
		if r.P(8) {
			lateLevel := slog.Level(3000 + idx)
			pre := cs
			pre.lvl = lateLevel
			pre.kvs = nil
			_, _ = run(pre) // unregistered: tag L#3…
			title := fmt.Sprintf("LATE%d", idx)
			_ = slog.RegisterLevel(lateLevel, title, slog.RegWithShortTags([6]string{"", "l", "lt", "lte", "late", "late!"}), slog.RegWithColor(color.FgLightGreen))
			cs.lvl = lateLevel
			c.R.Add("levels_registered_between_two_records", 1)
		}
		desc := cs.desc(FColor)
		desc["ts"] = cs.ts.Format(time.RFC3339Nano)
		desc["tag_width"], desc["min_width"], desc["layout_domain"], desc["other_flags"] = cs.tagW, cs.minW, cs.layoutOK, otherFlags
		desc["logger_time_layout"], desc["date_time_flags"] = cs.tsLayout, map[bool]any{true: "factory", false: cs.tsFlags - 1}[cs.tsFlags == 0]
		desc["level_colours_set"] = recolor
		desc["same_logger_logged_before_in"] = []string{"-", "-", "json", "logfmt", "color", "a record that panicked while being formatted (recovered)"}[warm]
		payload, viols := run(cs)
		if len(viols) == 0 {
			c.R.Add("records_decoded", 1)
			if cs.layoutOK {
				c.R.Add("layout_checked", 1)
			}
			c.R.Add("sgr_sequences_simulated", int64(bytes.Count(payload, []byte{0x1b})))
			c.R.Distinct("levels", cs.lvl.String())
			c.R.Distinct("tag_widths", fmt.Sprint(cs.tagW))
			for _, k := range kindsOf(cs.kvs) {
				c.R.Distinct("value_kinds", k)
			}
			c.R.NonTrivial(string(payload))
			if c.R.WantSample() && len(cs.kvs) > 1 {
				c.R.Sample(idx, desc, map[string]any{"payload": string(payload)})
			}
			if idx%6 == 4 {
				// an attribute LIST handed over as the VALUE of a plain key ("user", NewAttrs(...)); next to it attributes whose
				// keys sort around the holder's and one that is named like a member: the members are printed under the holder's
				// name, in key order, and the others as always
				lg := newRoot(cs.name, FColor, w, slog.AlwaysLevel)
				evs := capture(log, func() {
					lg.Info("list-as-value", "zz", 1, "user", slog.NewAttrs("name", "ann", "id", 7), "id", "top", "aa", true)
				})
				if len(evs) == 1 {
					first := strings.SplitN(string(oracle.StripANSI(evs[0].Data)), "\n", 2)[0]
					toks := strings.Fields(first)
					pos := map[string]int{}
					for i, t := range toks {
						if _, dup := pos[t]; !dup {
							pos[t] = i + 1
						}
					}
					order := []string{"aa=true", `id="top"`, "user.id=7", `user.name="ann"`, "zz=1"}
					last, why := 0, ""
					for _, t := range order {
						if pos[t] == 0 {
							why = fmt.Sprintf("the token %s is missing", t)
							break
						}
						if pos[t] < last {
							why = fmt.Sprintf("the token %s is out of key order", t)
							break
						}
						last = pos[t]
					}
					if why == "" && (pos["id=7"] != 0 || pos[`name="ann"`] != 0) {
						why = "a member of the list is printed without the name of its holder"
					}
					if why != "" {
						c.R.Violation(idx, "layout-attrs", "C06/layout-attrs/attribute-list-as-a-value", fmt.Sprintf("Info(msg, zz=1, user=NewAttrs(name, id), id=\"top\", aa=true): %s: %q", why, clip(first, 400)), desc)
						return
					}
					c.R.Add("records_with_an_attribute_list_as_a_value", 1)
				}
			}
			return
		}
		culprits, residual := explain(cs.recCase, func(rc recCase) ([]byte, []tv) {
			x := cs
			x.recCase = rc
			if rc.msg == "m" && len(rc.kvs) == 1 {
				x.layoutOK = true
			}
			return run(x)
		})
		for _, cu := range culprits {
			c.R.Violation(idx, "attribute-alone", "C06/alone/"+cu.class, cu.detail, desc)
		}
		for _, v := range residual {
			c.R.Violation(idx, v.clause, "C06/"+v.clause+"/"+v.feature, v.detail+"\npayload: "+q(clip(string(payload), 1500)), desc)
		}
	})
}

// c06status is a defined string type without methods.
type c06status string

// c06chunkW takes at most 48 bytes of what it is given and says so, without an error.
type c06chunkW struct{}

func (c06chunkW) Write(p []byte) (int, error) {
	if len(p) > 48 {
		return 48, nil
	}
	return len(p), nil
}

func clipList(a []string) []string {
	if len(a) > 40 {
		return append(append([]string{}, a[:40]...), "…")
	}
	return a
}

func sortedLeaves(kvs []gen.KV, prefix string) []match.Leaf {
	ks := append([]gen.KV(nil), kvs...)
	sort.SliceStable(ks, func(i, j int) bool { return ks[i].Key < ks[j].Key })
	var out []match.Leaf
	for _, kv := range ks {
		k := kv.Key
		if prefix != "" {
			k = prefix + "." + kv.Key
		}
		if kv.Val.Kind == "group" {
			out = append(out, sortedLeaves(kv.Val.Items, k)...)
		} else {
			out = append(out, match.Leaf{Key: k, Val: kv.Val})
		}
	}
	return out
}

func hasErr(kvs []gen.KV) bool {
	for _, kv := range kvs {
		if kv.Val.Kind == "err" || kv.Val.Kind == "errv3" {
			return true
		}
		if kv.Val.Kind == "group" && hasErr(kv.Val.Items) {
			return true
		}
	}
	return false
}

func c06check(payload []byte, cs c06case, testing bool) (out []tv) {
	if len(payload) == 0 || payload[len(payload)-1] != '\n' {
		return []tv{{"framing", "no-newline", "payload does not end with a newline"}}
	}
	// message lines
	m := cs.msg
	eol := strings.HasSuffix(m, "\n")
	if eol {
		m = strings.TrimRight(m, "\n\r")
	}
	lines := strings.Split(m, "\n")
	rest := lines[1:]
	dump := testing && hasErr(cs.kvs)

	// (a) colour hygiene: SGR state must be default at every LF and at the end
	leaks, nonSGR := oracle.SimulateSGR(payload)
	mainLFs := 1 + len(rest) // LFs that belong to the record proper (before any error dump)
	lfSeen := 0
	lfOffsets := []int{}
	for i, b := range payload {
		if b == '\n' {
			lfOffsets = append(lfOffsets, i)
		}
	}
	_ = lfSeen
	for _, lk := range leaks {
		if lk.Where == "LF" && dump {
			// which LF is it?
			n := sort.SearchInts(lfOffsets, lk.Off)
			if n >= mainLFs-1 {
				continue // inside the multi-line error dump: one colour may span its lines
			}
		}
		out = append(out, tv{"sgr-leak", lk.Where, fmt.Sprintf("colour state not default at %s (offset %d): %s", lk.Where, lk.Off, lk.State)})
		break
	}
	for _, s := range nonSGR {
		out = append(out, tv{"non-sgr-escape", "seq", fmt.Sprintf("escape sequence that is not SGR at offset %d: %q", s.Off, s.Text)})
		break
	}
	if !cs.layoutOK {
		return
	}
	// (b) layout
	text := oracle.StripANSI(payload)
	tsText := cs.ts.Format(slog.TimeNano) // default flags: time + microseconds, zone of the instant
	prefix := tsText + "| "
	if cs.tsLayout != "" || cs.tsFlags != 0 {
		// the instant in the application's layout / the layout its flags select (which instant, zone and layout: C16); a
		// record begins with a timestamp and goes on after the bar
		i := strings.Index(text, "| ")
		if i < 0 {
			return append(out, tv{"layout-prefix", "prefix", fmt.Sprintf("record text %q has no timestamp bar", clip(text, 120))})
		}
		if strings.TrimSpace(text[:i]) == "" {
			return append(out, tv{"layout-prefix", "no-timestamp", fmt.Sprintf("record text %q does not begin with a timestamp", clip(text, 120))})
		}
		prefix = text[:i+2]
	}
	if cs.name != "" {
		prefix += cs.name + " "
	}
	// the tag itself: as wide as configured (in characters - or in bytes, for tags outside ASCII); the given tag where
	// the registration gave one for that width
	if rest := strings.TrimPrefix(text, prefix); rest != text && strings.HasPrefix(rest, "[") {
		if j := strings.Index(rest, "] "); j >= 0 {
			tag := rest[1:j]
			if n := utf8.RuneCountInString(tag); n != cs.tagW && len(tag) != cs.tagW {
				return append(out, tv{"layout-prefix", "tag-width", fmt.Sprintf("the level tag %q has %d character(s), the configured width is %d", tag, n, cs.tagW)})
			}
			if given, ok := c06givenTags[cs.lvl]; ok && given[cs.tagW] != "" && tag != given[cs.tagW] {
				return append(out, tv{"layout-prefix", "tag-given", fmt.Sprintf("the level tag is %q, the registration gave %q for width %d", tag, given[cs.tagW], cs.tagW)})
			}
		}
	}
	prefix += "[" + cs.lvl.ShortTag(cs.tagW) + "] "
	if !strings.HasPrefix(text, prefix) {
		return append(out, tv{"layout-prefix", "prefix", fmt.Sprintf("record text %q does not start with %q", clip(text, 120), prefix)})
	}
	body := text[len(prefix):]
	first := lines[0]
	if !strings.HasPrefix(body, first) {
		feat := "first-line"
		if strings.TrimLeft(first, " ") != first || first == "" {
			feat = "leading-blank"
		}
		return append(out, tv{"layout-message", feat, fmt.Sprintf("after the level tag the text %q does not start with the first message line %q", clip(body, 100), clip(first, 100))})
	}
	body = body[len(first):]
	// padding: to the minimal width, in bytes or in runes
	padB, padR := cs.minW-len(first), cs.minW-utf8.RuneCountInString(first)
	nsp := 0
	for nsp < len(body) && body[nsp] == ' ' {
		nsp++
	}
	leaves := sortedLeaves(cs.kvs, "")
	nl := strings.IndexByte(body, '\n')
	mainRest := body[:nl]
	tail := body[nl:]
	// after the padding come: (" " + attr)* [" " file:line " " func]
	extra := 0
	if len(strings.TrimLeft(mainRest, " ")) > 0 {
		extra = 1 // the separating blank of the first attribute / caller
	}
	okPad := func(p int) bool {
		if p < 0 {
			p = 0
		}
		return nsp >= p+extra && (nsp == p+extra || len(cs.kvs) > 0 && emptyGroupsFirst(cs.kvs) > 0 && nsp <= p+extra+emptyGroupsFirst(cs.kvs)*2+2)
	}
	if !okPad(padB) && !okPad(padR) {
		feat := "width"
		if first == "" || strings.TrimLeft(first, " ") != first {
			feat = "leading-blank"
		}
		out = append(out, tv{"layout-padding", feat, fmt.Sprintf("first line %q (len %d) followed by %d blanks; minimal width %d wants %d (+%d separator)", clip(first, 60), len(first), nsp, cs.minW, max0(padB), extra)})
	}
	if cs.tsLayout != "" {
		// an attribute named "time" that holds an instant is written by the timestamp path (in the application's layout,
		// up to and including a bar): its blanks are the layout's, not token separators
		for _, l := range leaves {
			if l.Key == "time" && l.Val.Kind == "time" {
				if i := strings.Index(mainRest, " time="); i >= 0 {
					if j := strings.IndexByte(mainRest[i:], '|'); j > 0 {
						mainRest = mainRest[:i+1] + strings.ReplaceAll(strings.ReplaceAll(mainRest[i+1:i+j], " ", "_"), ",", "_") + mainRest[i+j:]
					}
				}
			}
		}
	}
	pairs, err := oracle.ParseColoredText([]byte(mainRest))
	if err != nil {
		return append(out, tv{"layout-attrs", "tokenize", err.Error()})
	}
	if cs.caller {
		// the expectation comes from the Go runtime's own tables, not from the library: line and function exactly, the
		// file by its base name (how a path is shortened is C18's subject)
		fr, _ := runtime.CallersFrames([]uintptr{cs.pc}).Next()
		fn := fr.Function
		if i := strings.LastIndex(fn, "/"); i >= 0 {
			fn = fn[i+1:]
		}
		ok := len(pairs) >= 2 && pairs[len(pairs)-1].Raw == fn
		if ok {
			loc := pairs[len(pairs)-2].Raw
			if pairs[len(pairs)-2].HasKey {
				loc = pairs[len(pairs)-2].Key + "=" + loc
			}
			i := strings.LastIndex(loc, ":")
			ok = i > 0 && loc[i+1:] == strconv.Itoa(fr.Line) && filepath.Base(loc[:i]) == filepath.Base(fr.File)
		}
		if !ok {
			out = append(out, tv{"layout-caller", "caller", fmt.Sprintf("record does not end with the call site %s:%d %s: %q", filepath.Base(fr.File), fr.Line, fn, clip(mainRest, 200))})
		} else {
			pairs = pairs[:len(pairs)-2]
		}
	}
	if len(pairs) != len(leaves) {
		bare := 0
		for _, p := range pairs {
			if !p.HasKey {
				bare++
			}
		}
		feat := "count"
		if bare > 0 {
			feat = "bare-value"
		}
		out = append(out, tv{"layout-attrs", feat, fmt.Sprintf("%d key=value tokens for %d attributes (%d without key): %q", len(pairs), len(leaves), bare, clip(mainRest, 300))})
	} else {
		for i, p := range pairs {
			l := leaves[i]
			if !p.HasKey || p.Key != l.Key {
				out = append(out, tv{"layout-attrs", "order-or-key", fmt.Sprintf("token #%d is %q, expected key %q (ascending key order)", i, clip(p.Key+"="+p.Raw, 80), l.Key)})
				break
			}
			if l.Key == "time" && l.Val.Kind == "time" {
				continue // printed in the record's timestamp layout; which layout is not part of this property
			}
			if l.Val.Kind == "textmfail" {
				continue // a marshaller that failed has no value to compare; what it may NOT do is judged by the escape/control skeleton
			}
			if ok, why := match.Text(p, l.Val, true); !ok {
				out = append(out, tv{"layout-value", valueClass(l.Val), fmt.Sprintf("%s: %s", clip(p.Key, 60), why)})
				break
			}
		}
	}
	// tail: remaining message lines indented by four spaces
	want := ""
	for _, ln := range rest {
		want += "\n    " + ln
	}
	if !dump {
		w1, w2 := want+"\n", want+"\n\n"
		if !(tail == w1 || (eol && len(rest) > 0 && tail == w2)) {
			out = append(out, tv{"layout-rest-lines", "indent", fmt.Sprintf("after the first line the record reads %q, expected %q", clip(tail, 200), clip(w1, 200))})
		}
	} else if !strings.HasPrefix(tail, want+"\n") {
		out = append(out, tv{"layout-rest-lines", "indent", fmt.Sprintf("after the first line the record reads %q, expected it to start with %q", clip(tail, 200), clip(want, 200))})
	}
	if len(out) > 5 {
		out = out[:5]
	}
	return
}

func max0(a int) int {
	if a < 0 {
		return 0
	}
	return a
}

// emptyGroupsFirst counts groups that sort before the first non-group attribute and print
// nothing but their separators (they widen the run of blanks after the message).
func emptyGroupsFirst(kvs []gen.KV) int {
	ks := append([]gen.KV(nil), kvs...)
	sort.SliceStable(ks, func(i, j int) bool { return ks[i].Key < ks[j].Key })
	n := 0
	for _, kv := range ks {
		if kv.Val.Kind != "group" {
			break
		}
		n += 1 + countGroups(kv.Val)
	}
	return n
}

func countGroups(v gen.V) int {
	n := 0
	for _, it := range v.Items {
		if it.Val.Kind == "group" {
			n += 1 + countGroups(it.Val)
		}
	}
	return n
}
