package main

import (
	"bytes"
	"context"
	"errors"
	"fmt"
	hedzrstates "github.com/hedzr/is/states"
	"io"
	"io/fs"
	stdslog "log/slog"
	"os"
	"path/filepath"
	"strings"
	"time"

	"github.com/hedzr/is"
	"github.com/hedzr/is/term/color"
	"github.com/hedzr/logg/slog"

	"verifharness/gen"
	"verifharness/mon"
)

func init() { reg("C01", "table", c01table) }

type custLevel struct {
	val     slog.Level
	title   string
	treatAs slog.Level // -1: none
	errDev  bool
	colours int // 0: none given, 1: a foreground colour only, 2: foreground and background
}

// ep is one public way of issuing a record.
type ep struct {
	name    string
	fixed   bool       // carries its own severity
	sev     slog.Level // the severity when fixed
	std     bool       // takes a log/slog level
	stdLvl  stdslog.Level
	verbose bool // must never emit
	pkg     bool // package-level function on the default logger
	call    func(l slog.Logger, ctx context.Context, sev slog.Level)
}

var builtinTreatAs = map[slog.Level]slog.Level{slog.OKLevel: slog.InfoLevel, slog.SuccessLevel: slog.InfoLevel, slog.FailLevel: slog.ErrorLevel}

// admit is the reference rule written from the property statement.
func admit(L, r slog.Level, debug bool, treat map[slog.Level]slog.Level) bool {
	if L == slog.OffLevel || r == slog.OffLevel {
		return false
	}
	if L == slog.AlwaysLevel || r == slog.AlwaysLevel {
		return true
	}
	if debug && r == slog.DebugLevel {
		return true
	}
	if t, ok := treat[r]; ok {
		r = t
	}
	return r <= L // not less severe than the logger's level (smaller number = more severe)
}

func entryPoints() []ep {
	m := "gate-probe"
	var eps []ep
	fx := func(name string, sev slog.Level, f func(l slog.Logger, ctx context.Context)) {
		eps = append(eps, ep{name: name, fixed: true, sev: sev, call: func(l slog.Logger, ctx context.Context, _ slog.Level) { f(l, ctx) }})
	}
	fx("Panic", slog.PanicLevel, func(l slog.Logger, _ context.Context) { l.Panic(m, "a", 1) })
	fx("Fatal", slog.FatalLevel, func(l slog.Logger, _ context.Context) { l.Fatal(m, "a", 1) })
	fx("Error", slog.ErrorLevel, func(l slog.Logger, _ context.Context) { l.Error(m, "a", 1) })
	fx("Warn", slog.WarnLevel, func(l slog.Logger, _ context.Context) { l.Warn(m, "a", 1) })
	fx("Info", slog.InfoLevel, func(l slog.Logger, _ context.Context) { l.Info(m, "a", 1) })
	fx("Debug", slog.DebugLevel, func(l slog.Logger, _ context.Context) { l.Debug(m, "a", 1) })
	fx("Trace", slog.TraceLevel, func(l slog.Logger, _ context.Context) { l.Trace(m, "a", 1) })
	fx("Print", slog.AlwaysLevel, func(l slog.Logger, _ context.Context) { l.Print(m, "a", 1) })
	fx("Println", slog.AlwaysLevel, func(l slog.Logger, _ context.Context) { l.Println(m, "a", 1) })
	fx("OK", slog.OKLevel, func(l slog.Logger, _ context.Context) { l.OK(m, "a", 1) })
	fx("Success", slog.SuccessLevel, func(l slog.Logger, _ context.Context) { l.Success(m, "a", 1) })
	fx("Fail", slog.FailLevel, func(l slog.Logger, _ context.Context) { l.Fail(m, "a", 1) })
	fx("PanicContext", slog.PanicLevel, func(l slog.Logger, c context.Context) { l.PanicContext(c, m, "a", 1) })
	fx("FatalContext", slog.FatalLevel, func(l slog.Logger, c context.Context) { l.FatalContext(c, m, "a", 1) })
	fx("ErrorContext", slog.ErrorLevel, func(l slog.Logger, c context.Context) { l.ErrorContext(c, m, "a", 1) })
	fx("WarnContext", slog.WarnLevel, func(l slog.Logger, c context.Context) { l.WarnContext(c, m, "a", 1) })
	fx("InfoContext", slog.InfoLevel, func(l slog.Logger, c context.Context) { l.InfoContext(c, m, "a", 1) })
	fx("DebugContext", slog.DebugLevel, func(l slog.Logger, c context.Context) { l.DebugContext(c, m, "a", 1) })
	fx("TraceContext", slog.TraceLevel, func(l slog.Logger, c context.Context) { l.TraceContext(c, m, "a", 1) })
	fx("PrintContext", slog.AlwaysLevel, func(l slog.Logger, c context.Context) { l.PrintContext(c, m, "a", 1) })
	fx("PrintlnContext", slog.AlwaysLevel, func(l slog.Logger, c context.Context) { l.PrintlnContext(c, m, "a", 1) })
	fx("OKContext", slog.OKLevel, func(l slog.Logger, c context.Context) { l.OKContext(c, m, "a", 1) })
	fx("SuccessContext", slog.SuccessLevel, func(l slog.Logger, c context.Context) { l.SuccessContext(c, m, "a", 1) })
	fx("FailContext", slog.FailLevel, func(l slog.Logger, c context.Context) { l.FailContext(c, m, "a", 1) })
	fx("Infof", slog.InfoLevel, func(l slog.Logger, _ context.Context) { _ = l.Infof("%s %d", m, 1) })
	fx("Warnf", slog.WarnLevel, func(l slog.Logger, _ context.Context) { _ = l.Warnf("%s %d", m, 1) })
	fx("Errorf", slog.ErrorLevel, func(l slog.Logger, _ context.Context) { _ = l.Errorf("%s %d", m, 1) })
	// the same rule for calls that carry nothing but a blank message (no attributes at all)
	fx("Error(blank)", slog.ErrorLevel, func(l slog.Logger, _ context.Context) { l.Error("") })
	fx("Info(blank)", slog.InfoLevel, func(l slog.Logger, _ context.Context) { l.Info(" ") })
	fx("WarnContext(blank)", slog.WarnLevel, func(l slog.Logger, c context.Context) { l.WarnContext(c, "\n") })
	fx("DebugContext(blank)", slog.DebugLevel, func(l slog.Logger, c context.Context) { l.DebugContext(c, " \t ") })
	fx("OK(blank)", slog.OKLevel, func(l slog.Logger, _ context.Context) { l.OK("") })
	fx("Print(blank)", slog.AlwaysLevel, func(l slog.Logger, _ context.Context) { l.Print("") })
	fx("Println()", slog.AlwaysLevel, func(l slog.Logger, _ context.Context) { l.Println() })
	fx("Println(blank)", slog.AlwaysLevel, func(l slog.Logger, _ context.Context) { l.Println("") })
	fx("PrintlnContext(blank)", slog.AlwaysLevel, func(l slog.Logger, c context.Context) { l.PrintlnContext(c, " ") })
	eps = append(eps, ep{name: "LogAttrs(blank)", call: func(l slog.Logger, c context.Context, s slog.Level) { l.LogAttrs(c, s, "") }})
	eps = append(eps, ep{name: "Logit(blank)", call: func(l slog.Logger, c context.Context, s slog.Level) { l.Logit(c, s, "\r\n") }})
	eps = append(eps, ep{name: "LogAttrs", call: func(l slog.Logger, c context.Context, s slog.Level) { l.LogAttrs(c, s, m, "a", 1) }})
	eps = append(eps, ep{name: "Logit", call: func(l slog.Logger, c context.Context, s slog.Level) { l.Logit(c, s, m, "a", 1) }})
	for _, sl := range []struct {
		n string
		l stdslog.Level
		s slog.Level
	}{{"Debug", stdslog.LevelDebug, slog.DebugLevel}, {"Info", stdslog.LevelInfo, slog.InfoLevel}, {"Warn", stdslog.LevelWarn, slog.WarnLevel}, {"Error", stdslog.LevelError, slog.ErrorLevel},
		{"Verbose", slog.LevelVerbose, slog.TraceLevel}, {"Trace", slog.LevelTrace, slog.TraceLevel}, {"Notice", slog.LevelNotice, slog.InfoLevel}, {"Hint", slog.LevelHint, slog.InfoLevel},
		{"Fatal", slog.LevelFatal, slog.FatalLevel}, {"Panic", slog.LevelPanic, slog.PanicLevel}} {
		sl := sl
		eps = append(eps, ep{name: "Log(std." + sl.n + ")", fixed: true, sev: sl.s, std: true, stdLvl: sl.l,
			call: func(l slog.Logger, c context.Context, _ slog.Level) { l.Log(c, sl.l, m, "a", 1) }})
	}
	eps = append(eps, ep{name: "Verbose", verbose: true, fixed: true, sev: slog.AlwaysLevel, call: func(l slog.Logger, c context.Context, _ slog.Level) { l.Verbose(m, "a", 1) }})
	eps = append(eps, ep{name: "VerboseContext", verbose: true, fixed: true, sev: slog.AlwaysLevel, call: func(l slog.Logger, c context.Context, _ slog.Level) { l.VerboseContext(c, m, "a", 1) }})
	// package-level twins on the default logger
	px := func(name string, sev slog.Level, f func(ctx context.Context)) {
		eps = append(eps, ep{name: "pkg." + name, fixed: true, sev: sev, pkg: true, call: func(_ slog.Logger, ctx context.Context, _ slog.Level) { f(ctx) }})
	}
	px("Println()", slog.AlwaysLevel, func(context.Context) { slog.Println() })
	px("Warn(blank)", slog.WarnLevel, func(context.Context) { slog.Warn("") })
	px("TraceContext(blank)", slog.TraceLevel, func(c context.Context) { slog.TraceContext(c, " ") })
	px("Panic", slog.PanicLevel, func(context.Context) { slog.Panic(m, "a", 1) })
	px("Fatal", slog.FatalLevel, func(context.Context) { slog.Fatal(m, "a", 1) })
	px("Error", slog.ErrorLevel, func(context.Context) { slog.Error(m, "a", 1) })
	px("Warn", slog.WarnLevel, func(context.Context) { slog.Warn(m, "a", 1) })
	px("Info", slog.InfoLevel, func(context.Context) { slog.Info(m, "a", 1) })
	px("Debug", slog.DebugLevel, func(context.Context) { slog.Debug(m, "a", 1) })
	px("Trace", slog.TraceLevel, func(context.Context) { slog.Trace(m, "a", 1) })
	px("Print", slog.AlwaysLevel, func(context.Context) { slog.Print(m, "a", 1) })
	px("Println", slog.AlwaysLevel, func(context.Context) { slog.Println(m, "a", 1) })
	px("OK", slog.OKLevel, func(context.Context) { slog.OK(m, "a", 1) })
	px("Success", slog.SuccessLevel, func(context.Context) { slog.Success(m, "a", 1) })
	px("Fail", slog.FailLevel, func(context.Context) { slog.Fail(m, "a", 1) })
	px("PanicContext", slog.PanicLevel, func(c context.Context) { slog.PanicContext(c, m, "a", 1) })
	px("FatalContext", slog.FatalLevel, func(c context.Context) { slog.FatalContext(c, m, "a", 1) })
	px("ErrorContext", slog.ErrorLevel, func(c context.Context) { slog.ErrorContext(c, m, "a", 1) })
	px("WarnContext", slog.WarnLevel, func(c context.Context) { slog.WarnContext(c, m, "a", 1) })
	px("InfoContext", slog.InfoLevel, func(c context.Context) { slog.InfoContext(c, m, "a", 1) })
	px("DebugContext", slog.DebugLevel, func(c context.Context) { slog.DebugContext(c, m, "a", 1) })
	px("TraceContext", slog.TraceLevel, func(c context.Context) { slog.TraceContext(c, m, "a", 1) })
	px("PrintContext", slog.AlwaysLevel, func(c context.Context) { slog.PrintContext(c, m, "a", 1) })
	px("PrintlnContext", slog.AlwaysLevel, func(c context.Context) { slog.PrintlnContext(c, m, "a", 1) })
	px("OKContext", slog.OKLevel, func(c context.Context) { slog.OKContext(c, m, "a", 1) })
	px("SuccessContext", slog.SuccessLevel, func(c context.Context) { slog.SuccessContext(c, m, "a", 1) })
	px("FailContext", slog.FailLevel, func(c context.Context) { slog.FailContext(c, m, "a", 1) })
	eps = append(eps, ep{name: "pkg.Verbose", verbose: true, fixed: true, pkg: true, sev: slog.AlwaysLevel, call: func(_ slog.Logger, c context.Context, _ slog.Level) { slog.Verbose(m, "a", 1) }})
	eps = append(eps, ep{name: "pkg.VerboseContext", verbose: true, fixed: true, pkg: true, sev: slog.AlwaysLevel, call: func(_ slog.Logger, c context.Context, _ slog.Level) { slog.VerboseContext(c, m, "a", 1) }})
	return eps
}

var builtinLevels = []slog.Level{slog.PanicLevel, slog.FatalLevel, slog.ErrorLevel, slog.WarnLevel, slog.InfoLevel, slog.DebugLevel, slog.TraceLevel, slog.OffLevel, slog.AlwaysLevel, slog.OKLevel, slog.SuccessLevel, slog.FailLevel}

// genRegistry draws a set of custom levels (the built-ins occupy 0..11 densely).
func genRegistry(r *gen.R) []custLevel {
	n := r.Range(2, 5)
	cands := []slog.Level{-1, -7, -50, 12, 13, 17, 20, 33, 64, 1000}
	// "any numeric value": values that do not fit 32 bits (their low 32 bits are 0, 3 = Warn, -2 and 7 = Off)
	huge := []slog.Level{1 << 40, -(1 << 40), 1<<32 + 3, -(1 << 32) - 2, 1<<33 + 7}
	r.Shuffle(len(cands), func(i, j int) { cands[i], cands[j] = cands[j], cands[i] })
	if r.P(50) {
		cands[0] = gen.Pick(r, huge)
		if r.P(50) {
			cands[1] = gen.Pick(r, huge)
			for cands[1] == cands[0] {
				cands[1] = gen.Pick(r, huge)
			}
		}
	}
	var out []custLevel
	for i := 0; i < n; i++ {
		cl := custLevel{val: cands[i], title: fmt.Sprintf("cust%d", i), treatAs: -1}
		if i%3 == 2 {
			// (a short title in another script: fewer characters than the width of the level tag, more bytes than it)
			cl.title = []string{"\u6ce8\u610f", "\u00e9\u00e0", "\u0416\u0443"}[(i/3)%3]
			if i >= 9 {
				cl.title = fmt.Sprintf("%s%d", cl.title, i) // (unique)
			}
		}
		if r.P(65) {
			cl.treatAs = gen.Pick(r, []slog.Level{slog.ErrorLevel, slog.WarnLevel, slog.InfoLevel, slog.DebugLevel, slog.TraceLevel, slog.PanicLevel})
		}
		cl.errDev = r.P(40)
		cl.colours = r.Intn(3)
		out = append(out, cl)
	}
	return out
}

// refusedAttempts issues registrations that must be refused (a fresh value with a title that is taken, a value that is
// taken with a fresh title), each carrying a treated-as level and the error-device request: a refused registration
// leaves no trace, so the admission rule afterwards is that of the successful registrations alone.
func refusedAttempts(r *gen.R, cs []custLevel) (n int, accepted []string) {
	taken := []string{"warning", "error", "info", "debug", "trace", "panic", "fatal", "ok", "success", "fail", "always", "off"}
	// the first level that will be registered WITHOUT a treated-as level always gets a refused attempt for its own value
	// that carries one (whatever the generator draws for the others): what the refused call asked for must not stick
	firstPlain := -1
	for i, cl := range cs {
		if cl.treatAs < 0 && firstPlain < 0 {
			firstPlain = i
		}
	}
	for i, cl := range cs {
		forced := i == firstPlain
		if !r.P(60) && !forced {
			continue
		}
		x := gen.Pick(r, []slog.Level{slog.ErrorLevel, slog.WarnLevel, slog.InfoLevel, slog.DebugLevel, slog.TraceLevel, slog.PanicLevel})
		var err error
		var what string
		kind := r.IntN(3)
		if forced {
			kind = 0
		}
		switch kind {
		case 0: // the value about to be registered, under a title that is in use
			t := gen.Pick(r, taken)
			what = fmt.Sprintf("RegisterLevel(%d,%q,treatAs=%v,errdev)", cl.val, t, x)
			err = slog.RegisterLevel(cl.val, t, slog.RegWithTreatedAsLevel(x), slog.RegWithPrintToErrorDevice(true))
		case 1: // a built-in value under a fresh title
			v := gen.Pick(r, builtinLevels)
			what = fmt.Sprintf("RegisterLevel(%d,%q,treatAs=%v,errdev)", v, fmt.Sprintf("fresh%d", i), x)
			err = slog.RegisterLevel(v, fmt.Sprintf("fresh%d", i), slog.RegWithTreatedAsLevel(x), slog.RegWithPrintToErrorDevice(true))
		default: // the value about to be registered, under the title of an earlier custom level (if any)
			t := "warning"
			if i > 0 && cs[i-1].val.String() == cs[i-1].title {
				t = cs[i-1].title
			}
			what = fmt.Sprintf("RegisterLevel(%d,%q,treatAs=%v,errdev)", cl.val, t, x)
			err = slog.RegisterLevel(cl.val, t, slog.RegWithTreatedAsLevel(x), slog.RegWithPrintToErrorDevice(true))
		}
		n++
		if err == nil {
			accepted = append(accepted, what)
		}
		// the successful registration of cs[i] follows in registerOne
		if e2 := registerOne(cl); e2 != nil && err != nil {
			accepted = append(accepted, "then refused: "+e2.Error())
		}
	}
	return
}

// c01firstHolder is the state holder hedzr/is started with; c01holder is one an application installs instead.
var c01firstHolder = hedzrstates.Env()

type c01holder struct {
	debug, trace, noColor, verbose, quiet bool
	dl, tl, nc, vc, qc                    int
}

func (h *c01holder) InDebugging() bool       { return false }
func (h *c01holder) GetDebugMode() bool      { return h.debug }
func (h *c01holder) SetDebugMode(b bool)     { h.debug = b }
func (h *c01holder) GetDebugLevel() int      { return h.dl }
func (h *c01holder) SetDebugLevel(n int)     { h.dl = n }
func (h *c01holder) GetTraceMode() bool      { return h.trace }
func (h *c01holder) SetTraceMode(b bool)     { h.trace = b }
func (h *c01holder) GetTraceLevel() int      { return h.tl }
func (h *c01holder) SetTraceLevel(n int)     { h.tl = n }
func (h *c01holder) IsNoColorMode() bool     { return h.noColor }
func (h *c01holder) SetNoColorMode(b bool)   { h.noColor = b }
func (h *c01holder) CountOfNoColor() int     { return h.nc }
func (h *c01holder) SetNoColorCount(n int)   { h.nc = n }
func (h *c01holder) IsVerboseMode() bool     { return h.verbose }
func (h *c01holder) IsVerboseModePure() bool { return h.verbose }
func (h *c01holder) SetVerboseMode(b bool)   { h.verbose = b }
func (h *c01holder) CountOfVerbose() int     { return h.vc }
func (h *c01holder) SetVerboseCount(n int)   { h.vc = n }
func (h *c01holder) IsQuietMode() bool       { return h.quiet }
func (h *c01holder) SetQuietMode(b bool)     { h.quiet = b }
func (h *c01holder) CountOfQuiet() int       { return h.qc }
func (h *c01holder) SetQuietCount(n int)     { h.qc = n }

func registerOne(cl custLevel) error {
	var opts []slog.RegOpt
	if cl.treatAs >= 0 {
		opts = append(opts, slog.RegWithTreatedAsLevel(cl.treatAs))
	}
	if cl.errDev {
		opts = append(opts, slog.RegWithPrintToErrorDevice(true))
	}
	opts = append(opts, colourOpts(cl)...)
	return slog.RegisterLevel(cl.val, cl.title, opts...)
}

// colourOpts: how a level looks is no input of the admission rule.
func colourOpts(cl custLevel) []slog.RegOpt {
	switch cl.colours {
	case 1:
		return []slog.RegOpt{slog.RegWithColor(color.FgLightMagenta)}
	case 2:
		return []slog.RegOpt{slog.RegWithColor(color.FgWhite, color.BgBlue)}
	}
	return nil
}

func registerAll(cs []custLevel) error {
	for _, cl := range cs {
		if slog.Level(cl.val).String() == cl.title {
			continue // registered right after a refused attempt
		}
		var opts []slog.RegOpt
		if cl.treatAs >= 0 {
			opts = append(opts, slog.RegWithTreatedAsLevel(cl.treatAs))
		}
		if cl.errDev {
			opts = append(opts, slog.RegWithPrintToErrorDevice(true))
		}
		opts = append(opts, colourOpts(cl)...)
		if err := slog.RegisterLevel(cl.val, cl.title, opts...); err != nil {
			return err
		}
	}
	return nil
}

// c01watched: log files (made by slog.NewFileWriter) that are destinations of a logger under test; what is appended to
// them counts as output of a call like a Write at a recording destination does.
var c01watched []string

func c01watchedSize() (n int64) {
	for _, p := range c01watched {
		if st, err := os.Stat(p); err == nil {
			n += st.Size()
		}
	}
	return
}

// c01sickW is a destination that takes half of what it is handed, silently or with an error.
type c01sickW struct{ withErr bool }

func (w c01sickW) Write(p []byte) (int, error) {
	if w.withErr {
		return len(p) / 2, errors.New("write: input/output error (injected)")
	}
	return len(p) / 2, nil
}

// c01closedOnceW hands everything to the destination behind it; for the first record it reports a wrapped os.ErrClosed as well.
type c01closedOnceW struct {
	inner io.Writer
	seen  bool
}

func (w *c01closedOnceW) Write(p []byte) (int, error) {
	n, err := w.inner.Write(p)
	if !w.seen {
		w.seen = true
		return n, &fs.PathError{Op: "write", Path: "app.log", Err: os.ErrClosed}
	}
	return n, err
}

// c01table: one registry per case index (own child process, the registry cannot be reset).
func c01table(c *Ctx) {
	eps := entryPoints()
	c.Each(func(idx int, r *gen.R) {
		slog.AddFlags(slog.LnoInterrupt) // Panic / Fatal severities must be loggable
		customs := genRegistry(r)
		if idx == 0 {
			customs = nil // the plain built-in registry
		}
		// refused registrations interleaved with the successful ones (every other registry): they must leave no trace
		refused := 0
		if idx%2 == 1 {
			var odd []string
			refused, odd = refusedAttempts(r, customs)
			if len(odd) > 0 {
				// an accepted duplicate is C17's business; the model here cannot say what such a level is treated as
				c.R.Add("registries_skipped_duplicate_accepted", 1)
				c.R.Violation(idx, "gate", "C01/gate/registration-that-must-be-refused", fmt.Sprintf("a registration that must be refused was accepted, the admission table is undefined: %v", odd), nil)
				return
			}
		}
		c.R.Add("refused_registrations_before_the_table", int64(refused))
		if err := registerAll(customs); err != nil {
			c.R.Violation(idx, "harness", "C01/harness/register", err.Error(), nil)
			return
		}
		treat := map[slog.Level]slog.Level{}
		for k, v := range builtinTreatAs {
			treat[k] = v
		}
		levels := append([]slog.Level(nil), builtinLevels...)
		var cdesc []string
		for _, cl := range customs {
			levels = append(levels, cl.val)
			if cl.treatAs >= 0 {
				treat[cl.val] = cl.treatAs
			}
			cdesc = append(cdesc, fmt.Sprintf("%d:%s treatAs=%d errdev=%v", cl.val, cl.title, cl.treatAs, cl.errDev))
		}
		sevs := append(append([]slog.Level(nil), levels...), slog.Level(99)) // plus an unregistered severity

		log := mon.NewLog()
		w1 := mon.New(log, "normal", mon.ShapePlain)
		w2 := mon.New(log, "error", mon.ShapeCloser)
		// the error device reports an error for every record it stores (every other registry): whatever the library
		// writes in reaction is output too, and output needs a level that admits its severity
		failingErrDev := idx%2 == 0 && idx > 0
		if failingErrDev {
			w2.Core().Fail = func(_ int, p []byte) (bool, int) { return true, len(p) }
		}
		w3 := mon.New(log, "perlevel", mon.ShapePlain)
		nRoots := 0
		mkRoot := func() slog.Logger {
			l := slog.New("gate")
			if idx%3 == 2 {
				// every third registry: each class has io.Discard IN FRONT of the recording destination (a device that was
				// silenced first and given a real destination later): an admitted record still produces output
				l.SetWriter(io.Discard).AddWriter(w1)
				l.SetErrorWriter(io.Discard).AddErrorWriter(w2)
				l.AddLevelWriter(slog.InfoLevel, io.Discard).AddLevelWriter(slog.InfoLevel, w3)
			} else if idx%3 == 1 {
				// every third registry: a SICK destination in front of the recording one in every class - it takes half of
				// the payload and says nothing (odd loggers) or reports an error (even loggers); the recording destination
				// behind it gets the admitted record all the same
				sick := c01sickW{withErr: nRoots%2 == 0}
				l.SetWriter(sick).AddWriter(w1)
				l.SetErrorWriter(sick).AddErrorWriter(w2)
				l.AddLevelWriter(slog.InfoLevel, sick).AddLevelWriter(slog.InfoLevel, w3)
			} else if idx%3 == 0 && idx > 0 && nRoots%2 == 0 {
				// a log file made by NewFileWriter is the logger's normal AND error destination; then the normal class is
				// re-pointed to another destination: the file stays the error device, error-class records arrive in it
				if d, err := os.MkdirTemp("", "c01-fw-*"); err == nil {
					path := d + "/app.log"
					fw := slog.NewFileWriter(path)
					l.SetWriter(fw).SetErrorWriter(fw).AddLevelWriter(slog.InfoLevel, w3)
					l.SetWriter(w1)
					c01watched = append(c01watched, path)
				} else {
					l.SetWriter(w1).SetErrorWriter(w2).AddLevelWriter(slog.InfoLevel, w3)
				}
			} else if idx%3 == 0 && idx > 0 {
				// every destination stores its FIRST record and reports "file already closed" for it (wrapped, as a log file
				// in the middle of its rotation does) - and works ever after: later admitted records still arrive
				l.SetWriter(&c01closedOnceW{inner: w1}).SetErrorWriter(&c01closedOnceW{inner: w2}).AddLevelWriter(slog.InfoLevel, &c01closedOnceW{inner: w3})
			} else {
				l.SetWriter(w1).SetErrorWriter(w2).AddLevelWriter(slog.InfoLevel, w3)
			}
			if nRoots%2 == 1 {
				// an optional destination that was not configured: a nil writer is ignored, the lists stay as they are
				l.SetWriter(nil)
				l.SetErrorWriter(nil)
				l.AddWriter(nil)
			}
			// per-level writers that were added and removed again (for every second severity): an admitted record of
			// such a severity still produces output
			for i, lv := range append(append([]slog.Level(nil), builtinLevels...), 99) {
				if (i+idx)%2 == 0 && lv != slog.InfoLevel {
					l.AddLevelWriter(lv, w3)
					l.RemoveLevelWriter(lv, w3)
				}
			}
			// the format is no input of the rule either: logfmt, JSON and colour take turns over the loggers of a registry
			switch nRoots++; (nRoots + idx) % 3 {
			case 0:
				l.SetColorMode(false)
			case 1:
				l.SetJSONMode(true)
			default:
				l.SetColorMode(true)
			}
			return l
		}
		rootL := mkRoot()
		rootE := mkRoot().Root()
		child := mkRoot().Root().New("child")
		child.SetWriter(w1).SetErrorWriter(w2)
		child.SetContextKeys("rid", ctxKeyT{"uid"}) // context keys are no input of the rule: with a context that holds them, one that does not, or none at all
		rootE.SetContextKeys("rid")
		defL := mkRoot()
		// the default logger may be a CHILD in a tree: the package-level functions gate by ITS level, whatever the level
		// of its root is (the root sits at the opposite end: Always, or Off)
		defRoot := mkRoot().Root()
		defChild := defRoot.New("default-child")
		defChild.SetWriter(w1).SetErrorWriter(w2)
		// a child of a logger that was made with a log/slog handler among the arguments of New (what that argument does
		// for the parent is not the subject here): the child is an ordinary logger with level and writers of its own
		hParent := slog.New("made-with-a-handler", stdslog.NewTextHandler(io.Discard, nil)).Root()
		hChild := hParent.New("ordinary-child")
		hChild.SetWriter(w1).SetErrorWriter(w2)
		hChild.SetColorMode(false)
		// a WithSkip helper (what a facade derives for itself) of an owner that was switched Off afterwards: the helper
		// is a logger with a level of its own
		skipOwner := mkRoot().Root()
		skipHelper := skipOwner.WithSkip(1)
		skipHelper.SetWriter(w1).SetErrorWriter(w2)
		skipOwner.SetLevel(slog.OffLevel)
		kinds := []struct {
			name string
			l    slog.Logger
		}{{"WithSkip helper of a logger that is switched off", skipHelper}, {"child of a logger made with a log/slog handler argument", hChild}, {"root-as-Logger", rootL}, {"root-as-Entry", rootE}, {"child", child}, {"default", defL}, {"default(a child of another logger)", defChild}}
		savedDefault := slog.Default()
		defer slog.SetDefault(savedDefault)

		unrelated := slog.New("unrelated")
		// debug-mode histories: (name, action, resulting mode)
		states := []struct {
			name string
			do   func()
			d    bool
		}{
			{"off", func() { is.SetDebugMode(false) }, false},
			{"on(SetDebugMode)", func() { is.SetDebugMode(true) }, true},
			{"off-again", func() { is.SetDebugMode(false) }, false},
			{"on(side effect of SetLevel(Debug) on an unrelated logger, level restored)", func() { unrelated.SetLevel(slog.DebugLevel); unrelated.SetLevel(slog.WarnLevel) }, true},
			{"off-3", func() { is.SetDebugMode(false) }, false},
			{"on(SetDebugMode) after the application installed a state holder of its own (hedzrstates.UpdateEnvWith, as cmdr does)", func() {
				hedzrstates.UpdateEnvWith(&c01holder{})
				is.SetDebugMode(true)
			}, true},
			{"off-3b (the first holder is installed again, debug mode off)", func() { is.SetDebugMode(false); hedzrstates.UpdateEnvWith(c01firstHolder); is.SetDebugMode(false) }, false},
			{"on(side effect of WithLevel(Debug))", func() { _ = unrelated.WithLevel(slog.DebugLevel) }, true},
			{"off-4", func() { is.SetDebugMode(false) }, false},
			{"on(side effect of package SetLevel(Debug), restored)", func() {
				old := slog.GetLevel()
				slog.SetLevel(slog.DebugLevel)
				slog.SetLevel(old)
				is.SetTraceMode(false)
			}, true},
		}
		if c.Tier == "quick" && idx > 0 {
			states = append(states[:4:4], states[5:7]...)
		}
		defer hedzrstates.UpdateEnvWith(c01firstHolder)
		// the caller's context is not part of the rule: a live one, one with values, a cancelled one and one whose
		// deadline has passed take turns at every call that accepts a context
		cancelled, cancel := context.WithCancel(context.Background())
		cancel()
		expired, cancel2 := context.WithDeadline(context.Background(), time.Unix(1, 0))
		defer cancel2()
		type c01key struct{}
		ctxs := []context.Context{context.Background(), cancelled, context.WithValue(context.WithValue(context.Background(), c01key{}, 1), "rid", "r-7"), expired, nil} //nolint:staticcheck // string keys are what the library documents
		ctxNames := []string{"background", "cancelled", "with-values", "deadline-passed", "nil"}
		ctx := context.Background()
		cells := 0
		for _, st := range states {
			st.do()
			c.R.Distinct("debug_mode_histories", st.name)
			for _, kd := range kinds {
				for _, L := range levels {
					// the level is set while the process-wide debug mode is the OPPOSITE of what this history ends in, and
					// the mode changes afterwards: admission is decided per call, not when the level was set
					is.SetDebugMode(!st.d)
					kd.l.SetLevel(L)
					st.do()
					if strings.Contains(st.name, "package SetLevel") {
						kd.l.SetLevel(L) // the package-level SetLevel also sets the level of whatever logger is the default one right now
					}
					d := st.d
					if L == slog.DebugLevel && !st.d {
						is.SetDebugMode(false) // SetLevel(Debug) switched the sticky process-wide mode on; this history wants it off
					}
					if strings.HasPrefix(kd.name, "default") {
						slog.SetDefault(kd.l)
					}
					if kd.l == slog.Logger(defChild) {
						if L == slog.OffLevel {
							defRoot.SetLevel(slog.AlwaysLevel)
						} else {
							defRoot.SetLevel(slog.OffLevel)
						}
					}
					// Enabled getters
					for i, r := range sevs {
						want := admit(L, r, d, treat)
						ctx = ctxs[(i+cells)%len(ctxs)]
						if got := kd.l.Enabled(r); got != want {
							c.R.Violation(idx, "enabled", fmt.Sprintf("C01/enabled/L=%s", className(L)), fmt.Sprintf("%s.Enabled(%v)=%v, rule says %v (logger level %v, debug mode %v)", kd.name, r, got, want, L, d), map[string]any{"customs": cdesc, "history": st.name})
						}
						if got := kd.l.EnabledContext(ctx, r); got != want {
							c.R.Violation(idx, "enabled", fmt.Sprintf("C01/enabledctx/L=%s", className(L)), fmt.Sprintf("%s.EnabledContext(%s context, %v)=%v, rule says %v (logger level %v, debug mode %v)", kd.name, ctxNames[(i+cells)%len(ctxs)], r, got, want, L, d), map[string]any{"customs": cdesc, "history": st.name})
						}
					}
					for _, e := range eps {
						if e.pkg != strings.HasPrefix(kd.name, "default") {
							continue
						}
						rs := []slog.Level{e.sev}
						if !e.fixed {
							rs = sevs
						}
						for _, r := range rs {
							log.Reset()
							c.R.JournalNote(fmt.Sprintf("%s %s L=%d r=%d", kd.name, e.name, L, r))
							// the process-wide verbose mode (a CLI --verbose, never set by the library) is on for every other
							// call: it is not part of the admission rule, and Verbose emits nothing in a default build either way
							vm := (cells+int(L))%2 == 1
							if vm {
								is.SetVerboseMode(true)
								c.R.Add("calls_with_process_verbose_mode_on", 1)
							}
							ctx = ctxs[(cells/2)%len(ctxs)]
							c.R.Distinct("caller_contexts", ctxNames[(cells/2)%len(ctxs)])
							size0 := c01watchedSize()
							e.call(kd.l, ctx, r)
							if vm {
								is.SetVerboseMode(false)
							}
							n := log.Len()
							if c01watchedSize() > size0 {
								n++ // the record went into a watched log file
							}
							cells++
							want := admit(L, r, d, treat)
							if e.verbose {
								want = false
							}
							if className(L) == "custom" || className(r) == "custom" {
								c.R.NonTrivial(kd.name, e.name, int(L), int(r), st.name, strings.Join(cdesc, ";")) // cells on custom levels differ by registry
							} else {
								c.R.NonTrivial(kd.name, e.name, int(L), int(r), st.name)
							}
							if failingErrDev && n > 0 {
								for _, ev := range log.Events() {
									if ev.Kind != mon.EvWrite || !bytes.Contains(ev.Data, []byte(diagText)) {
										continue
									}
									c.R.Add("reaction_records_to_a_failing_destination_seen", 1)
									if !admit(L, slog.WarnLevel, d, treat) {
										c.R.Violation(idx, "gate", "C01/gate/"+e.name+"/reaction-record-not-admitted",
											fmt.Sprintf("%s on %s: logger level %v(%d) does not admit Warn, yet a warning record was written in reaction to the failing destination: %s", e.name, kd.name, L, int(L), clip(fmtEvents(log.Events()), 600)),
											map[string]any{"customs": cdesc, "entry": e.name, "logger": kd.name, "level": int(L), "severity": int(r), "history": st.name})
									}
								}
							}
							if (n > 0) != want {
								kind := "emitted-but-not-admitted"
								if want {
									kind = "admitted-but-silent"
								}
								c.R.Violation(idx, "gate", "C01/gate/"+e.name+"/"+kind,
									fmt.Sprintf("%s on %s: logger level %v(%d), severity %v(%d), debug mode %v [%s]: %d write(s), rule says admit=%v; events: %s",
										e.name, kd.name, L, int(L), r, int(r), d, st.name, n, want, fmtEvents(log.Events())),
									map[string]any{"customs": cdesc, "entry": e.name, "logger": kd.name, "level": int(L), "severity": int(r), "debug": d, "verbose_mode": vm, "history": st.name, "caller_context": ctxNames[((cells-1)/2)%len(ctxs)]})
							}
							if n > 0 {
								c.R.Add("records_emitted", 1)
							} else {
								c.R.Add("calls_silent", 1)
							}
							// a Panic / Fatal call that is NOT admitted must also stay silent (and return) when it would be
							// allowed to terminate: the no-interrupt flag is cleared for this one call. If the gate wrongly lets
							// a Fatal through, the process exits and the driver reports the journalled cell.
							if !want && (r == slog.PanicLevel || r == slog.FatalLevel) && !e.verbose {
								log.Reset()
								slog.RemoveFlags(slog.LnoInterrupt)
								panicked := ""
								func() {
									defer func() {
										if x := recover(); x != nil {
											panicked = fmt.Sprint(x)
										}
									}()
									c.R.JournalNote(fmt.Sprintf("no-interrupt flag cleared: %s %s L=%d r=%d", kd.name, e.name, L, r))
									e.call(kd.l, ctx, r)
								}()
								slog.AddFlags(slog.LnoInterrupt)
								cells++
								if log.Len() > 0 || panicked != "" {
									c.R.Violation(idx, "gate", "C01/gate/"+e.name+"/emitted-but-not-admitted/interrupt-allowed",
										fmt.Sprintf("%s on %s with the no-interrupt flag cleared: logger level %v, severity %v: %d write(s), panic %q; the call is not admitted", e.name, kd.name, L, r, log.Len(), panicked),
										map[string]any{"customs": cdesc, "entry": e.name, "logger": kd.name, "level": int(L), "severity": int(r), "history": st.name})
								}
							}
						}
					}
				}
			}
			is.SetDebugMode(false)
		}
		c.R.Add("cells", int64(cells))
		c.R.AddEvals(int64(cells) - 1)
		c.R.Add("registries", 1)
		c.R.Add("custom_levels", int64(len(customs)))
		if c.R.WantSample() {
			c.R.Sample(idx, map[string]any{"customs": cdesc, "levels": len(levels), "entry_points": len(eps), "logger_kinds": 4, "histories": len(states)}, map[string]any{"cells": cells})
		}
	})
	// the log files of this process (and their scratch directories) are done with
	for _, p := range c01watched {
		_ = os.RemoveAll(filepath.Dir(p))
	}
}

func className(l slog.Level) string {
	if l >= 0 && l < slog.MaxLevel {
		return l.String()
	}
	return "custom"
}
