package main

import (
	"bytes"
	"fmt"
	stdslog "log/slog"
	"path/filepath"
	"runtime"
	"strings"
	"time"

	"github.com/hedzr/logg/slog"

	"verifharness/gen"
	"verifharness/match"
	"verifharness/mon"
	"verifharness/oracle"
)

func init() { reg("C04", "main", c04main) }

type c04case struct {
	name     string
	msg      string
	lvl      slog.Level
	caller   bool
	noFrame  bool // the record has no frame behind it (pc 0)
	kvs      []gen.KV
	attrVals int
	dups     int
	bundle   bool // the last kv is handed over as slog.NewAttrs(key, value): a pre-sized list whose head holds unused slots
}

func c04gen(r *gen.R) c04case {
	var c c04case
	so := gen.StrOpt{HostilePc: 45, Long: true}
	switch r.Intn(5) {
	case 0, 1:
		c.name = ""
	case 2, 3:
		c.name = gen.Pick(r, []string{"app", "svc.db", "worker-1"})
	default:
		c.name = "n" + r.Str(so)
	}
	c.msg = r.Str(so)
	if r.P(8) {
		c.msg = "" // empty message at a non-Print severity
	}
	c.lvl = gen.Pick(r, nonTerminating)
	if len(hostileTitleLevels) > 0 && r.P(8) {
		c.lvl = gen.Pick(r, hostileTitleLevels)
	}
	if r.P(5) {
		c.lvl = gen.Pick(r, unregisteredLevels)
	}
	if c.lvl == slog.AlwaysLevel && strings.Trim(c.msg, "\n\r \t") == "" {
		c.lvl = slog.InfoLevel // blank Print is the one-newline special case (C02)
	}
	c.caller = r.P(30)
	n := r.Intn(9)
	if r.P(15) {
		n = r.Range(9, 24)
	}
	o := gen.Options{Str: so, MaxDepth: 4}
	emptyUsed := false
	for i := 0; i < n; i++ {
		var key string
		uniq := fmt.Sprintf("k%d~", i)
		switch r.Intn(6) {
		case 0:
			key = uniq
		case 1:
			key = r.Str(so) + uniq
		case 2:
			key = uniq + r.Str(so)
		case 3:
			key = r.Str(so) + uniq + r.Str(so)
		case 4:
			if !emptyUsed && r.P(20) {
				key, emptyUsed = "", true
			} else {
				key = uniq + "x"
			}
		default:
			key = uniq + r.SimpleKey("")
		}
		if r.P(6) && key != "" {
			key += gen.Pick(r, []string{".time", ".level", ".msg", ".caller", ".logger", "time", ".error"}) // names of the envelope as suffixes: still ordinary keys
		}
		if i > 0 && r.P(5) {
			// two members whose names differ in letter case only (ID / id; the Kelvin sign and k): two members
			if prev := c.kvs[i-1].Key; strings.ToUpper(prev) != prev {
				key = strings.ToUpper(prev)
			} else if strings.HasPrefix(prev, "k") {
				key = "\u212a" + prev[1:]
			}
		}
		v := r.Value(o, 0)
		if r.P(5) {
			v = r.AttrVal(o, 1) // an Attr / group Attr in value position
			c.attrVals++
		}
		if key == "" && r.P(40) {
			// the attribute with the EMPTY key is a group, one of whose members is called time and holds an instant: a
			// member of a nested object like any other
			v = gen.V{Kind: "group", Items: []gen.KV{{Key: "n", Val: r.Scalar("i", o)}, {Key: "time", Val: r.Scalar("time", o)}}}
		}
		if r.P(4) {
			// a list of instants / durations that is EMPTY (or nil): a list like any other - an empty array
			switch r.Intn(4) {
			case 0:
				v = gen.V{Kind: "times", Go: []time.Time{}}
			case 1:
				v = gen.V{Kind: "times", Go: []time.Time(nil)}
			case 2:
				v = gen.V{Kind: "durs", Go: []time.Duration{}}
			default:
				v = gen.V{Kind: "durs", Go: []time.Duration(nil)}
			}
		}
		c.kvs = append(c.kvs, gen.KV{Key: key, Val: v})
	}
	// an Attrs bundle built by NewAttrs after the other arguments (often after an attribute with the EMPTY key)
	if (emptyUsed && r.P(60)) || r.P(5) {
		c.kvs = append(c.kvs, gen.KV{Key: "bundle~", Val: gen.V{Kind: "i", I: 7, Go: 7}})
		c.bundle = true
		n = 0 // (no duplicates in such a list)
	}
	// a long list may give a key twice: the member then holds the LAST value given (C07's rule; the record stays one
	// valid object with one member per key either way)
	if n >= 13 && r.P(60) {
		for d := r.Range(1, 3); d > 0; d-- {
			j := r.Intn(n)
			if c.kvs[j].Key == "" {
				continue
			}
			c.kvs = append(c.kvs, gen.KV{Key: c.kvs[j].Key, Val: r.Scalar(gen.Pick(r, []string{"str", "i", "bool", "f64"}), o)})
			c.dups++
		}
		r.Shuffle(len(c.kvs), func(i, j int) { c.kvs[i], c.kvs[j] = c.kvs[j], c.kvs[i] })
	}
	return c
}

func c04main(c *Ctx) {
	gen.ExtremeTimes = true
	registerHostileTitles()
	c.R.Max("levels_registered_under_titles_that_need_escaping", int64(len(hostileTitleLevels)))
	log := mon.NewLog()
	w := mon.New(log, "W", mon.ShapePlain)
	c.Each(func(idx int, r *gen.R) {
		cs := c04gen(r)
		restore := withFlags(0, 0)
		defer restore()
		if cs.caller {
			slog.AddFlags(slog.Lcaller)
		} else {
			slog.RemoveFlags(slog.Lcaller)
		}
		// the other presentation flags must not matter for validity: any combination
		otherFlags := randomOtherFlags(r)
		if cs.caller && r.P(25) {
			// the application maps the source directory (and the file) of the call site to a name of its own choosing
			// (AddKnownPathMapping): a Windows path, a UNC share, a name with quotes - text like any other
			fr, _ := runtime.CallersFrames([]uintptr{thePC}).Next() // (resolved the way the library resolves it)
			file := fr.File
			hostile := gen.Pick(r, []string{`C:\work\app`, `\\share\src "quoted"`, "src\ttab", `a"b`, `x","forged":"1`})
			slog.AddFlags(slog.Lprivacypath)
			slog.AddKnownPathMapping(file, hostile)
			slog.AddKnownPathMapping(filepath.Dir(file), hostile)
			defer slog.RemoveKnownPathMapping(file)
			defer slog.RemoveKnownPathMapping(filepath.Dir(file))
			c.R.Add("records_whose_caller_file_is_mapped_to_a_name_that_needs_escaping", 1)
		}
		lg := newRoot(cs.name, FJSON, w, slog.AlwaysLevel)
		// a second destination IN FRONT of the recording one, in both classes: one that takes half of every payload
		// without reporting an error, or one that fails (the library then issues a diagnostic record of its own to the
		// warning destinations - a JSON record like any other, judged below)
		front := ""
		switch idx % 8 {
		case 3:
			front = "short"
		case 6:
			front = "failing"
		}
		if front != "" {
			fw := mon.New(log, "FRONT", mon.ShapePlain)
			fw.Core().Fail = func(_ int, p []byte) (bool, int) { return front == "failing", len(p) / 2 }
			lg.SetWriter(fw).AddWriter(w)
			lg.SetErrorWriter(fw).AddErrorWriter(w)
			c.R.Add("records_with_a_"+front+"_destination_in_front", 1)
		}
		desc0 := randomTimestampOptions(r, lg)
		// a logger is not always in JSON mode from its first record: the same object may have logged in another
		// format (or in JSON already) before the record that is judged
		warm := r.Intn(6)
		switch warm {
		case 5:
			doomedRecord(FJSON, w)
		case 2:
			lg.SetColorMode(false)
			lg.Info("warm-up record in logfmt", "w", 1)
			lg.SetJSONMode(true)
		case 3:
			lg.SetColorMode(true)
			lg.Warn("warm-up record in colour\nsecond line", "w", 1)
			lg.SetJSONMode(true)
		case 4:
			lg.Info("warm-up record in JSON", "w", "x")
		}
		// a third of the records carry an instant of their own (WriteThru): the time member then decodes to that instant
		tsKnown := desc0 == "-" && !cs.caller && r.P(30)
		ts := r.Time()
		// a record may reach the logger without a frame behind it (WriteThru with pc 0, the hand-over entry point of a
		// front end that has no source position; or a skip count beyond the depth of the stack): the caller member, if the
		// flag asks for one, is then empty or absent - the record is one line of valid JSON all the same
		noFrame := 0
		if cs.caller && !cs.bundle && r.P(25) {
			noFrame = 1 + r.Intn(2)
			cs.noFrame = true
			c.R.Add("records_without_a_frame_with_the_caller_flag_on", 1)
		}
		// the printf-style entry points (Infof, Warnf, Errorf): the message is what fmt makes of format and operands - with
		// or without operands, "%%" is one percent sign
		printfForm, printfFormat, printfOps := 0, "", []any(nil)
		if noFrame == 0 && !tsKnown && r.P(7) {
			printfForm = 1 + r.Intn(3)
			cs.lvl = []slog.Level{slog.InfoLevel, slog.WarnLevel, slog.ErrorLevel}[printfForm-1]
			cs.kvs, cs.attrVals, cs.dups, cs.bundle = nil, 0, 0, false
			printfFormat = strings.ReplaceAll(cs.msg, "%", "%%")
			switch r.Intn(4) {
			case 0: // no operands, no verb but the escaped percent sign
				printfFormat += " 100%% of it"
				cs.msg += " 100% of it"
			case 1:
				printfFormat = "%%" + printfFormat + "%%"
				cs.msg = "%" + cs.msg + "%"
			case 2: // an operand
				printfFormat += " %d%% of %s"
				printfOps = []any{idx, "it"}
				cs.msg += fmt.Sprintf(" %d", idx) + "% of it"
			case 3: // nothing to format at all
			}
			c.R.Add("records_through_the_printf_style_entry_points", 1)
			if len(printfOps) == 0 {
				c.R.Add("records_through_the_printf_style_entry_points_without_operands", 1)
			}
		}
		// one record in sixteen goes through the log/slog front end: a handler derived step by step (WithAttrs), from
		// whose last step two siblings are derived; the record goes through the OLDER sibling after the younger exists
		viaHandler := r.P(6)
		var older stdslog.Handler
		var rec stdslog.Record
		zeroAttr := false
		if printfForm != 0 || noFrame != 0 {
			viaHandler = false
		}
		if viaHandler {
			tsKnown = false
			cs.caller, cs.lvl, cs.attrVals, cs.dups = false, slog.InfoLevel, 0, 0
			h := slog.NewSlogHandler(lg, &slog.HandlerOptions{JSON: true, NoColor: true, NoSource: true, Level: slog.PanicLevel})
			steps := gen.Pick(r, []int{0, 1, 2, 3, 4, 5, 6, 7, 9, 11})
			// (half of the handlers open a group first: what is bound and logged afterwards nests under it - also when the
			// record has no attributes of its own)
			grouped := r.Bool()
			if grouped {
				h = h.WithGroup("hg~")
				c.R.Add("handler_records_under_a_WithGroup_step", 1)
			}
			var kvs []gen.KV
			for i := 0; i < steps; i++ {
				a, kv := c15attr(r, fmt.Sprintf("h%d~", i), 3)
				h = h.WithAttrs([]stdslog.Attr{a})
				kvs = append(kvs, kv)
			}
			a1, kv1 := c15attr(r, "older~", 3)
			older = h.WithAttrs([]stdslog.Attr{a1})
			a2, _ := c15attr(r, "younger~", 3)
			_ = h.WithAttrs([]stdslog.Attr{a2})
			kvs = append(kvs, kv1)
			rec = stdslog.NewRecord(ts, stdslog.LevelInfo, cs.msg, 0)
			nr := r.Intn(4)
			for j := nr; j > 0; j-- {
				a, kv := c15attr(r, fmt.Sprintf("r%d~", j), 0)
				rec.AddAttrs(a)
				kvs = append(kvs, kv)
				if j == nr && nr >= 2 && r.Bool() {
					// a zero Attr in the middle of the record's attributes (log/slog asks handlers to ignore it): what
					// comes after it is printed as always
					rec.AddAttrs(stdslog.Attr{})
					zeroAttr = true
					c.R.Add("handler_records_with_a_zero_Attr_in_the_middle", 1)
				}
			}
			if grouped && len(kvs) > 0 {
				kvs = []gen.KV{{Key: "hg~", Val: gen.V{Kind: "group", Items: kvs}}}
			}
			cs.kvs = kvs
			c.R.Add("records_through_a_derived_log_slog_handler_with_a_younger_sibling", 1)
			c.R.Max("handler_derivation_steps", int64(steps+1))
		}
		// some of the attributes may be bound to the logger instead of given to the call - as Attr objects that ANOTHER
		// logger holds too and re-binds (Set) under the same keys afterwards: this logger's record shows what IT was given
		callKVs := cs.kvs
		if !viaHandler && !tsKnown && noFrame == 0 && cs.dups == 0 && len(cs.kvs) >= 2 && r.P(10) {
			k := r.Range(1, len(cs.kvs)-1)
			ok := true
			for _, kv := range cs.kvs[:k] {
				ok = ok && kv.Key != "" && kv.Val.Kind != "group"
			}
			if ok {
				shared := attrsOf(cs.kvs[:k])
				lg.SetAttrs(shared...)
				other := newRoot("other", FJSON, w, slog.AlwaysLevel)
				other.SetAttrs(shared...)
				for _, kv := range cs.kvs[:k] {
					other.Set(kv.Key, "re-bound by the other logger")
				}
				callKVs = cs.kvs[k:]
				c.R.Add("records_with_logger_bound_attributes_another_logger_holds_too", 1)
			}
		}
		evs := capture(log, func() {
			if viaHandler {
				_ = older.Handle(bg, rec)
				return
			}
			if tsKnown {
				lg.WriteThru(bg, cs.lvl, ts, thePC, cs.msg, attrsOf(cs.kvs))
				return
			}
			switch noFrame {
			case 1:
				lg.WriteThru(bg, cs.lvl, ts, 0, cs.msg, attrsOf(cs.kvs))
				return
			case 2:
				lg.SetSkip(1000)
				lg.LogAttrs(bg, cs.lvl, cs.msg, mixedArgs(cs.kvs)...)
				lg.SetSkip(0)
				return
			}
			switch printfForm {
			case 1:
				_ = lg.Infof(printfFormat, printfOps...)
				return
			case 2:
				_ = lg.Warnf(printfFormat, printfOps...)
				return
			case 3:
				_ = lg.Errorf(printfFormat, printfOps...)
				return
			}
			if cs.bundle && len(callKVs) > 0 && callKVs[len(callKVs)-1].Key == "bundle~" {
				args := append(pairsFirst(callKVs[:len(callKVs)-1]), slog.NewAttrs("bundle~", 7))
				lg.LogAttrs(bg, cs.lvl, cs.msg, args...)
				return
			}
			lg.LogAttrs(bg, cs.lvl, cs.msg, mixedArgs(callKVs)...)
		})
		desc := describe(FJSON, cs.name, cs.msg, cs.lvl, cs.caller, cs.kvs)
		if tsKnown {
			desc["record_instant"] = ts.Format(time.RFC3339Nano)
		}
		desc["logger_timestamp_options"], desc["through_log_slog_handler"], desc["keys_given_twice"] = desc0, viaHandler, cs.dups
		if printfForm != 0 {
			desc["entry_point"], desc["format"], desc["operands"] = []string{"Infof", "Warnf", "Errorf"}[printfForm-1], printfFormat, fmt.Sprint(printfOps)
		}
		if noFrame != 0 {
			desc["no_frame_behind_the_record"] = []string{"WriteThru with pc 0", "skip count 1000"}[noFrame-1]
		}
		if cs.dups > 0 {
			c.R.Add("records_of_13_or_more_attributes_with_a_key_given_twice", 1)
		}
		desc["other_flags"], desc["same_logger_logged_before_in"] = otherFlags, []string{"-", "-", "logfmt", "color", "json", "a record that panicked while being formatted (recovered)"}[warm]
		c.R.Distinct("same_logger_logged_before_in", []string{"-", "-", "logfmt", "color", "json", "a record that panicked while being formatted (recovered)"}[warm])
		c.R.Add("write_events", int64(len(evs)))
		if front != "" {
			// what the recording destination got: the record first, then (failing front destination) the library's own
			// diagnostic records - each one line of valid JSON without duplicate members, at the Warn severity
			var own []mon.Event
			for _, e := range evs {
				if e.Kind != mon.EvWrite || e.W != "W" {
					continue
				}
				if len(own) > 0 && bytes.Contains(e.Data, []byte(diagText)) {
					c.R.Add("diagnostic_records_judged", 1)
					if why := c04diagProblem(e.Data); why != "" {
						c.R.Violation(idx, "diagnostic-record", "C04/diagnostic-record", why+"\npayload: "+q(clip(string(e.Data), 1500)), desc)
						return
					}
					continue
				}
				own = append(own, e)
			}
			evs = own
		}
		if len(evs) != 1 || evs[0].Kind != mon.EvWrite {
			c.R.Violation(idx, "one-write", "C04/one-write", fmt.Sprintf("expected exactly one Write, saw %s", fmtEvents(evs)), desc)
			return
		}
		payload := evs[0].Data
		viols := c04check(payload, cs)
		if zeroAttr && len(viols) > 0 {
			// the zero Attr may also be shown (as "":null next to the record's attributes)
			alt := cs
			alt.kvs = append(append([]gen.KV(nil), cs.kvs...), gen.KV{Key: "", Val: gen.V{Kind: "nil"}})
			if len(cs.kvs) == 1 && cs.kvs[0].Key == "hg~" && cs.kvs[0].Val.Kind == "group" {
				// (under the handler's group it stands inside that group)
				g := cs.kvs[0]
				g.Val.Items = append(append([]gen.KV(nil), g.Val.Items...), gen.KV{Key: "", Val: gen.V{Kind: "nil"}})
				alt.kvs = []gen.KV{g}
			}
			if len(c04check(payload, alt)) == 0 {
				viols = nil
			}
		}
		if tsKnown && len(viols) == 0 {
			fl := slog.GetFlags()
			if layout, ok := c16flagTable[fl&(slog.Ldate|slog.Ltime|slog.Lmicroseconds)]; ok && ts.Year() >= 0 && ts.Year() <= 9999 {
				t := ts
				if fl&slog.LlocalTime == 0 {
					t = ts.UTC()
				}
				if d, err := decodeRecord(FJSON, payload, cs.name != "", false); err == nil {
					c.R.Add("timestamps_decoded_against_a_known_instant", 1)
					if why := flagTimestampProblem(d.Time, layout, t, fl); why != "" {
						viols = append(viols, cv{"envelope-time", fmt.Sprintf("the time member %q does not decode to the record's instant %s (flags %s): %s", d.Time, t.Format(time.RFC3339Nano), flagNames(fl), why)})
					}
				}
			}
		}
		if len(viols) == 0 {
			c.R.Add("records_decoded", 1)
			c.R.Add("attrs_checked", int64(len(cs.kvs)))
			for _, k := range kindsOf(cs.kvs) {
				c.R.Distinct("value_kinds", k)
			}
			if len(cs.kvs) > 0 || strClass(cs.msg) != "plain" {
				c.R.NonTrivial(string(payload))
			}
			if c.R.WantSample() && len(cs.kvs) > 1 {
				c.R.Sample(idx, desc, map[string]any{"payload": string(payload)})
			}
			follow := func(what string, fc c04case, emit func(*slog.Entry)) bool {
				fl := newRoot(fc.name, FJSON, w, slog.AlwaysLevel)
				evs := capture(log, func() { emit(fl) })
				if len(evs) != 1 || evs[0].Kind != mon.EvWrite {
					c.R.Violation(idx, "one-write", "C04/one-write/"+what, fmt.Sprintf("expected exactly one Write, saw %s", fmtEvents(evs)), desc)
					return false
				}
				if vs := c04check(evs[0].Data, fc); len(vs) > 0 {
					c.R.Violation(idx, vs[0].clause, "C04/"+vs[0].clause+"/"+what, vs[0].detail+"\npayload: "+q(clip(string(evs[0].Data), 1200)), describe(FJSON, fc.name, fc.msg, fc.lvl, fc.caller, fc.kvs))
					return false
				}
				return true
			}
			// ONE group object with two owners in one record: under two parent groups, and at the top level as well
			if idx%5 == 2 && !viaHandler {
				for _, kv := range cs.kvs {
					if kv.Val.Kind != "group" || kv.Val.Go != nil || kv.Key == "" || len(match.Flatten("", []gen.KV{kv})) == 0 {
						continue
					}
					peer := kv.Attr()
					fc := c04case{name: cs.name, msg: "one group object, two owners", lvl: slog.InfoLevel, caller: slog.GetFlags()&slog.Lcaller != 0,
						kvs: []gen.KV{{Key: "dst~", Val: gen.V{Kind: "group", Items: []gen.KV{kv}}}, kv, {Key: "src~", Val: gen.V{Kind: "group", Items: []gen.KV{kv}}}}}
					if !follow("one-group-object-with-two-owners", fc, func(l *slog.Entry) {
						l.Info(fc.msg, slog.Group("src~", peer), peer, slog.Group("dst~", peer))
					}) {
						return
					}
					c.R.Add("records_with_one_group_object_under_two_parents", 1)
					break
				}
			}
			// a blank message at a severity of the application that is GATED like Always (only Print / Println make a blank
			// line of a blank message)
			if idx%9 == 4 && !c.Testing && !viaHandler {
				fc := c04case{name: cs.name, msg: gen.Pick(r, []string{"", " ", "\t", " \n"}), lvl: lvlLikeAlways, caller: slog.GetFlags()&slog.Lcaller != 0, kvs: cs.kvs}
				if cs.dups == 0 && !cs.bundle {
					if !follow("blank-message-at-a-severity-gated-like-Always", fc, func(l *slog.Entry) { l.LogAttrs(bg, fc.lvl, fc.msg, pairsFirst(fc.kvs)...) }) {
						return
					}
					c.R.Add("blank_messages_at_a_severity_gated_like_Always", 1)
				}
			}
			return
		}
		// attribute the failure: re-log every part alone
		culprits := c04isolate(w, log, cs)
		for _, v := range viols {
			sigs := culprits
			if len(sigs) == 0 {
				sigs = []string{"combo"}
			}
			for _, cu := range sigs {
				c.R.Violation(idx, v.clause, "C04/"+v.clause+"/"+cu, v.detail+"\npayload: "+q(clip(string(payload), 1500)), desc)
			}
		}
	})
}

// pairsFirst: like mixedArgs, but an attribute with the empty key is always given as a plain "", value pair.
func pairsFirst(kvs []gen.KV) []any {
	var out []any
	for _, kv := range kvs {
		if kv.Key == "" && !(kv.Val.Kind == "group") {
			out = append(out, "", kv.Val.Go)
			continue
		}
		out = append(out, mixedArgs([]gen.KV{kv})...)
	}
	return out
}

type cv struct{ clause, detail string }

// c04diagProblem judges a record the library issued on its own account (the report about a failing destination).
func c04diagProblem(payload []byte) string {
	if len(payload) == 0 || payload[len(payload)-1] != '\n' || bytes.Count(payload, []byte{'\n'}) != 1 {
		return "the library's own diagnostic record is not exactly one line"
	}
	n, err := oracle.ParseJSONLine(bytes.TrimSuffix(payload, []byte{'\n'}))
	if err != nil {
		return "the library's own diagnostic record is not one valid JSON object with unique members: " + err.Error()
	}
	if l := n.Get("level"); l == nil || l.Kind != oracle.JStr || l.Str != slog.WarnLevel.String() {
		return fmt.Sprintf("the library's own diagnostic record is issued at the Warn severity, its level member reads %s", l.Brief())
	}
	if m := n.Get("msg"); m == nil || m.Kind != oracle.JStr || !strings.Contains(m.Str, diagText) {
		return fmt.Sprintf("the library's own diagnostic record: msg member reads %s", m.Brief())
	}
	return ""
}

func c04check(payload []byte, cs c04case) (out []cv) {
	if len(payload) == 0 || payload[len(payload)-1] != '\n' {
		return []cv{{"framing", "payload does not end with a newline"}}
	}
	if n := bytes.Count(payload, []byte{'\n'}); n != 1 {
		out = append(out, cv{"framing", fmt.Sprintf("record occupies %d lines (raw LF inside the record)", n)})
	}
	if bytes.IndexByte(payload, '\r') >= 0 {
		out = append(out, cv{"framing", "raw CR inside the record"})
	}
	line := bytes.TrimSuffix(payload, []byte{'\n'})
	if len(out) > 0 {
		return
	}
	n, err := oracle.ParseJSONLine(line)
	if err != nil {
		if _, dup := err.(*oracle.DupError); dup {
			return []cv{{"dup-member", err.Error()}}
		}
		return []cv{{"json-valid", err.Error()}}
	}
	if t := n.Get("time"); t == nil || t.Kind != oracle.JStr || t.Str == "" {
		out = append(out, cv{"envelope", "time member missing or not a string: " + t.Brief()})
	}
	if cs.name != "" {
		if l := n.Get("logger"); l == nil || l.Kind != oracle.JStr || l.Str != match.ReplInvalid(cs.name) {
			out = append(out, cv{"envelope-logger", fmt.Sprintf("logger member %s != name %q", l.Brief(), cs.name)})
		}
	}
	if l := n.Get("level"); l == nil || l.Kind != oracle.JStr {
		out = append(out, cv{"envelope", fmt.Sprintf("level member %s is not a string", l.Brief())})
	} else if isUnregistered(cs.lvl) {
		if why := levelNameProblem(l.Str, cs.lvl); why != "" {
			out = append(out, cv{"envelope", why})
		}
	} else if l.Str != match.ReplInvalid(titleOf(cs.lvl)) {
		out = append(out, cv{"envelope", fmt.Sprintf("level member %s != %q", l.Brief(), titleOf(cs.lvl))})
	}
	if m := n.Get("msg"); m == nil || m.Kind != oracle.JStr || m.Str != match.ReplInvalid(cs.msg) {
		out = append(out, cv{"envelope-msg", fmt.Sprintf("msg member %s != message %q", clip(m.Brief(), 300), clip(cs.msg, 300))})
	}
	cal := n.Get("caller")
	if cs.caller && cs.noFrame && cal == nil {
		// nothing to report about a record without a frame: an absent member is as good as an empty one
	} else if cs.caller {
		// file and function are required; the line number may legitimately depend on the line-number flag
		if cal == nil || cal.Kind != oracle.JObj || cal.Get("file") == nil || cal.Get("file").Kind != oracle.JStr ||
			(cal.Get("line") != nil && cal.Get("line").Kind != oracle.JNum) || cal.Get("function") == nil || cal.Get("function").Kind != oracle.JStr {
			out = append(out, cv{"envelope", "caller member missing or malformed: " + cal.Brief()})
		}
	} else if cal != nil {
		out = append(out, cv{"envelope", "caller member present although the caller flag is off"})
	}
	if ok, why := match.JSONMembers(n, cs.kvs, reservedJSON(cs.name != "")); !ok {
		out = append(out, cv{"members", why})
	}
	return
}

// c04isolate re-logs the message alone, the name alone and each attribute alone and
// returns the kinds (or parts) that fail on their own.
func c04isolate(w mon.W, log *mon.Log, cs c04case) []string {
	seen := map[string]bool{}
	var out []string
	add := func(s string) {
		if !seen[s] {
			seen[s] = true
			out = append(out, s)
		}
	}
	try := func(sub c04case) bool {
		lg := newRoot(sub.name, FJSON, w, slog.AlwaysLevel)
		evs := capture(log, func() { lg.LogAttrs(bg, sub.lvl, sub.msg, mixedArgs(sub.kvs)...) })
		if len(evs) != 1 {
			return true
		}
		return len(c04check(evs[0].Data, sub)) > 0
	}
	base := c04case{lvl: slog.InfoLevel, msg: "m", caller: cs.caller}
	b := base
	b.msg = cs.msg
	if b.msg != "" && try(b) {
		add("msg-" + strClass(cs.msg))
	}
	b = base
	b.name = cs.name
	if cs.name != "" && try(b) {
		add("name-" + strClass(cs.name))
	}
	for _, kv := range cs.kvs {
		b = base
		b.kvs = []gen.KV{{Key: "k", Val: kv.Val}}
		if try(b) {
			add(valueClass(kv.Val))
			continue
		}
		b.kvs = []gen.KV{{Key: kv.Key, Val: gen.V{Kind: "i", I: 1, Go: 1}}}
		if try(b) {
			add("key-" + strClass(kv.Key))
		}
	}
	return out
}

// valueClass names the narrowest feature of a value for a signature.
func valueClass(v gen.V) string {
	switch v.Kind {
	case "str", "err", "errv3", "stringer", "tostring", "textm":
		return v.Kind + "-" + strClass(v.Text)
	case "strs":
		worst := "plain"
		for _, e := range v.Elems {
			if c := strClass(e.Text); c != "plain" {
				worst = c
			}
		}
		return "strs-" + worst
	case "group":
		return "group"
	}
	return v.Kind
}
