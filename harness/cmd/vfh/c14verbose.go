package main

import (
	"context"
	stdlog "log"
	stdslog "log/slog"

	"github.com/hedzr/logg/slog"
)

// The Verbose entry points print only in a build of the LIBRARY with the tag "verbose" (they are empty functions
// otherwise): their cells are run by the build variant vfh-verbose and skipped by the others.
// NOTE: keep every function literal on ONE line (the expected line is the line of here()); do not run gofmt on this file.
func c14verboseEntries() []c14entry {
	return []c14entry{
		{"Verbose", "native", func(l slog.Logger, _ *stdslog.Logger, _ *stdlog.Logger, c context.Context) []site { s := here(); l.Verbose(cm, "a", 1); return s }, 0},
		{"VerboseContext", "native", func(l slog.Logger, _ *stdslog.Logger, _ *stdlog.Logger, c context.Context) []site { s := here(); l.VerboseContext(c, cm, "a", 1); return s }, 0},
		{"pkg.Verbose", "pkg", func(_ slog.Logger, _ *stdslog.Logger, _ *stdlog.Logger, c context.Context) []site { s := here(); slog.Verbose(cm, "a", 1); return s }, 0},
		{"pkg.VerboseContext", "pkg", func(_ slog.Logger, _ *stdslog.Logger, _ *stdlog.Logger, c context.Context) []site { s := here(); slog.VerboseContext(c, cm, "a", 1); return s }, 0},
	}
}
