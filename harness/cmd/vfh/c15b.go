package main

import (
	"bytes"
	"fmt"
	stdslog "log/slog"
	"math"
	"strings"
	"time"

	"github.com/hedzr/logg/slog"

	"verifharness/gen"
	"verifharness/mon"
)

func init() { reg("C15", "grouphist", c15groupHist) }

// c15groupHist: SEVERAL records through one derived handler whose With step holds a group, some of them carrying a group
// of the same name (two middlewares that both say slog.Group("req", ...)), some carrying nothing. A handler "adds what
// was given" to every record - what an EARLIER record carried is no part of a later one. Expected members per record:
// the handler's attributes and the record's, the record's group standing in for the handler's group of the same name
// (one key, one value, the later wins - what the single-record workload establishes for every other kind).
func c15groupHist(c *Ctx) {
	log := mon.NewLog()
	w := mon.New(log, "W", mon.ShapePlain)
	i64 := func(k string, v int64) gen.KV { return gen.KV{Key: k, Val: gen.V{Kind: "i64", I: v, Go: v}} }
	str := func(k, v string) gen.KV { return gen.KV{Key: k, Val: gen.V{Kind: "str", Text: v, Go: v}} }
	grp := func(k string, items ...gen.KV) gen.KV { return gen.KV{Key: k, Val: gen.V{Kind: "group", Items: items}} }
	c.Each(func(idx int, r *gen.R) {
		restore := withFlags(0, slog.Lcaller)
		defer restore()
		f := Format(idx % 3)
		lg := newRoot("gh", f, w, slog.AlwaysLevel)
		var h stdslog.Handler = slog.NewSlogHandler(lg, &slog.HandlerOptions{NoColor: f != FColor, JSON: f == FJSON, NoSource: true, Level: slog.PanicLevel})
		how := []string{"WithAttrs(svc, Group(req: id, peer))", "WithAttrs(svc).WithAttrs(Group(req: id, peer))", "WithAttrs(Group(req: id, peer), zone)"}[(idx/3)%3]
		base := []gen.KV{str("svc", "billing"), grp("req~", i64("id", 7), str("peer", "10.0.0.1"))}
		switch (idx / 3) % 3 {
		case 0:
			h = h.WithAttrs([]stdslog.Attr{stdslog.String("svc", "billing"), stdslog.Group("req~", stdslog.Int64("id", 7), stdslog.String("peer", "10.0.0.1"))})
		case 1:
			h = h.WithAttrs([]stdslog.Attr{stdslog.String("svc", "billing")}).WithAttrs([]stdslog.Attr{stdslog.Group("req~", stdslog.Int64("id", 7), stdslog.String("peer", "10.0.0.1"))})
		default:
			h = h.WithAttrs([]stdslog.Attr{stdslog.Group("req~", stdslog.Int64("id", 7), stdslog.String("peer", "10.0.0.1")), stdslog.String("zone", "eu")})
			base = []gen.KV{grp("req~", i64("id", 7), str("peer", "10.0.0.1")), str("zone", "eu")}
		}
		type one struct {
			what string
			as   []stdslog.Attr
			kvs  []gen.KV
		}
		seq := []one{
			{"a record with a group of the same name", []stdslog.Attr{stdslog.Group("req~", stdslog.String("path", "/a")), stdslog.Int64("n", 1)}, []gen.KV{grp("req~", str("path", "/a")), i64("n", 1)}},
			{"a record without attributes", nil, nil},
			{"a record with another group of the same name", []stdslog.Attr{stdslog.Group("req~", stdslog.Int64("status", 200))}, []gen.KV{grp("req~", i64("status", 200))}},
			{"a record with a scalar only", []stdslog.Attr{stdslog.Int64("n", 4)}, []gen.KV{i64("n", 4)}},
			{"a record with complex values whose imaginary part is NaN, +Inf, -0", []stdslog.Attr{stdslog.Any("c1", complex(1, math.NaN())), stdslog.Any("c2", complex(2.5, math.Inf(1))), stdslog.Any("c3", complex(3, math.Copysign(0, -1)))}, nil},
			{"a record without attributes", nil, nil},
		}
		for step, x := range seq {
			ts := time.Date(2024, 2, 3, 4, 5, 6, 7000, time.UTC)
			msg := fmt.Sprintf("gh-%d-%d", idx, step)
			rec := stdslog.NewRecord(ts, stdslog.LevelInfo, msg, 0)
			rec.AddAttrs(x.as...)
			exp := lastWins(append(append([]gen.KV(nil), base...), x.kvs...))
			evs := capture(log, func() { _ = h.Handle(bg, rec) })
			if strings.Contains(x.what, "complex values") {
				// (judged by their text alone: what fmt prints for the value is what the record shows)
				if len(evs) == 1 {
					for _, cv := range []complex128{complex(1, math.NaN()), complex(2.5, math.Inf(1)), complex(3, math.Copysign(0, -1))} {
						if want := fmt.Sprint(cv); !bytes.Contains(evs[0].Data, []byte(want)) {
							c.R.Violation(idx, "derived-members", "C15/value/complex-with-a-special-imaginary-part", fmt.Sprintf("step %d: the record does not show the complex value %s: %s", step, want, q(clip(string(evs[0].Data), 700))), nil)
							return
						}
					}
					c.R.Add("complex_values_with_special_imaginary_parts_checked", 3)
				}
				continue
			}
			desc := map[string]any{"format": f.String(), "handler": how, "step": step, "record": x.what, "expected_attrs": gen.DescKVs(exp)}
			if len(evs) != 1 || evs[0].Kind != mon.EvWrite {
				c.R.Violation(idx, "once", "C15/once/group-history", fmt.Sprintf("step %d (%s): expected one record, saw %s", step, x.what, fmtEvents(evs)), desc)
				return
			}
			p := evs[0].Data
			var viols []tv
			switch f {
			case FJSON:
				for _, v := range c04check(p, c04case{name: "gh", msg: msg, lvl: slog.InfoLevel, kvs: exp}) {
					viols = append(viols, tv{v.clause, "json", v.detail})
				}
			case FLogfmt:
				viols = c05check(p, recCase{name: "gh", msg: msg, lvl: slog.InfoLevel, kvs: exp})
			default:
				viols = c15color(p, "gh", msg, slog.InfoLevel, false, exp)
			}
			if len(viols) > 0 {
				c.R.Violation(idx, "derived-members", "C15/derived-members/group-history/"+f.String(), fmt.Sprintf("step %d (%s) through %s: %s\npayload: %s", step, x.what, how, viols[0].detail, q(clip(string(p), 900))), desc)
				return
			}
			c.R.Add("records_in_group_histories_decoded", 1)
		}
		c.R.NonTrivial("grouphist", idx)
		if c.R.WantSample() {
			c.R.Sample(idx, map[string]any{"format": f.String(), "handler": how}, "five records through one derived handler: each carries the handler's attributes and its own, nothing of an earlier record")
		}
	})
}
