package main

import (
	"fmt"

	"github.com/hedzr/logg/slog"

	"verifharness/gen"
)

func init() { reg("C10", "big", c10big) }

// c10big: the hierarchy clauses on trees that are big in ONE dimension - a parent with thousands of direct children
// (anonymous or named), a derivation chain hundreds of links long, a bushy tree of several thousand loggers. The
// reference is the creation history kept by the harness: Each from any logger visits every logger of its subtree
// exactly once, at its depth; Parent / Root are those of the creation; a child is found under its name by Sublogger and
// by New (which hands out the existing child), the anonymous ones included.
func c10big(c *Ctx) {
	c.Each(func(idx int, r *gen.R) {
		kind := []string{"wide-anonymous", "deep", "wide-named", "bushy"}[idx%4]
		c.R.Distinct("big_tree_kinds", kind)
		root := slog.New(fmt.Sprintf("big%d", idx)).Root()
		type made struct {
			e      *slog.Entry
			parent *slog.Entry
			depth  int
		}
		all := []made{{root, nil, 0}}
		known := map[*slog.Entry]bool{root: true}
		derive := func(p *slog.Entry, depth int, name string) *slog.Entry {
			var ch *slog.Entry
			switch x := r.Intn(5); {
			case name != "":
				ch = p.New(name)
			case x == 0:
				ch = p.New()
			case x == 1:
				ch = p.WithJSONMode(r.Bool())
			case x == 2:
				ch = p.WithAttrs(slog.Int("i", depth))
			case x == 3:
				ch = p.WithLevel(slog.InfoLevel)
			default:
				ch = p.New("", slog.WithColorMode(false))
			}
			if known[ch] {
				// two generated names met (the library draws six random letters): the existing child was handed out
				c.R.Add("generated_names_that_met_an_existing_child", 1)
				return ch
			}
			known[ch] = true
			all = append(all, made{ch, p, depth})
			return ch
		}
		desc := map[string]any{"kind": kind}
		var probeParents []*slog.Entry
		switch kind {
		case "wide-anonymous", "wide-named":
			n := []int{4097, 5000, 4096, 9000, 4095, 4090}[(idx/4)%6] // by case index: every run of 16 cases holds the first four
			desc["direct_children"] = n
			for i := 0; i < n; i++ {
				name := ""
				if kind == "wide-named" || i%50 == 7 {
					name = fmt.Sprintf("kid%d", i)
				}
				derive(root, 1, name)
			}
			for i := 0; i < 6; i++ { // the late comers, anonymous in either kind
				derive(root, 1, "")
			}
			c.R.Max("direct_children_of_one_logger", int64(n+6))
			probeParents = []*slog.Entry{root}
		case "deep":
			d := []int{101, 150, 400, 1000, 99, 100, 102}[(idx/4)%7] // by case index
			desc["chain_links"] = d
			l := root
			for i := 1; i <= d; i++ {
				name := ""
				if i%3 == 0 {
					name = fmt.Sprintf("d%d", i)
				}
				l = derive(l, i, name)
			}
			c.R.Max("derivation_chain_links", int64(d))
			probeParents = []*slog.Entry{root, all[len(all)/2].e, all[len(all)-2].e}
		default:
			w := r.Range(40, 75)
			desc["fan_out"] = w
			for i := 0; i < w; i++ {
				k := derive(root, 1, fmt.Sprintf("b%d", i))
				for j := 0; j < w; j++ {
					name := ""
					if j%2 == 0 {
						name = fmt.Sprintf("b%d-%d", i, j)
					}
					derive(k, 2, name)
				}
			}
			probeParents = []*slog.Entry{root, all[1].e}
		}
		c.R.Max("loggers_in_one_tree", int64(len(all)))
		c.R.Add("big_trees", 1)
		c.R.Add("big_tree_loggers", int64(len(all)))
		depthOf := map[*slog.Entry]int{}
		parentOf := map[*slog.Entry]*slog.Entry{}
		for _, m := range all {
			depthOf[m.e] = m.depth
			parentOf[m.e] = m.parent
		}
		if len(depthOf) != len(all) {
			c.R.Violation(idx, "new-lookup", "C10/big/"+kind+"/creation", fmt.Sprintf("%d creations handed out only %d distinct loggers", len(all), len(depthOf)), desc)
			return
		}
		// Parent / Root of every logger
		for _, m := range all {
			if m.parent != nil {
				if p := m.e.Parent(); p != m.parent {
					c.R.Violation(idx, "parent-root", "C10/big/"+kind+"/parent", fmt.Sprintf("logger %q (depth %d): Parent() is not the logger it was derived from", m.e.Name(), m.depth), desc)
					return
				}
			}
			if rt := m.e.Root(); rt != root {
				c.R.Violation(idx, "parent-root", "C10/big/"+kind+"/root", fmt.Sprintf("logger %q (depth %d): Root() is not the root of its tree", m.e.Name(), m.depth), desc)
				return
			}
		}
		// Each from several starting points: every logger of the subtree exactly once, at its depth
		for _, from := range probeParents {
			base := depthOf[from]
			seen := map[*slog.Entry]int{}
			var wrong string
			from.Each(func(l *slog.Entry, depth int) {
				seen[l]++
				if d, ok := depthOf[l]; !ok {
					wrong = fmt.Sprintf("Each visited a logger %q that was never created in this tree", l.Name())
				} else if d-base != depth && wrong == "" {
					wrong = fmt.Sprintf("Each reports logger %q at depth %d, it was created %d level(s) below the starting logger", l.Name(), depth, d-base)
				}
			})
			if wrong != "" {
				c.R.Violation(idx, "each", "C10/big/"+kind+"/each-depth", wrong, desc)
				return
			}
			// the subtree according to the creation history
			want := 0
			for _, m := range all {
				x := m.e
				for x != nil && x != from {
					x = parentOf[x]
				}
				if x != from {
					continue
				}
				want++
				if seen[m.e] != 1 {
					c.R.Violation(idx, "each", "C10/big/"+kind+"/each-visits", fmt.Sprintf("Each from %q (depth %d) visited logger %q (created at depth %d) %d time(s), expected once; the subtree has %d loggers, Each visited %d", from.Name(), base, m.e.Name(), m.depth, seen[m.e], want, len(seen)), desc)
					return
				}
			}
			c.R.Add("each_walks_compared", 1)
			c.R.Add("loggers_visited_by_each", int64(want))
		}
		// lookup by name: the last few loggers created (the late comers) and a sample of the others
		check := func(m made) bool {
			if m.parent == nil {
				return true
			}
			name := m.e.Name()
			if got := m.parent.Sublogger(name); got != m.e {
				c.R.Violation(idx, "sublogger", "C10/big/"+kind+"/sublogger", fmt.Sprintf("parent.Sublogger(%q) does not return the child created under that name (depth %d, the parent has %d or more children)", name, m.depth, len(all)/2), desc)
				return false
			}
			if got := m.parent.New(name); got != m.e {
				c.R.Violation(idx, "new-lookup", "C10/big/"+kind+"/new-lookup", fmt.Sprintf("parent.New(%q) created another logger instead of handing out the existing child of that name (depth %d)", name, m.depth), desc)
				return false
			}
			c.R.Add("lookups_by_name", 1)
			return true
		}
		for i := len(all) - 1; i >= 0 && i >= len(all)-8; i-- {
			if !check(all[i]) {
				return
			}
		}
		for i := 0; i < 40; i++ {
			if !check(all[r.Intn(len(all))]) {
				return
			}
		}
		c.R.NonTrivial("big", kind, fmt.Sprint(desc), idx)
		if c.R.WantSample() {
			c.R.Sample(idx, desc, map[string]any{"loggers": len(all)})
		}
	})
}
