package main

import (
	"context"
	stdslog "log/slog"
	"runtime"
	"time"
)

// c14wrapInfo is a logging helper written after the "Wrapping" example of the log/slog documentation: it captures its
// caller's program counter itself, builds the Record and hands it to the handler.
//
//go:noinline
func c14wrapInfo(h stdslog.Handler, msg string) {
	var pcs [1]uintptr
	runtime.Callers(2, pcs[:]) // skip [Callers, c14wrapInfo]
	r := stdslog.NewRecord(time.Now(), stdslog.LevelInfo, msg, pcs[0])
	_ = h.Handle(context.Background(), r)
}
