package main

import (
	"encoding/json"
	"fmt"
	"sort"
	"strings"
	"unicode/utf8"

	"github.com/hedzr/is"
	"github.com/hedzr/is/term/color"
	"github.com/hedzr/logg/slog"

	"verifharness/gen"
	"verifharness/mon"
	"verifharness/oracle"
)

func init() { reg("C17", "hist", c17hist) }

type regLevel struct {
	val      slog.Level
	title    string
	tags     [6]string
	hasTags  bool
	treatAs  slog.Level // meaningful if hasTreat
	hasTreat bool
	errDev   bool
	fg, bg   color.Color
	hasClr   bool
}

var builtinNames = []string{"fail", "success", "ok", "always", "off", "no", "disabled", "trace", "debug", "devel", "dev", "develop", "info", "warn", "warning", "error", "fatal", "panic"}

type c17env struct {
	log  *mon.Log
	w1   mon.W
	w2   mon.W
	w3   mon.W
	regs []regLevel
}

// observe collects every observable of the level tables into a map (used both for the
// per-level checks and for the "a refused registration changes nothing" comparison).
func (e *c17env) observe(universe []slog.Level, names []string) map[string]string {
	o := map[string]string{}
	var al []string
	for _, l := range slog.AllLevels() {
		al = append(al, fmt.Sprint(int(l)))
	}
	o["AllLevels"] = strings.Join(al, ",")
	for _, l := range universe {
		k := fmt.Sprintf("L%d/", int(l))
		o[k+"String"] = l.String()
		for n := 1; n <= 5; n++ {
			o[fmt.Sprintf("%stag%d", k, n)] = l.ShortTag(n)
		}
		if b, err := l.MarshalText(); err == nil {
			o[k+"text"] = string(b)
		} else {
			o[k+"text"] = "error"
		}
		// gating against every built-in logger level
		var g []byte
		for _, L := range builtinLevels {
			if L.Enabled(bg, l) {
				g = append(g, '1')
			} else {
				g = append(g, '0')
			}
		}
		o[k+"gate"] = string(g)
		// routing and colour: a colored probe on a logger with separate normal / error monitors
		lg := slog.New("reg").Root()
		lg.SetWriter(e.w1).SetErrorWriter(e.w2).SetLevel(slog.AlwaysLevel)
		e.log.Reset()
		if l != slog.OffLevel {
			lg.WriteThru(bg, l, c10ts, thePC, "regprobe", nil)
		}
		for _, ev := range e.log.Writes("") {
			o[k+"route"] += ev.W
			o[k+"bytes"] += string(ev.Data)
		}
	}
	for _, n := range names {
		is.SetDebugMode(false)
		l, err := parseQuiet(n)
		if err != nil {
			o["parse/"+n] = "error"
		} else {
			o["parse/"+n] = fmt.Sprint(int(l))
		}
	}
	return o
}

// parseQuiet calls ParseLevel; an unknown name makes the library log a warning on the default logger, which is harmless here.
func parseQuiet(n string) (slog.Level, error) { return slog.ParseLevel(n) }

func diffObs(a, b map[string]string) []string {
	var d []string
	for k, v := range a {
		if b[k] != v {
			d = append(d, fmt.Sprintf("%s: %q -> %q", k, clip(v, 80), clip(b[k], 80)))
		}
	}
	for k, v := range b {
		if _, ok := a[k]; !ok {
			d = append(d, fmt.Sprintf("%s: <absent> -> %q", k, clip(v, 80)))
		}
	}
	sort.Strings(d)
	if len(d) > 8 {
		d = append(d[:8], "…")
	}
	return d
}

func c17hist(c *Ctx) {
	// silence the warning ParseLevel prints for unknown names
	dl := slog.New("quiet")
	dl.SetWriter(discardW{}).SetErrorWriter(discardW{})
	slog.SetDefault(dl)
	slog.AddFlags(slog.LnoInterrupt)
	slog.RemoveFlags(slog.Lcaller)
	c.Each(func(idx int, r *gen.R) {
		e := &c17env{log: mon.NewLog()}
		e.w1 = mon.New(e.log, "N", mon.ShapePlain)
		e.w2 = mon.New(e.log, "E", mon.ShapePlain)
		e.w3 = mon.New(e.log, "OTHER-LEVEL", mon.ShapePlain)
		usedVals := map[slog.Level]bool{}
		for _, l := range builtinLevels {
			usedVals[l] = true
		}
		usedNames := map[string]bool{} // exact titles/names in use
		twin := ""                     // the title the NEXT registration will ask for (see the escaped-spelling pairs)
		usedLower := map[string]bool{}
		for _, n := range builtinNames {
			usedNames[n] = true
			usedLower[n] = true
		}
		treat := map[slog.Level]slog.Level{}
		for k, v := range builtinTreatAs {
			treat[k] = v
		}
		universe := append([]slog.Level(nil), builtinLevels...)
		universe = append(universe, 77, -5) // unregistered
		names := append([]string(nil), builtinNames...)
		names = append(names, "INFO", "Warning", "nosuchlevel", "")
		var hist []string
		fail := func(clause, feat, detail string) {
			c.R.Violation(idx, clause, "C17/"+clause+"/"+feat, detail, map[string]any{"history": hist})
		}
		nops := r.Range(1, 30)
		if idx == 0 {
			nops = 0 // the pristine registry
		}
		for op := 0; op <= nops; op++ {
			if op > 0 && r.P(12) {
				// the application lists the levels in ascending (or descending) order - it sorts what AllLevels() handed out.
				// The set of levels is what it was.
				ls := slog.AllLevels()
				desc := r.Bool()
				sort.Slice(ls, func(i, j int) bool { return (ls[i] < ls[j]) != desc })
				hist = append(hist, fmt.Sprintf("sort(AllLevels(), descending=%v)", desc))
				c.R.Add("histories_in_which_the_application_sorted_the_list_of_levels", 1)
			}
			if op > 0 {
				// one RegisterLevel call
				rl := regLevel{treatAs: -1}
				switch r.Intn(5) {
				case 0:
					rl.val = gen.Pick(r, universe) // colliding value
				default:
					rl.val = slog.Level(r.Range(-50, 70))
				}
				base := gen.Pick(r, []string{"notice", "swell", "audit", "hint", "verbose", "critical", "x", "ab", "info", "warn", "trace", "always", "custom"})
				if r.P(70) {
					base += fmt.Sprint(r.Intn(6))
				}
				switch r.Intn(4) {
				case 0:
					rl.title = strings.ToUpper(base)
				case 1:
					rl.title = strings.ToUpper(base[:1]) + base[1:]
				default:
					rl.title = base
				}
				switch {
				case r.P(4):
					rl.title = "" // an empty title is a title
				case r.P(8):
					rl.title = gen.Pick(r, []string{" ", "\t"}) + rl.title
				case r.P(8):
					rl.title += gen.Pick(r, []string{" ", "\n"})
				case r.P(6):
					rl.title = gen.Pick(r, []string{"qu\"ote", "back\\slash", "ctl\x01x", "uni\u00e9"}) + fmt.Sprint(r.Intn(4))
				}
				if r.P(6) {
					// short titles in other scripts: fewer characters than the widest tag, more bytes than characters
					rl.title = gen.Pick(r, []string{"n\u00e9", "\u65e5\u672c", "\u00e9", "\u00fc\u00df", "\u0416\u0443\u043a", "\U0001f600x"}) + gen.Pick(r, []string{"", "", "1", "\u00e9"})
					c.R.Add("short_non_ascii_titles_tried", 1)
				}
				if r.P(5) {
					// a title with the dotted capital I of Turkish: lower-casing turns it into a plain i, simple case folding
					// does not; whichever way names are matched, the levels that exist keep answering to THEIR names
					rl.title = gen.Pick(r, []string{"\u0130NFO", "\u0130nfo", "WARN\u0130NG", "P\u0130LOT", "pilot", "Pilot", "f\u0131x", "FIX"})
					c.R.Add("titles_with_dotted_or_dotless_i_tried", 1)
				}
				if r.P(6) {
					// a title that is itself wrapped in quotation marks (or is one of them twice): a title like any other,
					// it is not the quoted spelling of the name inside
					inner := gen.Pick(r, []string{rl.title, "info", "Quoted", "", "warn", "x"})
					qc := gen.Pick(r, []string{"\"", "'"})
					rl.title = qc + inner + qc
					c.R.Add("quote_wrapped_titles_tried", 1)
				}
				if r.P(8) {
					// a title that is a decimal number: often the numeric value of ANOTHER level (names and values are
					// different namespaces)
					rl.title = fmt.Sprint(int(gen.Pick(r, universe)))
					if r.P(30) {
						rl.title = fmt.Sprint(r.Range(-50, 70))
					}
					c.R.Add("numeric_titles_tried", 1)
				}
				if r.P(6) {
					// a title that looks like the placeholder printed for values WITHOUT a name (what one gets by copying
					// a name out of earlier output): of its own value, of another value, with a tail
					rl.title = gen.Pick(r, []string{fmt.Sprintf("L#%d", int(rl.val)), fmt.Sprintf("L#%d", int(gen.Pick(r, universe))), "L#2-cache", "L#", "l#9", "L#x"})
					c.R.Add("placeholder_like_titles_tried", 1)
				}
				if r.P(5) {
					// a title that holds a multi-byte character AND a byte that is no valid UTF-8 (a name cut out of Latin-1
					// text): every width still gives a tag of that many characters
					rl.title = gen.Pick(r, []string{"r\xe9sum\u00e9s", "\u00fcb\xfcr-x", "na\u00efve\xff-lvl", "\xc3caf\u00e9-y"}) + fmt.Sprint(r.Intn(4))
					c.R.Add("titles_with_a_multibyte_character_and_an_invalid_byte_tried", 1)
				}
				if r.P(5) {
					// a title longer than any stock name (33+ bytes; in other scripts that is 11-17 characters)
					rl.title = gen.Pick(r, []string{"a-level-name-that-is-rather-long-", "\u76e3\u67fb\u30ed\u30b0\u91cd\u8981\u5ea6\u30ec\u30d9\u30eb\u756a\u53f7", "\u0443\u0440\u043e\u0432\u0435\u043d\u044c-\u0436\u0443\u0440\u043d\u0430\u043b\u0430-", strings.Repeat("x", 64)}) + fmt.Sprint(int(rl.val))
					c.R.Add("titles_longer_than_32_bytes_tried", 1)
				}
				if twin != "" {
					// the title registered right before this one has a twin: its JSON-escaped spelling taken literally
					rl.title, twin = twin, ""
					c.R.Add("titles_that_are_the_escaped_spelling_of_another_title_tried", 1)
				} else if r.P(6) {
					pair := gen.Pick(r, [][2]string{{"net\tio", `net\tio`}, {`net\tio`, "net\tio"}, {"R&D", `R\u0026D`}, {`q\"x`, `q"x`}, {"caf\u00e9", `caf\u00e9`}, {`back\\slash`, `back\slash`}})
					rl.title, twin = pair[0], pair[1]
				}
				if r.P(15) && len(e.regs) > 0 {
					rl.title = gen.Pick(r, e.regs).title // colliding title
				}
				var opts []slog.RegOpt
				var odesc []string
				if r.P(50) {
					rl.hasTags = true
					t := []rune(strings.ToValidUTF8(strings.ToUpper(rl.title), "?") + "#####") // tags are cut at character boundaries
					rl.tags = [6]string{"", string(t[:1]), string(t[:2]), string(t[:3]), string(t[:4]), string(t[:5])}
					if r.P(30) {
						rl.tags[2] = "" // a missing width falls back to the computed tag
					}
					if r.P(12) {
						rl.tags[3] = string(t[:4]) // a tag wider than its slot: the given tags are used as given
						c.R.Add("tags_wider_than_their_slot_tried", 1)
					}
					opts = append(opts, slog.RegWithShortTags(rl.tags))
					odesc = append(odesc, "tags")
				}
				if r.P(50) {
					rl.treatAs = gen.Pick(r, []slog.Level{slog.ErrorLevel, slog.WarnLevel, slog.InfoLevel, slog.DebugLevel, slog.TraceLevel, slog.PanicLevel})
					if r.P(15) {
						// the target is a value below zero (an application's "more severe than Panic"): a level like any other
						rl.treatAs = gen.Pick(r, []slog.Level{-1, -3, -40})
						c.R.Add("levels_registered_as_treated_as_a_value_below_zero", 1)
					}
					if r.P(8) {
						// the target is Off ("treated as switched off": no logger level admits it except Always, which admits
						// everything) - the error-device request is a request like any other
						rl.treatAs = slog.OffLevel
						c.R.Add("levels_registered_as_treated_as_Off", 1)
					}
					if rl.val < 0 && r.P(25) {
						rl.treatAs = rl.val // "treated as itself" (accepted for values below zero): gated by its own value, like no entry at all
						c.R.Add("levels_registered_as_treated_as_themselves", 1)
					}
					rl.hasTreat = true
					opts = append(opts, slog.RegWithTreatedAsLevel(rl.treatAs))
					odesc = append(odesc, fmt.Sprintf("treatAs=%v", rl.treatAs))
				}
				if r.P(40) {
					rl.errDev = true
					switch r.Intn(4) {
					case 0:
						// (the option takes several values, as the mode setters do: the last one is the request)
						opts = append(opts, slog.RegWithPrintToErrorDevice(false, true))
						odesc = append(odesc, "errdev(false,true)")
					case 1:
						rl.errDev = false // (no value: nothing is requested)
						opts = append(opts, slog.RegWithPrintToErrorDevice())
						odesc = append(odesc, "errdev()")
					default:
						opts = append(opts, slog.RegWithPrintToErrorDevice(true))
						odesc = append(odesc, "errdev")
					}
				} else if r.P(10) {
					opts = append(opts, slog.RegWithPrintToErrorDevice(true, false))
					odesc = append(odesc, "errdev(true,false)")
				}
				if r.P(40) {
					rl.hasClr = true
					rl.fg = gen.Pick(r, []color.Color{color.FgRed, color.FgBlue, color.FgLightCyan})
					if r.Bool() {
						rl.bg = gen.Pick(r, []color.Color{color.BgUnderline, color.BgBlink})
						opts = append(opts, slog.RegWithColor(rl.fg, rl.bg))
					} else {
						opts = append(opts, slog.RegWithColor(rl.fg))
					}
					odesc = append(odesc, "colour")
				}
				valUsed := usedVals[rl.val]
				exactUsed := usedNames[rl.title]
				caseVariant := !exactUsed && usedLower[strings.ToLower(rl.title)]
				step := fmt.Sprintf("RegisterLevel(%d,%q,%v)", int(rl.val), rl.title, odesc)
				hist = append(hist, step)
				c.R.JournalNote(step)
				uni2 := append(append([]slog.Level(nil), universe...), rl.val)
				names2 := append(append([]string(nil), names...), rl.title, strings.ToLower(rl.title), strings.ToUpper(rl.title))
				before := e.observe(uni2, names2)
				err := slog.RegisterLevel(rl.val, rl.title, opts...)
				c.R.Add("register_calls", 1)
				mustRefuse := valUsed || exactUsed
				switch {
				case mustRefuse && err == nil:
					why := "the numeric value is in use"
					if !valUsed {
						why = "the title is in use"
					}
					fail("refusal", "accepted-duplicate", fmt.Sprintf("%s was accepted although %s", step, why))
					return
				case err != nil:
					// whatever the reason of a refusal: it leaves every table as it was
					after := e.observe(uni2, names2)
					if d := diffObs(before, after); len(d) > 0 {
						fail("refusal-side-effect", "tables-changed", fmt.Sprintf("%s was refused (%v) but changed: %v", step, err, d))
						return
					}
					if !mustRefuse && !caseVariant {
						fail("refusal", "refused-fresh", fmt.Sprintf("%s was refused (%v) although value and title are unused", step, err))
						return
					}
					c.R.Add("refusals_checked_for_side_effects", 1)
					continue
				}
				// accepted
				c.R.Add("registrations_accepted", 1)
				if caseVariant {
					c.R.Add("case_variant_titles_accepted", 1)
				}
				e.regs = append(e.regs, rl)
				usedVals[rl.val] = true
				usedNames[rl.title] = true
				usedLower[strings.ToLower(rl.title)] = true
				if rl.hasTreat {
					treat[rl.val] = rl.treatAs
				}
				universe = append(universe, rl.val)
				names = append(names, rl.title)
			}
			// after every operation: every level of the universe
			regBy := map[slog.Level]*regLevel{}
			for i := range e.regs {
				regBy[e.regs[i].val] = &e.regs[i]
			}
			for _, l := range universe {
				rl := regBy[l]
				known := rl != nil || (l >= 0 && l < slog.MaxLevel)
				cls := "builtin"
				if rl != nil {
					cls = "registered"
				} else if !known {
					cls = "unregistered"
				}
				if known {
					name := l.String()
					if rl != nil && name != rl.title {
						fail("title", "string", fmt.Sprintf("level %d registered as %q prints as %q", int(l), rl.title, name))
						return
					}
					got, err := parseQuiet(name)
					if err != nil || got != l {
						fail("name-roundtrip", cls+"-"+caseClass(name), fmt.Sprintf("ParseLevel(String(%d)=%q) = %d, %v", int(l), name, int(got), err))
						return
					}
					b, err := l.MarshalText()
					var back slog.Level = -999
					if err == nil {
						err = back.UnmarshalText(b)
					}
					if err != nil || back != l {
						fail("text-roundtrip", cls+"-"+caseClass(name), fmt.Sprintf("level %d: MarshalText=%q, UnmarshalText -> %d, %v", int(l), b, int(back), err))
						return
					}
					jb, err := l.MarshalJSON()
					back = -999
					if err == nil {
						err = back.UnmarshalJSON(jb)
					}
					if err != nil || back != l {
						fail("json-roundtrip", cls, fmt.Sprintf("level %d: MarshalJSON=%s, UnmarshalJSON -> %d, %v", int(l), jb, int(back), err))
						return
					}
					type box struct {
						L slog.Level `json:"l"`
					}
					eb, err := json.Marshal(box{l})
					var bx box
					bx.L = -999
					if err == nil {
						err = json.Unmarshal(eb, &bx)
					}
					if err != nil || bx.L != l {
						fail("json-roundtrip", cls+"-encoding/json", fmt.Sprintf("level %d through encoding/json: %s -> %d, %v", int(l), eb, int(bx.L), err))
						return
					}
					c.R.Add("roundtrips", 4)
				}
				// short tags
				for n := 1; n <= 5; n++ {
					tag := l.ShortTag(n)
					if rl != nil && rl.hasTags && rl.tags[n] != "" {
						if tag != rl.tags[n] {
							fail("short-tag", "custom", fmt.Sprintf("level %d ShortTag(%d)=%q, registered tag %q", int(l), n, tag, rl.tags[n]))
							return
						}
						continue
					}
					if rl != nil || !known || true {
						custom := rl != nil && rl.hasTags && rl.tags[n] != ""
						builtinTag := known && rl == nil
						if !custom && !builtinTag && utf8.RuneCountInString(tag) != n {
							fail("short-tag", "width", fmt.Sprintf("level %d (%q) ShortTag(%d)=%q has %d characters", int(l), l.String(), n, tag, utf8.RuneCountInString(tag)))
							return
						}
						if builtinTag && utf8.RuneCountInString(tag) != n {
							fail("short-tag", "width-builtin", fmt.Sprintf("built-in level %v ShortTag(%d)=%q has %d characters", l, n, tag, utf8.RuneCountInString(tag)))
							return
						}
					}
				}
				c.R.Add("short_tags_checked", 5)
				// gating as treated-as, routing to the error device iff requested
				if rl != nil {
					for _, L := range builtinLevels {
						is.SetDebugMode(false)
						want := admit(L, l, false, treat)
						if got := L.Enabled(bg, l); got != want {
							fail("gating", "treat-as", fmt.Sprintf("logger level %v, custom level %d (treated as %v): Enabled=%v, rule says %v", L, int(l), rl.treatAs, got, want))
							return
						}
					}
					lg := slog.New("route").Root()
					lg.SetWriter(e.w1).SetErrorWriter(e.w2).SetLevel(slog.AlwaysLevel).SetColorMode(false)
					// the logger may have (or have had) a writer for some OTHER level: that is no business of this one
					// ... and a writer it had for THIS level and has no more leaves the level where its registration put it
					switch (op + int(l)) % 4 {
					case 1:
						lg.AddLevelWriter(slog.Level(4242), e.w3)
					case 2:
						lg.AddLevelWriter(slog.Level(4242), e.w3)
						lg.RemoveLevelWriter(slog.Level(4242), e.w3)
					case 3:
						lg.AddLevelWriter(l, e.w3)
						lg.RemoveLevelWriter(l, e.w3)
						c.R.Add("route_probes_after_a_writer_for_the_level_was_added_and_removed", 1)
					}
					e.log.Reset()
					lg.LogAttrs(bg, l, "route-probe")
					ws := e.log.Writes("")
					wantW := "N"
					if rl.errDev {
						wantW = "E"
					}
					if len(ws) != 1 || ws[0].W != wantW {
						fail("routing", "error-device", fmt.Sprintf("custom level %d (error device requested: %v) was routed to %s", int(l), rl.errDev, fmtEvents(e.log.Events())))
						return
					}
					// ... and so is a line that reaches the logger through a std log bridge made for this severity; on a logger at
					// Warn the line is admitted iff the rule admits the severity there
					e.log.Reset()
					slog.NewLogLogger(lg, l).Print("bridged-route-probe")
					if ws := e.log.Writes(""); len(ws) != 1 || ws[0].W != wantW {
						fail("routing", "error-device-through-the-bridge", fmt.Sprintf("a line through NewLogLogger(logger, %d) (error device requested: %v) was routed to %s", int(l), rl.errDev, fmtEvents(e.log.Events())))
						return
					}
					lg.SetLevel(slog.WarnLevel)
					e.log.Reset()
					slog.NewLogLogger(lg, l).Print("bridged-gate-probe")
					is.SetDebugMode(false)
					if got, want := len(e.log.Writes("")) > 0, admit(slog.WarnLevel, l, false, treat); got != want {
						fail("gating", "treat-as-through-the-bridge", fmt.Sprintf("logger level warn, a line through NewLogLogger(logger, %d) (treated as %v): emitted=%v, rule says %v", int(l), rl.treatAs, got, want))
						return
					}
					lg.SetLevel(slog.AlwaysLevel)
					// the tag printed in a colored record is the level's short tag of the configured width
					clg := slog.New("tag").Root()
					clg.SetWriter(e.w1).SetErrorWriter(e.w1).SetLevel(slog.AlwaysLevel).SetColorMode(true)
					e.log.Reset()
					clg.WriteThru(bg, l, c10ts, thePC, "tag-probe", nil)
					if ws := e.log.Writes(""); len(ws) == 1 {
						text := oracle.StripANSI(ws[0].Data)
						if want := "[" + l.ShortTag(3) + "]"; !strings.Contains(text, " "+want+" ") {
							fail("short-tag", "colored-record", fmt.Sprintf("level %d (%q): the colored record %q does not carry the tag %q", int(l), rl.title, clip(text, 80), want))
							return
						}
					}
					if got, err := parseQuiet(rl.title); err != nil || got != l {
						fail("title", "answers-to-title", fmt.Sprintf("ParseLevel(%q) = %d, %v; registered for %d", rl.title, int(got), err, int(l)))
						return
					}
					c.R.Add("custom_levels_probed", 1)
				}
			}
			// names keep resolving to what they resolved to (an accepted registration must not hijack another name)
			for _, n := range builtinNames {
				got, err := parseQuiet(n)
				want := map[string]slog.Level{"fail": slog.FailLevel, "success": slog.SuccessLevel, "ok": slog.OKLevel, "always": slog.AlwaysLevel, "off": slog.OffLevel, "no": slog.OffLevel, "disabled": slog.OffLevel,
					"trace": slog.TraceLevel, "debug": slog.DebugLevel, "devel": slog.DebugLevel, "dev": slog.DebugLevel, "develop": slog.DebugLevel, "info": slog.InfoLevel, "warn": slog.WarnLevel, "warning": slog.WarnLevel,
					"error": slog.ErrorLevel, "fatal": slog.FatalLevel, "panic": slog.PanicLevel}[n]
				if err != nil || got != want {
					fail("builtin-name", "hijacked", fmt.Sprintf("ParseLevel(%q) = %d, %v; expected the built-in %d", n, int(got), err, int(want)))
					return
				}
			}
		}
		c.R.Max("max_registered", int64(len(e.regs)))
		c.R.NonTrivial(strings.Join(hist, ";"), idx)
		if c.R.WantSample() && len(hist) > 2 {
			c.R.Sample(idx, map[string]any{"history": hist}, map[string]any{"accepted": len(e.regs)})
		}
	})
}

func caseClass(s string) string {
	if s == strings.ToLower(s) {
		return "lowercase-title"
	}
	return "mixedcase-title"
}

type discardW struct{}

func (discardW) Write(p []byte) (int, error) { return len(p), nil }
