package main

import (
	"syscall"
	"bytes"
	"fmt"
	stdslog "log/slog"
	"os"
	"reflect"
	"runtime"
	"strings"
	"sync"
	"sync/atomic"
	"time"

	"github.com/hedzr/logg/slog"

	"verifharness/gen"
	"verifharness/mon"
)

func init() { reg("C08", "side", c08side) }

// c08side: concurrent logging next to things an application does at the same time and that the plain stress leaves out:
//
//	failing   - one logger's destination reports errors while other loggers (caller information switched on) keep
//	            logging: their records stay complete, caller part included, and nothing is lost anywhere
//	frontend  - records through a log/slog.Logger derived with .With(...) (attributes unsorted, one key twice), many of
//	            them without attributes of their own, from several goroutines
//	chdir     - the process has changed its working directory; half of the records are issued through reflection (the
//	            caller frame then lies in the Go installation, outside every known directory), the others normally
//
// Oracle: every payload is the complete record of exactly one call, the multiset delivered equals the multiset issued;
// the race children run the same under the race detector.
func c08side(c *Ctx) {
	scenarios := []string{"failing", "frontend", "chdir", "closed-elsewhere"}
	c.Each(func(idx int, r *gen.R) {
		sc := scenarios[idx%len(scenarios)]
		G := gen.Pick(r, []int{2, 4, 8, 32})
		N := r.Range(600, 1500) / G
		procs := gen.Pick(r, []int{2, 4, 16})
		oldProcs := runtime.GOMAXPROCS(procs)
		defer runtime.GOMAXPROCS(oldProcs)
		restore := withFlags(slog.Lcaller, 0)
		defer restore()
		log := mon.NewLog()
		f := gen.Pick(r, []Format{FJSON, FLogfmt})
		w0 := mon.New(log, "W0", mon.ShapePlain)
		w0.Core().Yield = r.Bool()
		l0 := newRoot("side0", f, w0, slog.AlwaysLevel)
		desc := map[string]any{"scenario": sc, "goroutines": G, "calls_per_goroutine": N, "gomaxprocs": procs, "format": f.String()}
		c.R.Distinct("side_scenarios", sc)
		var issued0, issued1, issuedStd int64
		var wg sync.WaitGroup
		start := make(chan struct{})
		wantAttrs := map[string]string{}
		wantWithID := map[string]string{} // attributes of the records that carry an id attribute
		callerFn := "c08side"
		behind := false // W1B stands behind the failing W1: it gets what W1 was handed
		var stdout func() (out1, out2 []byte)
		perGoroutine := false // records that carry "own" went through a logger derived by their goroutine: req == own
		var sharedIntact func() string // after the load: is the value all goroutines shared what the application built?

		switch sc {
		case "failing":
			shape := mon.ShapePlain
			if idx%8 >= 4 {
				shape = mon.ShapeLvlPlain // destinations that want to be told the severity before each Write
			}
			w1 := mon.New(log, "W1", shape)
			w1.Core().Fail = func(att int, p []byte) (bool, int) { return att%3 != 0, len(p) / 2 }
			// what the failing destination says: a plain error, "try again" (EAGAIN: an error that calls itself temporary),
			// a wrapped "interrupted" - whatever it says, every destination of the list is handed a record ONCE
			w1.Core().Err = func(att int) error {
				switch att % 3 {
				case 1:
					return syscall.EAGAIN
				case 2:
					return fmt.Errorf("write /var/log/side.log: %w", syscall.EINTR)
				}
				return nil
			}
			we := mon.New(log, "W1E", shape) // the failing logger's diagnostics go here
			w1b := mon.New(log, "W1B", mon.ShapePlain)
			l1 := newRoot("side1", f, w1, slog.AlwaysLevel)
			l1.AddWriter(w1b) // a healthy destination BEHIND the failing one: it gets every record of that logger
			if idx%8 == 0 || idx%8 == 4 {
				// ... and behind that a log file that was closed under the logger (rotated away): every Write to it fails with
				// os.ErrClosed, for every goroutine, all the time
				if cf, err := os.CreateTemp("", "c08-closed-*.log"); err == nil {
					_ = cf.Close()
					_ = os.Remove(cf.Name())
					l1.AddWriter(cf)
					c.R.Add("side_cases_with_a_closed_file_in_the_destination_list", 1)
				}
			}
			behind = true
			l1.SetErrorWriter(we)
			for g := 0; g < G; g++ {
				g := g
				wg.Add(1)
				go func() {
					defer wg.Done()
					<-start
					for k := 0; k < N; k++ {
						id := fmt.Sprintf("g%dk%d;", g, k)
						if (g+k)%3 == 0 {
							l1.Info("f-"+id, "id", id)
							atomic.AddInt64(&issued1, 1)
						} else {
							l0.Info("m-"+id, "id", id, "n", k)
							atomic.AddInt64(&issued0, 1)
						}
					}
				}()
			}
		case "frontend":
			h := slog.NewSlogHandler(l0, &slog.HandlerOptions{NoColor: true, JSON: f == FJSON, Level: slog.PanicLevel})
			l0.SetLevel(slog.AlwaysLevel)
			sl := stdslog.New(h)
			// the base logger went through 0-7 further derivation steps; every goroutine derives a logger OF ITS OWN from it
			// (the per-request pattern) while the others do the same, and uses it: a record carries the attribute of the
			// logger it went through
			steps := []int{0, 2, 4, 0, 6, 0, 5, 3, 1, 7}[(idx/4)%10] // (with the last step: 1, 3, 5, 1, 7, 1, 6, 4, 2, 8 entries in the derivation list: one entry = the shared list itself reaches the formatter; 3, 5-7 = spare capacity behind the list)
			for i := 0; i < steps; i++ {
				sl = sl.With(fmt.Sprintf("s%d", i), i)
			}
			// the LAST step of the shared base holds attributes that are unsorted and name one key twice: every record without
			// attributes of its own has to sort and dedupe them - for itself
			sl = sl.With("zone", "eu", "svc", "x", "alpha", 1, "svc", "y")
			desc["derivation_steps_of_the_base_logger"] = steps + 1
			sl2 := sl.With("tail", "t")
			// one group value shared by all goroutines; it holds a zero Attr (log/slog asks handlers to ignore those)
			sharedGroup := stdslog.Group("sg", stdslog.Int("a", 1), stdslog.Attr{}, stdslog.String("z", "Z"), stdslog.Attr{}, stdslog.Group("in", stdslog.Attr{}, stdslog.Int("q", 2)))
			sharedIntact = func() string {
				// logging reads the values it is given. A value shared by all goroutines that reads differently after the
				// load was WRITTEN by the library - a data race whenever two such calls overlap, whether or not the race
				// detector happened to see one
				spell := func(as []stdslog.Attr) string {
					var sb strings.Builder
					for _, a := range as {
						if a.Equal(stdslog.Attr{}) {
							sb.WriteString("<zero> ")
						} else {
							sb.WriteString(a.Key + " ")
						}
					}
					return sb.String()
				}
				top := sharedGroup.Value.Group()
				got := spell(top)
				if len(top) == 5 && top[4].Value.Kind() == stdslog.KindGroup {
					got += "| " + spell(top[4].Value.Group())
				}
				if want := "a <zero> z <zero> in | <zero> q "; got != want {
					return fmt.Sprintf("the group value all goroutines logged reads [%s] after the load, the application built [%s]", got, want)
				}
				return ""
			}
			wantAttrs = map[string]string{"zone": "eu", "svc": "y", "alpha": "1"}
			for i := 0; i < steps; i++ {
				wantAttrs[fmt.Sprintf("s%d", i)] = fmt.Sprint(i)
			}
			perGoroutine = true
			wantWithID = map[string]string{"sg.a": "1", "sg.z": "Z", "sg.in.q": "2"}
			callerFn = "" // the adapter's records carry the program counter log/slog captured: not judged here
			for g := 0; g < G; g++ {
				g := g
				wg.Add(1)
				go func() {
					defer wg.Done()
					<-start
					mine := sl.With("req", g)
					for k := 0; k < N; k++ {
						id := fmt.Sprintf("g%dk%d;", g, k)
						sel := (g + k) % 4
						if k == 0 {
							sel = 3 // every goroutine starts with a record without attributes through the shared base, all at once
						}
						switch sel {
						case 2:
							mine.Info("m-"+id, "own", g)
						case 0:
							sl.Info("m-"+id, "id", id, sharedGroup)
						case 1:
							sl2.Warn("m-" + id) // no attributes of its own
						default:
							sl.Info("m-" + id) // no attributes of its own
						}
						atomic.AddInt64(&issued0, 1)
					}
				}()
			}
		case "chdir":
			dir := fmt.Sprintf("c08-elsewhere-%d", idx)
			_ = os.MkdirAll(dir, 0o755)
			old, _ := os.Getwd()
			if err := os.Chdir(dir); err == nil {
				defer func() { _ = os.Chdir(old); _ = os.Remove(dir) }()
			}
			callerFn = ""
			viaReflect := reflect.ValueOf(l0.Info)
			for g := 0; g < G; g++ {
				g := g
				wg.Add(1)
				go func() {
					defer wg.Done()
					<-start
					for k := 0; k < N; k++ {
						id := fmt.Sprintf("g%dk%d;", g, k)
						if k%2 == 0 {
							// called through reflection: the caller frame of this record lies in the Go installation
							// (reflect/value.go), outside the start directory, the working directory and $HOME
							viaReflect.Call([]reflect.Value{reflect.ValueOf("m-" + id), reflect.ValueOf("id"), reflect.ValueOf(id)})
						} else {
							l0.Info("m-"+id, "id", id)
						}
						atomic.AddInt64(&issued0, 1)
					}
				}()
			}
		case "closed-elsewhere":
			// loggers that were never given writers log to the process's stdout while request-scoped children of theirs
			// are made, used and CLOSED (the usual `defer l.Close()`) by every goroutine: closing one logger is no
			// business of the others, every record arrives on stdout
			callerFn = ""
			lstd := slog.New(fmt.Sprintf("std%d", idx)).Root()
			setFormat(lstd, f)
			lstd.SetLevel(slog.AlwaysLevel)
			stdout = borrowFds()
			for g := 0; g < G; g++ {
				g := g
				// (every goroutine derives its request loggers from a parent of ITS OWN: deriving from one parent in
				// several goroutines at once is configuration, which the library does not synchronise)
				mine := slog.New(fmt.Sprintf("own%d-%d", idx, g)).Root()
				setFormat(mine, f)
				if g%2 == 1 {
					mine.SetLevel(slog.AlwaysLevel) // (a level is no writer: these loggers still own none)
				}
				wg.Add(1)
				go func() {
					defer wg.Done()
					defer mine.Close()
					<-start
					for k := 0; k < N; k++ {
						id := fmt.Sprintf("g%dk%d;", g, k)
						if k%16 == 3 {
							req := mine.New(fmt.Sprintf("req-%d-%d", g, k))
							req.Info("r-" + id)
							req.Close()
						}
						// (every third record is of the error class: it goes to the process's stderr)
						if k%3 == 2 {
							lstd.Warn("m-"+id, "id", id)
						} else {
							lstd.Info("m-"+id, "id", id)
						}
						atomic.AddInt64(&issuedStd, 1)
					}
				}()
			}
		}
		close(start)
		finished := make(chan struct{})
		go func() { wg.Wait(); close(finished) }()
		select {
		case <-finished:
		case <-time.After(2 * time.Minute):
			// calls that do not return (a few thousand records take a second or two): nothing can be said about them
			// without a clock - the run is inconclusive
			c.R.Add("watchdog_timeouts", 1)
			if stdout != nil {
				stdout()
			}
			// the stuck goroutines are still alive: leave the process now (report closed properly) rather than go on
			// with later cases next to them
			c.R.Done()
			os.Exit(0)
		}
		if sharedIntact != nil {
			c.R.Add("shared_values_compared_with_what_the_application_built", 1)
			if why := sharedIntact(); why != "" {
				c.R.Violation(idx, "race", "C08/side/"+sc+"/shared-value-written", why, desc)
				return
			}
		}
		if stdout != nil {
			out1, out2 := stdout()
			out1 = append(append([]byte(nil), out1...), out2...)
			seen := map[string]int{}
			for _, ln := range bytes.Split(out1, []byte{'\n'}) {
				i := bytes.Index(ln, []byte("m-g"))
				if i < 0 {
					continue
				}
				if j := bytes.IndexByte(ln[i:], ';'); j > 0 {
					seen[string(ln[i+2:i+j+1])]++
				}
			}
			c.R.Add("records_read_back_from_the_process_stdout", int64(len(seen)))
			if int64(len(seen)) != issuedStd {
				c.R.Violation(idx, "loss-or-duplication", "C08/side/"+sc+"/stdout", fmt.Sprintf("%d calls issued on a logger that writes to the process's stdout / stderr (other goroutines made, used and closed request-scoped loggers of their own meanwhile), %d distinct records arrived there", issuedStd, len(seen)), desc)
				return
			}
			for id, n := range seen {
				if n != 1 {
					c.R.Violation(idx, "loss-or-duplication", "C08/side/"+sc+"/stdout", fmt.Sprintf("record %s arrived %d times on stdout / stderr", id, n), desc)
					return
				}
			}
		}
		evs := log.Events()
		c.R.Add("side_calls", issued0+issued1)
		c.R.Add("write_events", int64(len(evs)))
		c.R.Max("max_writes_in_flight", int64(log.MaxIn))
		got0 := map[string]int{}
		got1 := map[string]int{}
		got1b := map[string]int{}
		diags := 0
		for _, e := range evs {
			if e.Kind != mon.EvWrite {
				continue
			}
			if bytes.Contains(e.Data, []byte(diagText)) {
				diags++
				continue
			}
			if e.W == "W1B" {
				i := bytes.Index(e.Data, []byte("f-g"))
				if i < 0 || e.Data[len(e.Data)-1] != '\n' {
					c.R.Violation(idx, "torn-or-corrupt", "C08/side/"+sc+"/destination-behind-the-failing-one", fmt.Sprintf("payload at the healthy destination behind the failing one is not one whole record: %s", q(clip(string(e.Data), 600))), desc)
					return
				}
				j := bytes.IndexByte(e.Data[i:], ';')
				got1b[string(e.Data[i+2:i+j+1])]++
				continue
			}
			if e.W == "W1" {
				// the failing destination was handed the whole record (it then reports an error)
				i := bytes.Index(e.Data, []byte("f-g"))
				if i < 0 || e.Data[len(e.Data)-1] != '\n' {
					c.R.Violation(idx, "torn-or-corrupt", "C08/side/"+sc+"/failing-destination", fmt.Sprintf("payload handed to the failing destination is not one whole record: %s", q(clip(string(e.Data), 600))), desc)
					return
				}
				j := bytes.IndexByte(e.Data[i:], ';')
				got1[string(e.Data[i+2:i+j+1])]++
				continue
			}
			d, err := decodeRecord(f, e.Data, true, true)
			if err != nil {
				c.R.Violation(idx, "torn-or-corrupt", "C08/side/"+sc+"/decode", fmt.Sprintf("payload at %s does not decode: %v\npayload: %s", e.W, err, q(clip(string(e.Data), 900))), desc)
				return
			}
			if !strings.HasPrefix(d.Msg, "m-g") || !strings.HasSuffix(d.Msg, ";") {
				c.R.Violation(idx, "torn-or-corrupt", "C08/side/"+sc+"/message", fmt.Sprintf("message %q is not that of one call\npayload: %s", clip(d.Msg, 100), q(clip(string(e.Data), 900))), desc)
				return
			}
			id := d.Msg[2:]
			attrs := map[string]string{}
			for _, a := range d.Attrs {
				if _, dup := attrs[a.Key]; dup {
					c.R.Violation(idx, "torn-or-corrupt", "C08/side/"+sc+"/attribute-twice", fmt.Sprintf("attribute %s appears twice\npayload: %s", a.Key, q(clip(string(e.Data), 900))), desc)
					return
				}
				attrs[a.Key] = a.Text
			}
			if v, ok := attrs["id"]; ok && v != id {
				c.R.Violation(idx, "torn-or-corrupt", "C08/side/"+sc+"/foreign-attribute", fmt.Sprintf("record of call %s carries id=%q\npayload: %s", id, v, q(clip(string(e.Data), 900))), desc)
				return
			}
			if own, ok := attrs["own"]; perGoroutine && ok {
				if attrs["req"] != own || !strings.HasPrefix(id, "g"+own+"k") {
					c.R.Violation(idx, "torn-or-corrupt", "C08/side/"+sc+"/derived-logger-attribute", fmt.Sprintf("record of call %s went through the logger its goroutine derived with req=%s; it carries req=%q (attributes %v)\npayload: %s", id, own, attrs["req"], briefAttrs(d.Attrs), q(clip(string(e.Data), 900))), desc)
					return
				}
				c.R.Add("records_through_a_logger_derived_by_their_goroutine", 1)
			} else if _, has := attrs["req"]; perGoroutine && has {
				c.R.Violation(idx, "torn-or-corrupt", "C08/side/"+sc+"/derived-logger-attribute", fmt.Sprintf("record of call %s went through the shared base logger, it carries req=%q of some goroutine's own logger\npayload: %s", id, attrs["req"], q(clip(string(e.Data), 900))), desc)
				return
			}
			if _, ok := attrs["id"]; ok {
				for k, v := range wantWithID {
					if attrs[k] != v {
						c.R.Violation(idx, "torn-or-corrupt", "C08/side/"+sc+"/shared-group", fmt.Sprintf("record of call %s: attribute %s=%q, the shared group value holds %q (attributes %v)\npayload: %s", id, k, attrs[k], v, briefAttrs(d.Attrs), q(clip(string(e.Data), 900))), desc)
						return
					}
				}
			}
			for k, v := range wantAttrs {
				if attrs[k] != v {
					c.R.Violation(idx, "torn-or-corrupt", "C08/side/"+sc+"/handler-attributes", fmt.Sprintf("record of call %s: attribute %s=%q, the derived handler carries %q (attributes %v)\npayload: %s", id, k, attrs[k], v, briefAttrs(d.Attrs), q(clip(string(e.Data), 900))), desc)
					return
				}
			}
			if callerFn != "" && !strings.Contains(d.Caller["function"], callerFn) {
				c.R.Violation(idx, "torn-or-corrupt", "C08/side/"+sc+"/caller-part", fmt.Sprintf("record of call %s on a healthy logger: caller information is switched on, the record's caller part reads %v\npayload: %s", id, d.Caller, q(clip(string(e.Data), 900))), desc)
				return
			}
			got0[id]++
		}
		if int64(len(got0)) != issued0 || int64(len(got1)) != issued1 {
			c.R.Violation(idx, "loss-or-duplication", "C08/side/"+sc+"/multiset", fmt.Sprintf("%d + %d calls issued, %d + %d distinct records delivered", issued0, issued1, len(got0), len(got1)), desc)
			return
		}
		for id, n := range got0 {
			if n != 1 {
				c.R.Violation(idx, "loss-or-duplication", "C08/side/"+sc+"/multiset", fmt.Sprintf("record %s delivered %d times", id, n), desc)
				return
			}
		}
		if behind {
			if int64(len(got1b)) != issued1 {
				c.R.Violation(idx, "loss-or-duplication", "C08/side/"+sc+"/destination-behind-the-failing-one", fmt.Sprintf("%d calls issued on the logger whose first destination fails, %d distinct records reached the healthy destination behind it", issued1, len(got1b)), desc)
				return
			}
			for id, n := range got1b {
				if n != 1 {
					c.R.Violation(idx, "loss-or-duplication", "C08/side/"+sc+"/destination-behind-the-failing-one", fmt.Sprintf("record %s reached the healthy destination behind the failing one %d times", id, n), desc)
					return
				}
			}
		}
		for id, n := range got1 {
			if n != 1 {
				c.R.Violation(idx, "loss-or-duplication", "C08/side/"+sc+"/multiset", fmt.Sprintf("record %s handed to the failing destination %d times", id, n), desc)
				return
			}
		}
		c.R.Add("side_records_decoded", int64(len(got0)+len(got1)))
		c.R.Add("diagnostics_about_the_failing_destination_seen", int64(diags))
		c.R.NonTrivial("side", sc, idx, c.X("race", ""))
		if c.R.WantSample() {
			desc["observed"] = map[string]any{"write_events": len(evs), "max_in_flight": log.MaxIn, "diagnostics": diags}
			c.R.Sample(idx, desc, nil)
		}
	})
}
