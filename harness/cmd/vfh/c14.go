// NOTE: do NOT run gofmt on this file: every call-site literal must stay on ONE line (see c14entries).
package main

import (
	"context"
	"fmt"
	stdlog "log"
	stdslog "log/slog"
	"os"
	"path/filepath"
	"runtime"
	"strconv"
	"strings"

	"github.com/hedzr/logg/slog"
	errorsv3 "gopkg.in/hedzr/errors.v3"

	"verifharness/gen"
	"verifharness/mon"
)

func init() { reg("C14", "sites", c14sites) }

type site struct {
	File string
	Line int
	Func string
}

// here returns the logical call stack starting at its caller (inlining expanded by CallersFrames).
// Every call site below is a one-line function literal, so here() and the logging call share a line.
func here() []site {
	pcs := make([]uintptr, 16)
	n := runtime.Callers(2, pcs)
	frames := runtime.CallersFrames(pcs[:n])
	var out []site
	for {
		fr, more := frames.Next()
		out = append(out, site{fr.File, fr.Line, fr.Function})
		if !more || len(out) >= 10 {
			break
		}
	}
	return out
}

type c14entry struct {
	name string
	kind string // native | pkg | slogadapter | bridge
	call func(l slog.Logger, sl *stdslog.Logger, bl *stdlog.Logger, c context.Context) []site
}

const cm = "caller-probe"

// stackErr carries a stack trace (gopkg.in/hedzr/errors.v3): its origin is printed in the error's own trace
// and must never be taken for the caller of the record.
var stackErr = makeStackErr()

func makeStackErr() error { return errorsv3.New("error created elsewhere") }

// NOTE: keep every function literal on ONE line: the expected line is the line of here().
func c14entries() []c14entry {
	return []c14entry{
		{"Error", "native", func(l slog.Logger, _ *stdslog.Logger, _ *stdlog.Logger, c context.Context) []site { s := here(); l.Error(cm, "a", 1); return s }},
		{"Warn", "native", func(l slog.Logger, _ *stdslog.Logger, _ *stdlog.Logger, c context.Context) []site { s := here(); l.Warn(cm, "a", 1); return s }},
		{"Info", "native", func(l slog.Logger, _ *stdslog.Logger, _ *stdlog.Logger, c context.Context) []site { s := here(); l.Info(cm, "a", 1); return s }},
		{"Debug", "native", func(l slog.Logger, _ *stdslog.Logger, _ *stdlog.Logger, c context.Context) []site { s := here(); l.Debug(cm, "a", 1); return s }},
		{"Trace", "native", func(l slog.Logger, _ *stdslog.Logger, _ *stdlog.Logger, c context.Context) []site { s := here(); l.Trace(cm, "a", 1); return s }},
		{"Print", "native", func(l slog.Logger, _ *stdslog.Logger, _ *stdlog.Logger, c context.Context) []site { s := here(); l.Print(cm, "a", 1); return s }},
		{"Println", "native", func(l slog.Logger, _ *stdslog.Logger, _ *stdlog.Logger, c context.Context) []site { s := here(); l.Println(cm, "a", 1); return s }},
		{"OK", "native", func(l slog.Logger, _ *stdslog.Logger, _ *stdlog.Logger, c context.Context) []site { s := here(); l.OK(cm, "a", 1); return s }},
		{"Success", "native", func(l slog.Logger, _ *stdslog.Logger, _ *stdlog.Logger, c context.Context) []site { s := here(); l.Success(cm, "a", 1); return s }},
		{"Fail", "native", func(l slog.Logger, _ *stdslog.Logger, _ *stdlog.Logger, c context.Context) []site { s := here(); l.Fail(cm, "a", 1); return s }},
		{"Panic", "native", func(l slog.Logger, _ *stdslog.Logger, _ *stdlog.Logger, c context.Context) []site { s := here(); l.Panic(cm, "a", 1); return s }},
		{"Fatal", "native", func(l slog.Logger, _ *stdslog.Logger, _ *stdlog.Logger, c context.Context) []site { s := here(); l.Fatal(cm, "a", 1); return s }},
		{"ErrorContext", "native", func(l slog.Logger, _ *stdslog.Logger, _ *stdlog.Logger, c context.Context) []site { s := here(); l.ErrorContext(c, cm, "a", 1); return s }},
		{"WarnContext", "native", func(l slog.Logger, _ *stdslog.Logger, _ *stdlog.Logger, c context.Context) []site { s := here(); l.WarnContext(c, cm, "a", 1); return s }},
		{"InfoContext", "native", func(l slog.Logger, _ *stdslog.Logger, _ *stdlog.Logger, c context.Context) []site { s := here(); l.InfoContext(c, cm, "a", 1); return s }},
		{"DebugContext", "native", func(l slog.Logger, _ *stdslog.Logger, _ *stdlog.Logger, c context.Context) []site { s := here(); l.DebugContext(c, cm, "a", 1); return s }},
		{"TraceContext", "native", func(l slog.Logger, _ *stdslog.Logger, _ *stdlog.Logger, c context.Context) []site { s := here(); l.TraceContext(c, cm, "a", 1); return s }},
		{"PrintContext", "native", func(l slog.Logger, _ *stdslog.Logger, _ *stdlog.Logger, c context.Context) []site { s := here(); l.PrintContext(c, cm, "a", 1); return s }},
		{"PrintlnContext", "native", func(l slog.Logger, _ *stdslog.Logger, _ *stdlog.Logger, c context.Context) []site { s := here(); l.PrintlnContext(c, cm, "a", 1); return s }},
		{"OKContext", "native", func(l slog.Logger, _ *stdslog.Logger, _ *stdlog.Logger, c context.Context) []site { s := here(); l.OKContext(c, cm, "a", 1); return s }},
		{"SuccessContext", "native", func(l slog.Logger, _ *stdslog.Logger, _ *stdlog.Logger, c context.Context) []site { s := here(); l.SuccessContext(c, cm, "a", 1); return s }},
		{"FailContext", "native", func(l slog.Logger, _ *stdslog.Logger, _ *stdlog.Logger, c context.Context) []site { s := here(); l.FailContext(c, cm, "a", 1); return s }},
		{"PanicContext", "native", func(l slog.Logger, _ *stdslog.Logger, _ *stdlog.Logger, c context.Context) []site { s := here(); l.PanicContext(c, cm, "a", 1); return s }},
		{"FatalContext", "native", func(l slog.Logger, _ *stdslog.Logger, _ *stdlog.Logger, c context.Context) []site { s := here(); l.FatalContext(c, cm, "a", 1); return s }},
		{"LogAttrs", "native", func(l slog.Logger, _ *stdslog.Logger, _ *stdlog.Logger, c context.Context) []site { s := here(); l.LogAttrs(c, slog.InfoLevel, cm, "a", 1); return s }},
		{"Logit", "native", func(l slog.Logger, _ *stdslog.Logger, _ *stdlog.Logger, c context.Context) []site { s := here(); l.Logit(c, slog.WarnLevel, cm, "a", 1); return s }},
		{"Log(std)", "native", func(l slog.Logger, _ *stdslog.Logger, _ *stdlog.Logger, c context.Context) []site { s := here(); l.Log(c, stdslog.LevelInfo, cm, "a", 1); return s }},
		{"Infof", "native", func(l slog.Logger, _ *stdslog.Logger, _ *stdlog.Logger, c context.Context) []site { s := here(); _ = l.Infof("%s", cm); return s }},
		{"Warnf", "native", func(l slog.Logger, _ *stdslog.Logger, _ *stdlog.Logger, c context.Context) []site { s := here(); _ = l.Warnf("%s", cm); return s }},
		{"Errorf", "native", func(l slog.Logger, _ *stdslog.Logger, _ *stdlog.Logger, c context.Context) []site { s := here(); _ = l.Errorf("%s", cm); return s }},
		{"pkg.Error", "pkg", func(_ slog.Logger, _ *stdslog.Logger, _ *stdlog.Logger, c context.Context) []site { s := here(); slog.Error(cm, "a", 1); return s }},
		{"pkg.Warn", "pkg", func(_ slog.Logger, _ *stdslog.Logger, _ *stdlog.Logger, c context.Context) []site { s := here(); slog.Warn(cm, "a", 1); return s }},
		{"pkg.Info", "pkg", func(_ slog.Logger, _ *stdslog.Logger, _ *stdlog.Logger, c context.Context) []site { s := here(); slog.Info(cm, "a", 1); return s }},
		{"pkg.Debug", "pkg", func(_ slog.Logger, _ *stdslog.Logger, _ *stdlog.Logger, c context.Context) []site { s := here(); slog.Debug(cm, "a", 1); return s }},
		{"pkg.Trace", "pkg", func(_ slog.Logger, _ *stdslog.Logger, _ *stdlog.Logger, c context.Context) []site { s := here(); slog.Trace(cm, "a", 1); return s }},
		{"pkg.Print", "pkg", func(_ slog.Logger, _ *stdslog.Logger, _ *stdlog.Logger, c context.Context) []site { s := here(); slog.Print(cm, "a", 1); return s }},
		{"pkg.Println", "pkg", func(_ slog.Logger, _ *stdslog.Logger, _ *stdlog.Logger, c context.Context) []site { s := here(); slog.Println(cm, "a", 1); return s }},
		{"pkg.OK", "pkg", func(_ slog.Logger, _ *stdslog.Logger, _ *stdlog.Logger, c context.Context) []site { s := here(); slog.OK(cm, "a", 1); return s }},
		{"pkg.Success", "pkg", func(_ slog.Logger, _ *stdslog.Logger, _ *stdlog.Logger, c context.Context) []site { s := here(); slog.Success(cm, "a", 1); return s }},
		{"pkg.Fail", "pkg", func(_ slog.Logger, _ *stdslog.Logger, _ *stdlog.Logger, c context.Context) []site { s := here(); slog.Fail(cm, "a", 1); return s }},
		{"pkg.Panic", "pkg", func(_ slog.Logger, _ *stdslog.Logger, _ *stdlog.Logger, c context.Context) []site { s := here(); slog.Panic(cm, "a", 1); return s }},
		{"pkg.Fatal", "pkg", func(_ slog.Logger, _ *stdslog.Logger, _ *stdlog.Logger, c context.Context) []site { s := here(); slog.Fatal(cm, "a", 1); return s }},
		{"pkg.ErrorContext", "pkg", func(_ slog.Logger, _ *stdslog.Logger, _ *stdlog.Logger, c context.Context) []site { s := here(); slog.ErrorContext(c, cm, "a", 1); return s }},
		{"pkg.WarnContext", "pkg", func(_ slog.Logger, _ *stdslog.Logger, _ *stdlog.Logger, c context.Context) []site { s := here(); slog.WarnContext(c, cm, "a", 1); return s }},
		{"pkg.InfoContext", "pkg", func(_ slog.Logger, _ *stdslog.Logger, _ *stdlog.Logger, c context.Context) []site { s := here(); slog.InfoContext(c, cm, "a", 1); return s }},
		{"pkg.DebugContext", "pkg", func(_ slog.Logger, _ *stdslog.Logger, _ *stdlog.Logger, c context.Context) []site { s := here(); slog.DebugContext(c, cm, "a", 1); return s }},
		{"pkg.TraceContext", "pkg", func(_ slog.Logger, _ *stdslog.Logger, _ *stdlog.Logger, c context.Context) []site { s := here(); slog.TraceContext(c, cm, "a", 1); return s }},
		{"pkg.PrintContext", "pkg", func(_ slog.Logger, _ *stdslog.Logger, _ *stdlog.Logger, c context.Context) []site { s := here(); slog.PrintContext(c, cm, "a", 1); return s }},
		{"pkg.PrintlnContext", "pkg", func(_ slog.Logger, _ *stdslog.Logger, _ *stdlog.Logger, c context.Context) []site { s := here(); slog.PrintlnContext(c, cm, "a", 1); return s }},
		{"pkg.OKContext", "pkg", func(_ slog.Logger, _ *stdslog.Logger, _ *stdlog.Logger, c context.Context) []site { s := here(); slog.OKContext(c, cm, "a", 1); return s }},
		{"pkg.SuccessContext", "pkg", func(_ slog.Logger, _ *stdslog.Logger, _ *stdlog.Logger, c context.Context) []site { s := here(); slog.SuccessContext(c, cm, "a", 1); return s }},
		{"pkg.FailContext", "pkg", func(_ slog.Logger, _ *stdslog.Logger, _ *stdlog.Logger, c context.Context) []site { s := here(); slog.FailContext(c, cm, "a", 1); return s }},
		{"pkg.PanicContext", "pkg", func(_ slog.Logger, _ *stdslog.Logger, _ *stdlog.Logger, c context.Context) []site { s := here(); slog.PanicContext(c, cm, "a", 1); return s }},
		{"pkg.FatalContext", "pkg", func(_ slog.Logger, _ *stdslog.Logger, _ *stdlog.Logger, c context.Context) []site { s := here(); slog.FatalContext(c, cm, "a", 1); return s }},
		{"Info+stackerr", "native", func(l slog.Logger, _ *stdslog.Logger, _ *stdlog.Logger, c context.Context) []site { s := here(); l.Info(cm, "err", stackErr, "a", 1); return s }},
		{"ErrorContext+stackerr", "native", func(l slog.Logger, _ *stdslog.Logger, _ *stdlog.Logger, c context.Context) []site { s := here(); l.ErrorContext(c, cm, "err", stackErr); return s }},
		{"LogAttrs+stackerr", "native", func(l slog.Logger, _ *stdslog.Logger, _ *stdlog.Logger, c context.Context) []site { s := here(); l.LogAttrs(c, slog.WarnLevel, cm, slog.NewAttr("err", stackErr)); return s }},
		{"pkg.Warn+stackerr", "pkg", func(_ slog.Logger, _ *stdslog.Logger, _ *stdlog.Logger, c context.Context) []site { s := here(); slog.Warn(cm, "err", stackErr); return s }},
		{"slog.Logger.Error+stackerr", "slogadapter", func(_ slog.Logger, sl *stdslog.Logger, _ *stdlog.Logger, c context.Context) []site { s := here(); sl.Error(cm, "err", stackErr); return s }},
		{"slog.Logger.Info", "slogadapter", func(_ slog.Logger, sl *stdslog.Logger, _ *stdlog.Logger, c context.Context) []site { s := here(); sl.Info(cm, "a", 1); return s }},
		{"slog.Logger.WarnContext", "slogadapter", func(_ slog.Logger, sl *stdslog.Logger, _ *stdlog.Logger, c context.Context) []site { s := here(); sl.WarnContext(c, cm, "a", 1); return s }},
		{"slog.Logger.Log", "slogadapter", func(_ slog.Logger, sl *stdslog.Logger, _ *stdlog.Logger, c context.Context) []site { s := here(); sl.Log(c, stdslog.LevelError, cm, "a", 1); return s }},
		{"slog.Logger.LogAttrs", "slogadapter", func(_ slog.Logger, sl *stdslog.Logger, _ *stdlog.Logger, c context.Context) []site { s := here(); sl.LogAttrs(c, stdslog.LevelInfo, cm, stdslog.Int("a", 1)); return s }},
		{"slog.Logger.With.Info", "slogadapter", func(_ slog.Logger, sl *stdslog.Logger, _ *stdlog.Logger, c context.Context) []site { s := here(); sl.With("w", 2).Info(cm, "a", 1); return s }},
		{"slog.Info(default)", "slogadapter-default", func(_ slog.Logger, sl *stdslog.Logger, _ *stdlog.Logger, c context.Context) []site { s := here(); stdslog.Info(cm, "a", 1); return s }},
		{"log.Print", "bridge", func(_ slog.Logger, _ *stdslog.Logger, bl *stdlog.Logger, c context.Context) []site { s := here(); bl.Print(cm); return s }},
		{"log.Printf", "bridge", func(_ slog.Logger, _ *stdslog.Logger, bl *stdlog.Logger, c context.Context) []site { s := here(); bl.Printf("%s", cm); return s }},
		{"log.Println", "bridge", func(_ slog.Logger, _ *stdslog.Logger, bl *stdlog.Logger, c context.Context) []site { s := here(); bl.Println(cm); return s }},
		{"log.Output", "bridge", func(_ slog.Logger, _ *stdslog.Logger, bl *stdlog.Logger, c context.Context) []site { s := here(); _ = bl.Output(1, cm); return s }},
	}
}

type siteFn func() []site

// inlinable wrappers (small leaf-like bodies) and their noinline twins
func wrapI(f siteFn) []site { return f() }

//go:noinline
func wrapN(f siteFn) []site { return f() }

func nest(depth int, noinline bool, f siteFn) []site {
	if depth == 0 {
		return f()
	}
	if noinline {
		return wrapN(func() []site { return nest(depth-1, noinline, f) })
	}
	return wrapI(func() []site { return nest(depth-1, noinline, f) })
}

// direct chains written out (no recursion, no closures in between) so that the compiler may really inline them.
func chainI1(f siteFn) []site { return f() }
func chainI2(f siteFn) []site { return chainI1(f) }
func chainI3(f siteFn) []site { return chainI2(f) }
func chainI4(f siteFn) []site { return chainI3(f) }

//go:noinline
func chainN1(f siteFn) []site { return f() }

//go:noinline
func chainN2(f siteFn) []site { return chainN1(f) }

//go:noinline
func chainN3(f siteFn) []site { return chainN2(f) }

//go:noinline
func chainN4(f siteFn) []site { return chainN3(f) }

func chain(depth int, noinline bool, f siteFn) []site {
	if noinline {
		switch depth {
		case 1:
			return chainN1(f)
		case 2:
			return chainN2(f)
		case 3:
			return chainN3(f)
		case 4:
			return chainN4(f)
		}
		return f()
	}
	switch depth {
	case 1:
		return chainI1(f)
	case 2:
		return chainI2(f)
	case 3:
		return chainI3(f)
	case 4:
		return chainI4(f)
	}
	return f()
}

func c14sites(c *Ctx) {
	log := mon.NewLog()
	w := mon.New(log, "W", mon.ShapePlain)
	slog.AddFlags(slog.LnoInterrupt, slog.Lcaller)
	slog.RemoveFlags(slog.Lprivacypath, slog.Lprivacypathregexp)
	entries := c14entries()
	cwd, _ := os.Getwd()
	savedDefault := slog.Default()
	savedStd := stdslog.Default()
	// the full matrix is enumerated: idx -> (entry, format, skip, kind, wrapper flavour)
	kinds := []string{"root-as-Logger", "root-as-Entry", "child", "default"}
	type cell struct {
		e               int
		f               Format
		skip            int
		kind            string
		noinline, setFn bool
	}
	var cells []cell
	for ei := range entries {
		for f := FJSON; f <= FColor; f++ {
			for skip := 0; skip <= 4; skip++ {
				for _, k := range kinds {
					for _, ni := range []bool{false, true} {
						if skip == 0 && ni {
							continue
						}
						isPkg := entries[ei].kind == "pkg"
						if isPkg != (k == "default") {
							continue
						}
						cells = append(cells, cell{ei, f, skip, k, ni, (ei+skip)%2 == 0})
					}
				}
			}
		}
	}
	c.R.Max("matrix_size", int64(len(cells)))
	if c.To > len(cells) {
		c.To = len(cells)
	}
	c.Each(func(idx int, r *gen.R) {
		if idx >= len(cells) {
			return
		}
		cl := cells[idx]
		e := entries[cl.e]
		defer slog.SetDefault(savedDefault)
		defer stdslog.SetDefault(savedStd)
		var lgL slog.Logger = slog.New("c14")
		base := lgL.Root()
		base.SetWriter(w).SetErrorWriter(w).SetLevel(slog.InfoLevel)
		setFormat(base, cl.f)
		var target slog.Logger = lgL
		switch cl.kind {
		case "root-as-Entry":
			target = base
		case "child":
			ch := base.New("kid")
			ch.SetWriter(w).SetErrorWriter(w)
			target = ch
		}
		// every severity must pass: Always admits all
		target.SetLevel(slog.AlwaysLevel)
		via := "SetSkip"
		if cl.skip > 0 {
			if cl.setFn || cl.kind == "default" {
				target.SetSkip(cl.skip)
			} else {
				via = "WithSkip"
				ch := target.WithSkip(cl.skip)
				ch.SetWriter(w).SetErrorWriter(w)
				// another child with another skip count is derived from the same parent before ch is used
				other := target.WithSkip(cl.skip + 1 + idx%2)
				other.SetWriter(w).SetErrorWriter(w)
				target = ch
			}
		}
		if cl.kind == "default" {
			slog.SetDefault(target)
		}
		var sl *stdslog.Logger
		var bl *stdlog.Logger
		switch e.kind {
		case "slogadapter", "slogadapter-default":
			h := slog.NewSlogHandler(target, &slog.HandlerOptions{NoColor: cl.f != FColor, JSON: cl.f == FJSON, Level: slog.DebugLevel})
			sl = stdslog.New(h)
			if e.kind == "slogadapter-default" {
				stdslog.SetDefault(sl)
			}
		case "bridge":
			target.SetLevel(slog.InfoLevel)
			bl = slog.NewLogLogger(target, slog.InfoLevel) // bridge severity == logger level
		}
		ctx := context.Background()
		var stack []site
		for round := 0; round < 2; round++ { // twice from the same call site: a second record must be attributed like the first
		log.Reset()
		if idx%2 == 0 {
			stack = chain(cl.skip, cl.noinline, func() []site { return e.call(target, sl, bl, ctx) })
		} else {
			stack = nest(cl.skip, cl.noinline, func() []site { return e.call(target, sl, bl, ctx) })
		}
		desc := map[string]any{"round": round, "entry": e.name, "format": cl.f.String(), "skip": cl.skip, "skip_via": via, "logger": cl.kind, "wrappers_noinline": cl.noinline, "wrapper_style": map[bool]string{true: "direct chain", false: "closures"}[idx%2 == 0]}
		evs := log.Writes("")
		c.R.Add("calls", 1)
		sig := func(clause string) string {
			return fmt.Sprintf("C14/%s/%s/skip%d", clause, e.name, cl.skip)
		}
		if len(evs) != 1 {
			c.R.Violation(idx, "record", sig("no-record"), fmt.Sprintf("expected one record at the logger's writer, saw %d (%s)", len(evs), clip(fmtEvents(log.Events()), 300)), desc)
			return
		}
		d, err := decodeRecord(cl.f, evs[0].Data, true, true)
		if err != nil {
			c.R.Violation(idx, "decode", sig("decode"), err.Error()+": "+q(clip(string(evs[0].Data), 300)), desc)
			return
		}
		// expected frame: the call statement for skip 0, n logical frames up for skip n. With closures in the
		// wrapper chain each level contributes two frames (wrapper + closure), with the direct chain one.
		want, ok := expectedFrame(stack, cl.skip)
		if !ok {
			c.R.Violation(idx, "harness", "C14/harness/stack", fmt.Sprintf("stack too short: %+v", stack), desc)
			return
		}
		gotLine, _ := strconv.Atoi(d.Caller["line"])
		gotFile := d.Caller["file"]
		if gotFile != "" && !filepath.IsAbs(gotFile) {
			gotFile = filepath.Join(cwd, gotFile)
		}
		gotFn := d.Caller["function"]
		wantFn := want.Func
		if cl.f == FColor {
			if i := strings.LastIndex(wantFn, "/"); i >= 0 {
				wantFn = wantFn[i+1:]
			}
		}
		if gotLine != want.Line || filepath.Clean(gotFile) != filepath.Clean(want.File) || gotFn != wantFn {
			c.R.Violation(idx, "attribution", sig("attribution"), fmt.Sprintf("record says %s:%s %s; the statement that issued it (skip %d) is %s:%d %s\nstack at the call: %+v", d.Caller["file"], d.Caller["line"], gotFn, cl.skip, want.File, want.Line, want.Func, stack), desc)
			return
		}
		c.R.Add("attributions_confirmed", 1)
		if round == 1 {
			c.R.Distinct("entry_points", e.name)
			c.R.NonTrivial(fmt.Sprint(desc), c.X("build", ""), c.Testing)
			if c.R.WantSample() && cl.skip > 0 {
				c.R.Sample(idx, desc, map[string]any{"reported": d.Caller, "expected": want})
			}
		}
		} // round
	})
}

// expectedFrame picks the frame skip logical user frames above the call statement.
func expectedFrame(stack []site, skip int) (site, bool) {
	if skip < len(stack) {
		return stack[skip], true
	}
	return site{}, false
}
