// NOTE: do NOT run gofmt on this file: every call-site literal must stay on ONE line (see c14entries).
package main

import (
	"bytes"
	"context"
	"encoding/json"
	"fmt"
	"io"
	stdlog "log"
	stdslog "log/slog"
	"os"
	"path/filepath"
	"runtime"
	"strconv"
	"strings"
	"sync"
	"time"

	"github.com/hedzr/logg/slog"
	errorsv3 "gopkg.in/hedzr/errors.v3"

	"verifharness/facade/applog"
	fslog "verifharness/facade/slog"
	"verifharness/gen"
	"verifharness/mon"
)

func init() {
	reg("C14", "sites", c14sites)
	reg("C14", "conc", c14conc)
}

type site struct {
	File string
	Line int
	Func string
}

// here returns the logical call stack starting at its caller (inlining expanded by CallersFrames).
// Every call site below is a one-line function literal, so here() and the logging call share a line.
func here() []site {
	pcs := make([]uintptr, 16)
	n := runtime.Callers(2, pcs)
	frames := runtime.CallersFrames(pcs[:n])
	var out []site
	for {
		fr, more := frames.Next()
		out = append(out, site{fr.File, fr.Line, fr.Function})
		if !more || len(out) >= 10 {
			break
		}
	}
	return out
}

type c14entry struct {
	name string
	kind string // native | pkg | slogadapter | bridge
	call func(l slog.Logger, sl *stdslog.Logger, bl *stdlog.Logger, c context.Context) []site
	// facade frames between the call statement and the library: with skip count n the record is attributed to the
	// frame n-extra above the call statement (cells with n < extra are not generated)
	extra int
}

const cm = "caller-probe"

// stackErr carries a stack trace (gopkg.in/hedzr/errors.v3): its origin is printed in the error's own trace
// and must never be taken for the caller of the record.
var stackErr = makeStackErr()

func makeStackErr() error { return errorsv3.New("error created elsewhere") }

// NOTE: keep every function literal on ONE line: the expected line is the line of here().
func c14entries() []c14entry {
	return []c14entry{
		{"Error", "native", func(l slog.Logger, _ *stdslog.Logger, _ *stdlog.Logger, c context.Context) []site { s := here(); l.Error(cm, "a", 1); return s }, 0},
		{"Warn", "native", func(l slog.Logger, _ *stdslog.Logger, _ *stdlog.Logger, c context.Context) []site { s := here(); l.Warn(cm, "a", 1); return s }, 0},
		{"Info", "native", func(l slog.Logger, _ *stdslog.Logger, _ *stdlog.Logger, c context.Context) []site { s := here(); l.Info(cm, "a", 1); return s }, 0},
		{"Debug", "native", func(l slog.Logger, _ *stdslog.Logger, _ *stdlog.Logger, c context.Context) []site { s := here(); l.Debug(cm, "a", 1); return s }, 0},
		{"Trace", "native", func(l slog.Logger, _ *stdslog.Logger, _ *stdlog.Logger, c context.Context) []site { s := here(); l.Trace(cm, "a", 1); return s }, 0},
		{"Print", "native", func(l slog.Logger, _ *stdslog.Logger, _ *stdlog.Logger, c context.Context) []site { s := here(); l.Print(cm, "a", 1); return s }, 0},
		{"Println", "native", func(l slog.Logger, _ *stdslog.Logger, _ *stdlog.Logger, c context.Context) []site { s := here(); l.Println(cm, "a", 1); return s }, 0},
		{"OK", "native", func(l slog.Logger, _ *stdslog.Logger, _ *stdlog.Logger, c context.Context) []site { s := here(); l.OK(cm, "a", 1); return s }, 0},
		{"Success", "native", func(l slog.Logger, _ *stdslog.Logger, _ *stdlog.Logger, c context.Context) []site { s := here(); l.Success(cm, "a", 1); return s }, 0},
		{"Fail", "native", func(l slog.Logger, _ *stdslog.Logger, _ *stdlog.Logger, c context.Context) []site { s := here(); l.Fail(cm, "a", 1); return s }, 0},
		{"Panic", "native", func(l slog.Logger, _ *stdslog.Logger, _ *stdlog.Logger, c context.Context) []site { s := here(); l.Panic(cm, "a", 1); return s }, 0},
		{"Fatal", "native", func(l slog.Logger, _ *stdslog.Logger, _ *stdlog.Logger, c context.Context) []site { s := here(); l.Fatal(cm, "a", 1); return s }, 0},
		{"ErrorContext", "native", func(l slog.Logger, _ *stdslog.Logger, _ *stdlog.Logger, c context.Context) []site { s := here(); l.ErrorContext(c, cm, "a", 1); return s }, 0},
		{"WarnContext", "native", func(l slog.Logger, _ *stdslog.Logger, _ *stdlog.Logger, c context.Context) []site { s := here(); l.WarnContext(c, cm, "a", 1); return s }, 0},
		{"InfoContext", "native", func(l slog.Logger, _ *stdslog.Logger, _ *stdlog.Logger, c context.Context) []site { s := here(); l.InfoContext(c, cm, "a", 1); return s }, 0},
		{"DebugContext", "native", func(l slog.Logger, _ *stdslog.Logger, _ *stdlog.Logger, c context.Context) []site { s := here(); l.DebugContext(c, cm, "a", 1); return s }, 0},
		{"TraceContext", "native", func(l slog.Logger, _ *stdslog.Logger, _ *stdlog.Logger, c context.Context) []site { s := here(); l.TraceContext(c, cm, "a", 1); return s }, 0},
		{"PrintContext", "native", func(l slog.Logger, _ *stdslog.Logger, _ *stdlog.Logger, c context.Context) []site { s := here(); l.PrintContext(c, cm, "a", 1); return s }, 0},
		{"PrintlnContext", "native", func(l slog.Logger, _ *stdslog.Logger, _ *stdlog.Logger, c context.Context) []site { s := here(); l.PrintlnContext(c, cm, "a", 1); return s }, 0},
		{"OKContext", "native", func(l slog.Logger, _ *stdslog.Logger, _ *stdlog.Logger, c context.Context) []site { s := here(); l.OKContext(c, cm, "a", 1); return s }, 0},
		{"SuccessContext", "native", func(l slog.Logger, _ *stdslog.Logger, _ *stdlog.Logger, c context.Context) []site { s := here(); l.SuccessContext(c, cm, "a", 1); return s }, 0},
		{"FailContext", "native", func(l slog.Logger, _ *stdslog.Logger, _ *stdlog.Logger, c context.Context) []site { s := here(); l.FailContext(c, cm, "a", 1); return s }, 0},
		{"PanicContext", "native", func(l slog.Logger, _ *stdslog.Logger, _ *stdlog.Logger, c context.Context) []site { s := here(); l.PanicContext(c, cm, "a", 1); return s }, 0},
		{"FatalContext", "native", func(l slog.Logger, _ *stdslog.Logger, _ *stdlog.Logger, c context.Context) []site { s := here(); l.FatalContext(c, cm, "a", 1); return s }, 0},
		{"LogAttrs", "native", func(l slog.Logger, _ *stdslog.Logger, _ *stdlog.Logger, c context.Context) []site { s := here(); l.LogAttrs(c, slog.InfoLevel, cm, "a", 1); return s }, 0},
		{"Logit", "native", func(l slog.Logger, _ *stdslog.Logger, _ *stdlog.Logger, c context.Context) []site { s := here(); l.Logit(c, slog.WarnLevel, cm, "a", 1); return s }, 0},
		{"Log(std)", "native", func(l slog.Logger, _ *stdslog.Logger, _ *stdlog.Logger, c context.Context) []site { s := here(); l.Log(c, stdslog.LevelInfo, cm, "a", 1, stdslog.Int("n", 2)); return s }, 0},
		{"Infof", "native", func(l slog.Logger, _ *stdslog.Logger, _ *stdlog.Logger, c context.Context) []site { s := here(); _ = l.Infof("%s", cm); return s }, 0},
		{"Warnf", "native", func(l slog.Logger, _ *stdslog.Logger, _ *stdlog.Logger, c context.Context) []site { s := here(); _ = l.Warnf("%s", cm); return s }, 0},
		{"Errorf", "native", func(l slog.Logger, _ *stdslog.Logger, _ *stdlog.Logger, c context.Context) []site { s := here(); _ = l.Errorf("%s", cm); return s }, 0},
		{"pkg.Error", "pkg", func(_ slog.Logger, _ *stdslog.Logger, _ *stdlog.Logger, c context.Context) []site { s := here(); slog.Error(cm, "a", 1); return s }, 0},
		{"pkg.Warn", "pkg", func(_ slog.Logger, _ *stdslog.Logger, _ *stdlog.Logger, c context.Context) []site { s := here(); slog.Warn(cm, "a", 1); return s }, 0},
		{"pkg.Info", "pkg", func(_ slog.Logger, _ *stdslog.Logger, _ *stdlog.Logger, c context.Context) []site { s := here(); slog.Info(cm, "a", 1); return s }, 0},
		{"pkg.Debug", "pkg", func(_ slog.Logger, _ *stdslog.Logger, _ *stdlog.Logger, c context.Context) []site { s := here(); slog.Debug(cm, "a", 1); return s }, 0},
		{"pkg.Trace", "pkg", func(_ slog.Logger, _ *stdslog.Logger, _ *stdlog.Logger, c context.Context) []site { s := here(); slog.Trace(cm, "a", 1); return s }, 0},
		{"pkg.Print", "pkg", func(_ slog.Logger, _ *stdslog.Logger, _ *stdlog.Logger, c context.Context) []site { s := here(); slog.Print(cm, "a", 1); return s }, 0},
		{"pkg.Println", "pkg", func(_ slog.Logger, _ *stdslog.Logger, _ *stdlog.Logger, c context.Context) []site { s := here(); slog.Println(cm, "a", 1); return s }, 0},
		{"pkg.OK", "pkg", func(_ slog.Logger, _ *stdslog.Logger, _ *stdlog.Logger, c context.Context) []site { s := here(); slog.OK(cm, "a", 1); return s }, 0},
		{"pkg.Success", "pkg", func(_ slog.Logger, _ *stdslog.Logger, _ *stdlog.Logger, c context.Context) []site { s := here(); slog.Success(cm, "a", 1); return s }, 0},
		{"pkg.Fail", "pkg", func(_ slog.Logger, _ *stdslog.Logger, _ *stdlog.Logger, c context.Context) []site { s := here(); slog.Fail(cm, "a", 1); return s }, 0},
		{"pkg.Panic", "pkg", func(_ slog.Logger, _ *stdslog.Logger, _ *stdlog.Logger, c context.Context) []site { s := here(); slog.Panic(cm, "a", 1); return s }, 0},
		{"pkg.Fatal", "pkg", func(_ slog.Logger, _ *stdslog.Logger, _ *stdlog.Logger, c context.Context) []site { s := here(); slog.Fatal(cm, "a", 1); return s }, 0},
		{"pkg.ErrorContext", "pkg", func(_ slog.Logger, _ *stdslog.Logger, _ *stdlog.Logger, c context.Context) []site { s := here(); slog.ErrorContext(c, cm, "a", 1); return s }, 0},
		{"pkg.WarnContext", "pkg", func(_ slog.Logger, _ *stdslog.Logger, _ *stdlog.Logger, c context.Context) []site { s := here(); slog.WarnContext(c, cm, "a", 1); return s }, 0},
		{"pkg.InfoContext", "pkg", func(_ slog.Logger, _ *stdslog.Logger, _ *stdlog.Logger, c context.Context) []site { s := here(); slog.InfoContext(c, cm, "a", 1); return s }, 0},
		{"pkg.DebugContext", "pkg", func(_ slog.Logger, _ *stdslog.Logger, _ *stdlog.Logger, c context.Context) []site { s := here(); slog.DebugContext(c, cm, "a", 1); return s }, 0},
		{"pkg.TraceContext", "pkg", func(_ slog.Logger, _ *stdslog.Logger, _ *stdlog.Logger, c context.Context) []site { s := here(); slog.TraceContext(c, cm, "a", 1); return s }, 0},
		{"pkg.PrintContext", "pkg", func(_ slog.Logger, _ *stdslog.Logger, _ *stdlog.Logger, c context.Context) []site { s := here(); slog.PrintContext(c, cm, "a", 1); return s }, 0},
		{"pkg.PrintlnContext", "pkg", func(_ slog.Logger, _ *stdslog.Logger, _ *stdlog.Logger, c context.Context) []site { s := here(); slog.PrintlnContext(c, cm, "a", 1); return s }, 0},
		{"pkg.OKContext", "pkg", func(_ slog.Logger, _ *stdslog.Logger, _ *stdlog.Logger, c context.Context) []site { s := here(); slog.OKContext(c, cm, "a", 1); return s }, 0},
		{"pkg.SuccessContext", "pkg", func(_ slog.Logger, _ *stdslog.Logger, _ *stdlog.Logger, c context.Context) []site { s := here(); slog.SuccessContext(c, cm, "a", 1); return s }, 0},
		{"pkg.FailContext", "pkg", func(_ slog.Logger, _ *stdslog.Logger, _ *stdlog.Logger, c context.Context) []site { s := here(); slog.FailContext(c, cm, "a", 1); return s }, 0},
		{"pkg.PanicContext", "pkg", func(_ slog.Logger, _ *stdslog.Logger, _ *stdlog.Logger, c context.Context) []site { s := here(); slog.PanicContext(c, cm, "a", 1); return s }, 0},
		{"pkg.FatalContext", "pkg", func(_ slog.Logger, _ *stdslog.Logger, _ *stdlog.Logger, c context.Context) []site { s := here(); slog.FatalContext(c, cm, "a", 1); return s }, 0},
		{"Info+stackerr", "native", func(l slog.Logger, _ *stdslog.Logger, _ *stdlog.Logger, c context.Context) []site { s := here(); l.Info(cm, "err", stackErr, "a", 1); return s }, 0},
		{"ErrorContext+stackerr", "native", func(l slog.Logger, _ *stdslog.Logger, _ *stdlog.Logger, c context.Context) []site { s := here(); l.ErrorContext(c, cm, "err", stackErr); return s }, 0},
		{"LogAttrs+stackerr", "native", func(l slog.Logger, _ *stdslog.Logger, _ *stdlog.Logger, c context.Context) []site { s := here(); l.LogAttrs(c, slog.WarnLevel, cm, slog.NewAttr("err", stackErr)); return s }, 0},
		{"pkg.Warn+stackerr", "pkg", func(_ slog.Logger, _ *stdslog.Logger, _ *stdlog.Logger, c context.Context) []site { s := here(); slog.Warn(cm, "err", stackErr); return s }, 0},
		{"slog.Logger.Error+stackerr", "slogadapter", func(_ slog.Logger, sl *stdslog.Logger, _ *stdlog.Logger, c context.Context) []site { s := here(); sl.Error(cm, "err", stackErr); return s }, 0},
		{"slog.Logger.Info", "slogadapter", func(_ slog.Logger, sl *stdslog.Logger, _ *stdlog.Logger, c context.Context) []site { s := here(); sl.Info(cm, "a", 1); return s }, 0},
		{"slog.Logger.WarnContext", "slogadapter", func(_ slog.Logger, sl *stdslog.Logger, _ *stdlog.Logger, c context.Context) []site { s := here(); sl.WarnContext(c, cm, "a", 1); return s }, 0},
		{"slog.Logger.Log", "slogadapter", func(_ slog.Logger, sl *stdslog.Logger, _ *stdlog.Logger, c context.Context) []site { s := here(); sl.Log(c, stdslog.LevelError, cm, "a", 1); return s }, 0},
		{"slog.Logger.LogAttrs", "slogadapter", func(_ slog.Logger, sl *stdslog.Logger, _ *stdlog.Logger, c context.Context) []site { s := here(); sl.LogAttrs(c, stdslog.LevelInfo, cm, stdslog.Int("a", 1)); return s }, 0},
		{"slog.Logger.With.Info", "slogadapter", func(_ slog.Logger, sl *stdslog.Logger, _ *stdlog.Logger, c context.Context) []site { s := here(); sl.With("w", 2).Info(cm, "a", 1); return s }, 0},
		{"slog.Info(default)", "slogadapter-default", func(_ slog.Logger, sl *stdslog.Logger, _ *stdlog.Logger, c context.Context) []site { s := here(); stdslog.Info(cm, "a", 1); return s }, 0},
		{"log.Print", "bridge", func(_ slog.Logger, _ *stdslog.Logger, bl *stdlog.Logger, c context.Context) []site { s := here(); bl.Print(cm); return s }, 0},
		{"log.Printf", "bridge", func(_ slog.Logger, _ *stdslog.Logger, bl *stdlog.Logger, c context.Context) []site { s := here(); bl.Printf("%s", cm); return s }, 0},
		{"log.Println", "bridge", func(_ slog.Logger, _ *stdslog.Logger, bl *stdlog.Logger, c context.Context) []site { s := here(); bl.Println(cm); return s }, 0},
		{"Println(int,...)", "native", func(l slog.Logger, _ *stdslog.Logger, _ *stdlog.Logger, c context.Context) []site { s := here(); l.Println(42, "a", 1); return s }, 0},
		{"Println(error,...)", "native", func(l slog.Logger, _ *stdslog.Logger, _ *stdlog.Logger, c context.Context) []site { s := here(); l.Println(stackErr, "a", 1); return s }, 0},
		{"Println(struct)", "native", func(l slog.Logger, _ *stdslog.Logger, _ *stdlog.Logger, c context.Context) []site { s := here(); l.Println(struct{ A int }{7}); return s }, 0},
		{"pkg.Println(int,...)", "pkg", func(_ slog.Logger, _ *stdslog.Logger, _ *stdlog.Logger, c context.Context) []site { s := here(); slog.Println(42, "a", 1); return s }, 0},
		{"pkg.Println(nil)", "pkg", func(_ slog.Logger, _ *stdslog.Logger, _ *stdlog.Logger, c context.Context) []site { s := here(); slog.Println(nil, "a", 1); return s }, 0},
		{"facade applog.(*Logger).Infof over the bridge", "bridge", func(_ slog.Logger, _ *stdslog.Logger, bl *stdlog.Logger, c context.Context) []site { s := here(); applog.New(bl).Infof("%s", cm); return s }, 1},
		{"facade applog.(*Logger).Warnf (noinline) over the bridge", "bridge", func(_ slog.Logger, _ *stdslog.Logger, bl *stdlog.Logger, c context.Context) []site { s := here(); applog.New(bl).Warnf("%s", cm); return s }, 1},
		{"facade applog.(*Logger).Println over the bridge", "bridge", func(_ slog.Logger, _ *stdslog.Logger, bl *stdlog.Logger, c context.Context) []site { s := here(); applog.New(bl).Println(cm); return s }, 1},
		{"facade slog.(*Entry).Info over the native API", "native", func(l slog.Logger, _ *stdslog.Logger, _ *stdlog.Logger, c context.Context) []site { s := here(); (&fslog.Entry{L: l}).Info(cm, "a", 1); return s }, 1},
		{"facade slog.(*Entry).WarnContext (noinline) over the native API", "native", func(l slog.Logger, _ *stdslog.Logger, _ *stdlog.Logger, c context.Context) []site { s := here(); (&fslog.Entry{L: l}).WarnContext(c, cm, "a", 1); return s }, 1},
		{"facade slog.(*Entry).Error->logContext over the native API", "native", func(l slog.Logger, _ *stdslog.Logger, _ *stdlog.Logger, c context.Context) []site { s := here(); (&fslog.Entry{L: l}).Error(c, cm, "a", 1); return s }, 2},
		{"Errorf(%w)", "native", func(l slog.Logger, _ *stdslog.Logger, _ *stdlog.Logger, c context.Context) []site { s := here(); _ = l.Errorf("%s: %w", cm, stackErr); return s }, 0},
		{"Warnf(%w %v %d)", "native", func(l slog.Logger, _ *stdslog.Logger, _ *stdlog.Logger, c context.Context) []site { s := here(); _ = l.Warnf("%s: %w %v %d %%", cm, stackErr, nil, 7); return s }, 0},
		{"Infof(no verbs)", "native", func(l slog.Logger, _ *stdslog.Logger, _ *stdlog.Logger, c context.Context) []site { s := here(); _ = l.Infof(cm); return s }, 0},
		{"log.Output", "bridge", func(_ slog.Logger, _ *stdslog.Logger, bl *stdlog.Logger, c context.Context) []site { s := here(); _ = bl.Output(1, cm); return s }, 0},
		{"slog.Logger.Log(LevelFatal)", "slogadapter", func(_ slog.Logger, sl *stdslog.Logger, _ *stdlog.Logger, c context.Context) []site { s := here(); sl.Log(c, slog.LevelFatal, cm, "a", 1); return s }, 0},
		{"slog.Logger.LogAttrs(LevelPanic)", "slogadapter", func(_ slog.Logger, sl *stdslog.Logger, _ *stdlog.Logger, c context.Context) []site { s := here(); sl.LogAttrs(c, slog.LevelPanic, cm, stdslog.Int("a", 1)); return s }, 0},
		{"slog.Logger.Log(an application level above Error)", "slogadapter", func(_ slog.Logger, sl *stdslog.Logger, _ *stdlog.Logger, c context.Context) []site { s := here(); sl.Log(c, stdslog.Level(29), cm, "a", 1); return s }, 0},
		{"Log(a log/slog level without a name: Info+1)", "native", func(l slog.Logger, _ *stdslog.Logger, _ *stdlog.Logger, c context.Context) []site { s := here(); l.Log(c, stdslog.LevelInfo+1, cm, "a", 1); return s }, 0},
		{"helper in another source file, inlined into this statement", "native", func(l slog.Logger, _ *stdslog.Logger, _ *stdlog.Logger, c context.Context) []site { s := here(); c14inlInfo(l); return append([]site{c14inlSite()}, s...) }, 0},
	}
}

type siteFn func() []site

// inlinable wrappers (small leaf-like bodies) and their noinline twins
func wrapI(f siteFn) []site { return f() }

//go:noinline
func wrapN(f siteFn) []site { return f() }

func nest(depth int, noinline bool, f siteFn) []site {
	if depth == 0 {
		return f()
	}
	if noinline {
		return wrapN(func() []site { return nest(depth-1, noinline, f) })
	}
	return wrapI(func() []site { return nest(depth-1, noinline, f) })
}

// direct chains written out (no recursion, no closures in between) so that the compiler may really inline them.
func chainI1(f siteFn) []site { return f() }
func chainI2(f siteFn) []site { return chainI1(f) }
func chainI3(f siteFn) []site { return chainI2(f) }
func chainI4(f siteFn) []site { return chainI3(f) }

//go:noinline
func chainN1(f siteFn) []site { return f() }

//go:noinline
func chainN2(f siteFn) []site { return chainN1(f) }

//go:noinline
func chainN3(f siteFn) []site { return chainN2(f) }

//go:noinline
func chainN4(f siteFn) []site { return chainN3(f) }

func chain(depth int, noinline bool, f siteFn) []site {
	if noinline {
		switch depth {
		case 1:
			return chainN1(f)
		case 2:
			return chainN2(f)
		case 3:
			return chainN3(f)
		case 4:
			return chainN4(f)
		}
		return f()
	}
	switch depth {
	case 1:
		return chainI1(f)
	case 2:
		return chainI2(f)
	case 3:
		return chainI3(f)
	case 4:
		return chainI4(f)
	}
	return f()
}

func c14sites(c *Ctx) {
	log := mon.NewLog()
	w := mon.New(log, "W", mon.ShapePlain)
	slog.AddFlags(slog.LnoInterrupt, slog.Lcaller)
	slog.RemoveFlags(slog.Lprivacypath, slog.Lprivacypathregexp)
	entries := append(append(c14entries(), c14lineEntries()...), c14verboseEntries()...)
	cwd, _ := os.Getwd()
	if c.X("cwdgone", "") == "1" {
		// the working directory of the process has been removed under it (os.Getwd fails from now on): where the process
		// stands is no input of which statement issued a record
		if d, err := os.MkdirTemp("", "c14-gone-*"); err == nil && os.Chdir(d) == nil {
			_ = os.Remove(d)
			c.R.Add("processes_whose_working_directory_was_removed", 1)
		}
	}
	// a logger of some facade elsewhere that carries a skip count of its own: it appears as an attribute VALUE in the
	// argument list of New (who started this component) - a value like any other
	c14skipper := slog.New("facade-elsewhere").Root().WithSkip(3)
	savedDefault := slog.Default()
	savedStd := stdslog.Default()
	// the full matrix is enumerated: idx -> (entry, format, skip, kind, wrapper flavour)
	kinds := []string{"root-as-Logger", "root-as-Entry", "child", "default"}
	type cell struct {
		e               int
		f               Format
		skip            int
		kind            string
		noinline, setFn bool
	}
	var cells []cell
	for ei := range entries {
		for f := FJSON; f <= FColor; f++ {
			for skip := 0; skip <= 4; skip++ {
				for _, k := range kinds {
					for _, ni := range []bool{false, true} {
						if skip == 0 && ni {
							continue
						}
						if skip < entries[ei].extra {
							continue // the facade's own frames are not call sites of this harness
						}
						isPkg := entries[ei].kind == "pkg"
						if isPkg != (k == "default") {
							continue
						}
						cells = append(cells, cell{ei, f, skip, k, ni, (ei+skip)%2 == 0})
					}
				}
			}
		}
	}
	if c.X("firstwrap", "") == "1" {
		// the FIRST record that reaches any log/slog handler of this process is not issued by a log/slog.Logger method:
		// it comes from a helper written after the "Wrapping" example of the log/slog documentation (its own
		// runtime.Callers, NewRecord, Handler().Handle). What the first record of a process looked like is no input
		// of the attribution of the later ones.
		quiet := slog.New("first-record").Root()
		quiet.SetWriter(io.Discard).SetErrorWriter(io.Discard).SetLevel(slog.AlwaysLevel)
		h := slog.NewSlogHandler(quiet, &slog.HandlerOptions{NoColor: true, JSON: true, Level: slog.DebugLevel})
		c14wrapInfo(h, "the first record of the process, from a wrapping helper")
		c.R.Add("processes_whose_first_handler_record_came_from_a_wrapping_helper", 1)
	}
	c.R.Max("matrix_size", int64(len(cells)))
	if c.To > len(cells) {
		c.To = len(cells)
	}
	c.Each(func(idx int, r *gen.R) {
		if idx >= len(cells) {
			return
		}
		cl := cells[idx]
		e := entries[cl.e]
		if strings.Contains(e.name, "Verbose") && !builtVerbose {
			c.R.Add("cells_left_to_the_build_with_the_verbose_tag", 1)
			return
		}
		defer slog.SetDefault(savedDefault)
		defer stdslog.SetDefault(savedStd)
		var lgL slog.Logger = slog.New("c14")
		startedBy := idx%7 == 5
		if startedBy {
			lgL = slog.New("c14", "startedBy", c14skipper)
			c.R.Add("cells_whose_logger_was_made_with_another_logger_as_an_attribute_value", 1)
		}
		base := lgL.Root()
		base.SetWriter(w).SetErrorWriter(w).SetLevel(slog.InfoLevel)
		setFormat(base, cl.f)
		var target slog.Logger = lgL
		switch cl.kind {
		case "root-as-Entry":
			target = base
		case "child":
			ch := base.New("kid")
			if startedBy {
				ch = base.New("kid2", "startedBy", c14skipper)
			}
			ch.SetWriter(w).SetErrorWriter(w)
			target = ch
		}
		// every severity must pass: Always admits all
		target.SetLevel(slog.AlwaysLevel)
		if cl.kind == "child" && (idx/3)%2 == 0 { // (a child cell at skip 0 always sits at idx%3 == 2)
			// the PARENT has a skip count of its own (it serves a facade elsewhere): no business of the child, whichever front end asks
			base.SetSkip(1 + idx%4)
			c.R.Add("child_cells_whose_parent_has_a_skip_count_of_its_own", 1)
		}
		var skipParent slog.Logger // the logger WithSkip was called on
		via := "SetSkip"
		if idx%2 == 1 && (cl.skip == 0 || cl.setFn || cl.kind == "default") {
			// the skip count had another value before (a facade that sets it and puts it back): only the current one counts
			target.SetSkip(cl.skip + 1 + idx%3)
			via = "SetSkip(other) then SetSkip"
			target.SetSkip(cl.skip)
		}
		if cl.skip > 0 {
			if cl.setFn || cl.kind == "default" {
				target.SetSkip(cl.skip)
			} else {
				via = "WithSkip"
				skipParent = target
				ch := target.WithSkip(cl.skip)
				ch.SetWriter(w).SetErrorWriter(w)
				// another child with another skip count is derived from the same parent before ch is used
				other := target.WithSkip(cl.skip + 1 + idx%2)
				other.SetWriter(w).SetErrorWriter(w)
				target = ch
			}
		}
		if idx%5 == 4 {
			// a facade elsewhere derived "its own" logger from this one with With / WithAttrs / WithAttrs1 - and happened to
			// pass NO attributes - and gave THAT logger a skip count: no business of the logger it was derived from
			var fac *slog.Entry
			switch (idx / 5) % 3 {
			case 0:
				fac = target.With()
			case 1:
				fac = target.WithAttrs()
			default:
				fac = target.WithAttrs1(nil)
			}
			fac.SetSkip(cl.skip + 2)
			c.R.Add("cells_after_a_facade_derived_a_logger_without_attributes_and_gave_it_a_skip_count", 1)
		}
		if cl.kind == "default" {
			slog.SetDefault(target)
		}
		var sl *stdslog.Logger
		var bl *stdlog.Logger
		switch e.kind {
		case "slogadapter", "slogadapter-default":
			// the logger under the adapter has context keys registered in every other cell (before or after the handler
			// was built): where a record's values come from has nothing to do with where its statement is
			if idx%4 == 1 {
				target.SetContextKeys("rid", "uid")
			}
			h := slog.NewSlogHandler(target, &slog.HandlerOptions{NoColor: cl.f != FColor, JSON: cl.f == FJSON, Level: slog.DebugLevel})
			sl = stdslog.New(h)
			if idx%4 == 3 {
				target.SetContextKeys("rid")
			}
			if idx%2 == 1 {
				c.R.Add("adapter_cells_over_a_logger_with_context_keys", 1)
			}
			if e.kind == "slogadapter-default" {
				stdslog.SetDefault(sl)
			}
		case "bridge":
			if idx%3 == 1 && !c.Testing {
				// the same logger is ALSO behind a second bridge, built on an application type that decorates it, whose
				// severity is Panic: one line through that bridge terminates by panic (production process), the application
				// recovers - no business of the records that follow
				slog.RemoveFlags(slog.LnoInterrupt)
				func() {
					defer func() { _ = recover() }()
					slog.NewLogLogger(c15decorated{target}, slog.PanicLevel).Print("a bridged line at the Panic severity (recovered)")
				}()
				slog.AddFlags(slog.LnoInterrupt)
				c.R.Add("bridge_cells_after_a_recovered_panic_through_a_second_bridge_on_a_decorated_logger", 1)
			}
			target.SetLevel(slog.InfoLevel)
			bl = slog.NewLogLogger(target, slog.InfoLevel) // bridge severity == logger level
		}
		// the line-number flag is cleared for every third cell: file and function are still those of the statement (and
		// a line, if one is reported at all, is the statement's)
		noLineno := idx%3 == 2
		if noLineno {
			slog.RemoveFlags(slog.Llineno)
			defer slog.AddFlags(slog.Llineno)
		}
		ctx := context.Background()
		if idx%4 == 2 && (e.kind == "native" || e.kind == "pkg") {
			ctx = nil // a nil context (where the entry point takes one) is a context without values: no input of the attribution
			c.R.Add("cells_with_a_nil_context", 1)
		}
		var stack []site
		// every 50th cell first issues records from 320 other call sites (more than any bounded per-call-site table is
		// likely to hold): the sites of this cell, visited before in this process, are attributed as always
		if idx%50 == 0 {
			quiet := slog.New("many-sites").Root()
			quiet.SetWriter(io.Discard).SetErrorWriter(io.Discard).SetLevel(slog.AlwaysLevel)
			for _, pc := range c06sitePCs {
				quiet.WriteThru(ctx, slog.InfoLevel, time.Unix(1700000000, 0), pc, "a record from one of 320 call sites", nil)
			}
			c.R.Add("sweeps_over_320_other_call_sites", 1)
		}
		for round := 0; round < 3; round++ { // again from the same call site: a later record must be attributed like the first
		want0 := false
		if round == 1 && skipParent != nil {
			// the per-call wrapper idiom: WithSkip(n) is evaluated again (it keeps one child per n; the count is n again,
			// also when somebody gave that child another count in between)
			if te, ok := target.(*slog.Entry); ok && idx%2 == 0 {
				te.SetSkip(cl.skip + 2)
			}
			ch := skipParent.WithSkip(cl.skip)
			ch.SetWriter(w).SetErrorWriter(w)
			target = ch
			c.R.Add("WithSkip_evaluated_again_for_the_same_count", 1)
		}
		if round == 2 {
			// a logger derived from the one that carries the skip count was itself given none: its records are attributed
			// to the statement that issued them
			te, ok := target.(*slog.Entry)
			if !ok || cl.skip == 0 || e.kind != "native" || e.extra != 0 {
				break
			}
			sub := te.New("derived-from-the-skipper")
			sub.SetWriter(w).SetErrorWriter(w).SetLevel(slog.AlwaysLevel)
			target, want0 = sub, true
			c.R.Add("records_through_a_child_of_a_logger_with_a_skip_count", 1)
		}
		log.Reset()
		if idx%2 == 0 {
			stack = chain(cl.skip, cl.noinline, func() []site { return e.call(target, sl, bl, ctx) })
		} else {
			stack = nest(cl.skip, cl.noinline, func() []site { return e.call(target, sl, bl, ctx) })
		}
		desc := map[string]any{"round": round, "entry": e.name, "format": cl.f.String(), "skip": cl.skip, "skip_via": via, "logger": cl.kind, "line_number_flag_cleared": noLineno, "wrappers_noinline": cl.noinline, "wrapper_style": map[bool]string{true: "direct chain", false: "closures"}[idx%2 == 0]}
		evs := log.Writes("")
		c.R.Add("calls", 1)
		sig := func(clause string) string {
			return fmt.Sprintf("C14/%s/%s/skip%d", clause, e.name, cl.skip)
		}
		if len(evs) != 1 {
			c.R.Violation(idx, "record", sig("no-record"), fmt.Sprintf("expected one record at the logger's writer, saw %d (%s)", len(evs), clip(fmtEvents(log.Events()), 300)), desc)
			return
		}
		data := evs[0].Data
		if c.Testing && strings.Contains(e.name, "stackerr") {
			// under go test the library appends a multi-line dump of an error that carries a stack trace AFTER the record (by design, see C06); the record is the first line
			if i := bytes.IndexByte(data, '\n'); i >= 0 {
				data = data[:i+1]
			}
		}
		d, err := decodeRecord(cl.f, data, true, true)
		if err != nil && cl.f == FJSON && strings.Contains(e.name, "attribute named caller") {
			// the record holds the member name caller twice (the attribute, then the library's): read it the way
			// encoding/json does - the last one counts
			var m map[string]any
			if e2 := json.Unmarshal(bytes.TrimSpace(data), &m); e2 == nil {
				d, err = &decoded{Caller: map[string]string{}}, nil
				if cm, ok := m["caller"].(map[string]any); ok {
					for k, v := range cm {
						if f, isNum := v.(float64); isNum {
							d.Caller[k] = strconv.Itoa(int(f))
						} else {
							d.Caller[k] = fmt.Sprint(v)
						}
					}
				}
			}
		}
		if err != nil {
			c.R.Violation(idx, "decode", sig("decode"), err.Error()+": "+q(clip(string(evs[0].Data), 300)), desc)
			return
		}
		// expected frame: the call statement for skip 0, n logical frames up for skip n. With closures in the
		// wrapper chain each level contributes two frames (wrapper + closure), with the direct chain one.
		wantSkip := cl.skip - e.extra
		if want0 {
			wantSkip = 0
		}
		want, ok := expectedFrame(stack, wantSkip)
		if !ok {
			c.R.Violation(idx, "harness", "C14/harness/stack", fmt.Sprintf("stack too short: %+v", stack), desc)
			return
		}
		gotLine, _ := strconv.Atoi(d.Caller["line"])
		gotFile := d.Caller["file"]
		if gotFile != "" && !filepath.IsAbs(gotFile) {
			gotFile = filepath.Join(cwd, gotFile)
		}
		gotFn := d.Caller["function"]
		wantFn := want.Func
		if cl.f == FColor {
			if i := strings.LastIndex(wantFn, "/"); i >= 0 {
				wantFn = wantFn[i+1:]
			}
		}
		if !filepath.IsAbs(want.File) {
			want.File = filepath.Join(cwd, want.File) // a //line directive with a relative file name
		}
		if noLineno && gotLine == 0 {
			gotLine = want.Line // no line reported under the cleared flag
		}
		if gotLine != want.Line || filepath.Clean(gotFile) != filepath.Clean(want.File) || gotFn != wantFn {
			c.R.Violation(idx, "attribution", sig("attribution"), fmt.Sprintf("record says %s:%s %s; the statement that issued it (skip %d) is %s:%d %s\nstack at the call: %+v", d.Caller["file"], d.Caller["line"], gotFn, wantSkip, want.File, want.Line, want.Func, stack), desc)
			return
		}
		c.R.Add("attributions_confirmed", 1)
		if round == 1 {
			c.R.Distinct("entry_points", e.name)
			c.R.NonTrivial(fmt.Sprint(desc), c.X("build", ""), c.Testing)
			if c.R.WantSample() && cl.skip > 0 {
				c.R.Sample(idx, desc, map[string]any{"reported": d.Caller, "expected": want})
			}
		}
		} // round
	})
}

// expectedFrame picks the frame skip logical user frames above the call statement.
func expectedFrame(stack []site, skip int) (site, bool) {
	if skip < len(stack) {
		return stack[skip], true
	}
	return site{}, false
}

// c14conc: several goroutines log at the same time, each from call sites of its own (eight distinct functions); every
// record names the function whose statement issued it. One case = one run of G goroutines x N records.
func c14conc(c *Ctx) {
	slog.AddFlags(slog.LnoInterrupt, slog.Lcaller)
	slog.RemoveFlags(slog.Lprivacypath, slog.Lprivacypathregexp)
	c.Each(func(idx int, r *gen.R) {
		log := mon.NewLog()
		w := mon.New(log, "W", mon.ShapePlain)
		f := []Format{FJSON, FLogfmt}[idx%2]
		lg := newRoot("c14c", f, w, slog.AlwaysLevel)
		kid := lg.New("kid")
		kid.SetWriter(w).SetErrorWriter(w)
		G := gen.Pick(r, []int{2, 4, 8, 16})
		N := r.Range(300, 1500)
		var wg sync.WaitGroup
		start := make(chan struct{})
		for g := 0; g < G; g++ {
			g := g
			wg.Add(1)
			go func() {
				defer wg.Done()
				<-start
				site := c14concSites[g%len(c14concSites)]
				l := lg
				if g%3 == 2 {
					l = kid
				}
				for k := 0; k < N; k++ {
					site(l, fmt.Sprintf("s%d-g%d-k%d", g%len(c14concSites), g, k))
				}
			}()
		}
		close(start)
		wg.Wait()
		evs := log.Writes("")
		c.R.Add("concurrent_records", int64(len(evs)))
		desc := map[string]any{"goroutines": G, "records_per_goroutine": N, "format": f.String()}
		if len(evs) != G*N {
			c.R.Violation(idx, "record", "C14/concurrent/count", fmt.Sprintf("%d records delivered for %d calls", len(evs), G*N), desc)
			return
		}
		for _, e := range evs {
			d, err := decodeRecord(f, e.Data, true, true)
			if err != nil {
				c.R.Violation(idx, "decode", "C14/concurrent/decode", err.Error()+": "+q(clip(string(e.Data), 300)), desc)
				return
			}
			var sn int
			if _, err := fmt.Sscanf(d.Msg, "s%d-", &sn); err != nil {
				c.R.Violation(idx, "decode", "C14/concurrent/decode", "message without site number: "+q(clip(d.Msg, 80)), desc)
				return
			}
			want := fmt.Sprintf("main.c14concSite%d", sn)
			if d.Caller["function"] != want || !strings.HasSuffix(d.Caller["file"], "c14lines.go") {
				c.R.Violation(idx, "attribution", "C14/attribution/concurrent", fmt.Sprintf("record %q was issued by a statement in %s; it says %s:%s %s", d.Msg, want, d.Caller["file"], d.Caller["line"], d.Caller["function"]), desc)
				return
			}
		}
		c.R.Add("concurrent_attributions_confirmed", int64(len(evs)))
		c.R.NonTrivial("conc", idx, G, N)
		if c.R.WantSample() {
			c.R.Sample(idx, desc, "every record names the function of its own call site")
		}
	})
}
