package main

import (
	"reflect"
	"runtime"

	"github.com/hedzr/logg/slog"
)

// c06herePC is the program counter of the statement that called it (the call sites below keep their statement on ONE
// line, so the line of that counter is the line of the logging call).
func c06herePC() uintptr {
	var pcs [1]uintptr
	runtime.Callers(2, pcs[:])
	return pcs[0]
}

type c06verbSite struct {
	name string
	call func(lg *slog.Entry, msg string) uintptr
}

// c06verbSites: the public entry points, each called from a statement of its own. A colored record ends with ITS
// call site (file:line function), whichever entry point was used. Keep every literal on one line.
var c06verbSites = []c06verbSite{
	{"Info", func(lg *slog.Entry, msg string) uintptr { pc := c06herePC(); lg.Info(msg, "k", 1); return pc }},
	{"InfoContext", func(lg *slog.Entry, msg string) uintptr { pc := c06herePC(); lg.InfoContext(bg, msg, "k", 1); return pc }},
	{"Print", func(lg *slog.Entry, msg string) uintptr { pc := c06herePC(); lg.Print(msg, "k", 1); return pc }},
	{"PrintContext", func(lg *slog.Entry, msg string) uintptr { pc := c06herePC(); lg.PrintContext(bg, msg, "k", 1); return pc }},
	{"Println", func(lg *slog.Entry, msg string) uintptr { pc := c06herePC(); lg.Println(msg, "k", 1); return pc }},
	{"PrintlnContext", func(lg *slog.Entry, msg string) uintptr { pc := c06herePC(); lg.PrintlnContext(bg, msg, "k", 1); return pc }},
	{"OKContext", func(lg *slog.Entry, msg string) uintptr { pc := c06herePC(); lg.OKContext(bg, msg, "k", 1); return pc }},
	{"Warn", func(lg *slog.Entry, msg string) uintptr { pc := c06herePC(); lg.Warn(msg, "k", 1); return pc }},
	{"LogAttrs", func(lg *slog.Entry, msg string) uintptr { pc := c06herePC(); lg.LogAttrs(bg, slog.InfoLevel, msg, "k", 1); return pc }},
	{"Logit", func(lg *slog.Entry, msg string) uintptr { pc := c06herePC(); lg.Logit(bg, slog.InfoLevel, msg, "k", 1); return pc }},
	{"Infof", func(lg *slog.Entry, msg string) uintptr { pc := c06herePC(); _ = lg.Infof("%s", msg); return pc }},
	{"pkg.PrintlnContext", func(lg *slog.Entry, msg string) uintptr { pc := c06herePC(); slog.PrintlnContext(bg, msg, "k", 1); return pc }},
	{"pkg.PrintContext", func(lg *slog.Entry, msg string) uintptr { pc := c06herePC(); slog.PrintContext(bg, msg, "k", 1); return pc }},
	{"pkg.Info", func(lg *slog.Entry, msg string) uintptr { pc := c06herePC(); slog.Info(msg, "k", 1); return pc }},
	{"Info as the last statement of a small helper that the compiler inlines", func(lg *slog.Entry, msg string) uintptr { c06inlOuter(lg, msg); return c06inlLeafPC() }},
}

// A logging helper small enough to be inlined, whose logging call is its last instruction, called as the last statement
// of another small function: the record belongs to the helper (file, line AND function). Keep each on one line.
func c06inlLeaf(lg slog.Logger, msg string) { lg.Info(msg, "k", 1) }

//go:noinline
func c06inlOuter(lg slog.Logger, msg string) { c06inlLeaf(lg, msg) }

// c06inlLeafPC is a return-address-like counter inside c06inlLeaf (its entry plus one: runtime.CallersFrames steps back by one).
func c06inlLeafPC() uintptr { return reflect.ValueOf(c06inlLeaf).Pointer() + 1 }
