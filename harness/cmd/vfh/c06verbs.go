package main

import (
	"runtime"

	"github.com/hedzr/logg/slog"
)

// c06herePC is the program counter of the statement that called it (the call sites below keep their statement on ONE
// line, so the line of that counter is the line of the logging call).
func c06herePC() uintptr {
	var pcs [1]uintptr
	runtime.Callers(2, pcs[:])
	return pcs[0]
}

type c06verbSite struct {
	name string
	call func(lg *slog.Entry, msg string) uintptr
}

// c06verbSites: the public entry points, each called from a statement of its own. A colored record ends with ITS
// call site (file:line function), whichever entry point was used. Keep every literal on one line.
var c06verbSites = []c06verbSite{
	{"Info", func(lg *slog.Entry, msg string) uintptr { pc := c06herePC(); lg.Info(msg, "k", 1); return pc }},
	{"InfoContext", func(lg *slog.Entry, msg string) uintptr { pc := c06herePC(); lg.InfoContext(bg, msg, "k", 1); return pc }},
	{"Print", func(lg *slog.Entry, msg string) uintptr { pc := c06herePC(); lg.Print(msg, "k", 1); return pc }},
	{"PrintContext", func(lg *slog.Entry, msg string) uintptr { pc := c06herePC(); lg.PrintContext(bg, msg, "k", 1); return pc }},
	{"Println", func(lg *slog.Entry, msg string) uintptr { pc := c06herePC(); lg.Println(msg, "k", 1); return pc }},
	{"PrintlnContext", func(lg *slog.Entry, msg string) uintptr { pc := c06herePC(); lg.PrintlnContext(bg, msg, "k", 1); return pc }},
	{"OKContext", func(lg *slog.Entry, msg string) uintptr { pc := c06herePC(); lg.OKContext(bg, msg, "k", 1); return pc }},
	{"Warn", func(lg *slog.Entry, msg string) uintptr { pc := c06herePC(); lg.Warn(msg, "k", 1); return pc }},
	{"LogAttrs", func(lg *slog.Entry, msg string) uintptr { pc := c06herePC(); lg.LogAttrs(bg, slog.InfoLevel, msg, "k", 1); return pc }},
	{"Logit", func(lg *slog.Entry, msg string) uintptr { pc := c06herePC(); lg.Logit(bg, slog.InfoLevel, msg, "k", 1); return pc }},
	{"Infof", func(lg *slog.Entry, msg string) uintptr { pc := c06herePC(); _ = lg.Infof("%s", msg); return pc }},
	{"pkg.PrintlnContext", func(lg *slog.Entry, msg string) uintptr { pc := c06herePC(); slog.PrintlnContext(bg, msg, "k", 1); return pc }},
	{"pkg.PrintContext", func(lg *slog.Entry, msg string) uintptr { pc := c06herePC(); slog.PrintContext(bg, msg, "k", 1); return pc }},
	{"pkg.Info", func(lg *slog.Entry, msg string) uintptr { pc := c06herePC(); slog.Info(msg, "k", 1); return pc }},
}
