package main

import (
	"time"
	"bytes"
	"context"
	"encoding/json"
	"errors"
	"fmt"
	"io"
	"os"
	"runtime"
	"strings"
	"syscall"

	"github.com/hedzr/is"
	"github.com/hedzr/is/term/color"
	"github.com/hedzr/logg/slog"

	"verifharness/gen"
	"verifharness/mon"
)

func init() { reg("C02", "main", c02main) }

// userAttr is a user-defined Attr implementation.
type userAttr struct {
	k string
	v any
}

func (a *userAttr) Key() string    { return a.k }
func (a *userAttr) Value() any     { return a.v }
func (a *userAttr) SetValue(v any) { a.v = v }

// userAttrV is a user-defined Attr with VALUE receivers whose dynamic type is not comparable (it holds a slice): two
// of them may be handed to == only through their methods.
type userAttrV struct {
	k string
	v []any
}

func (a userAttrV) Key() string  { return a.k }
func (a userAttrV) Value() any   { return a.v[0] }
func (a userAttrV) SetValue(any) {}

type verb struct {
	name string
	sev  slog.Level
	any  bool // severity chosen by the caller
	call func(l *slog.Entry, ctx context.Context, sev slog.Level, msg string, args []any)
	pkg  bool
	// println-like: the message is the first argument
	println bool
}

func c02verbs() []verb {
	v := []verb{
		{name: "Error", sev: slog.ErrorLevel, call: func(l *slog.Entry, _ context.Context, _ slog.Level, m string, a []any) { l.Error(m, a...) }},
		{name: "Warn", sev: slog.WarnLevel, call: func(l *slog.Entry, _ context.Context, _ slog.Level, m string, a []any) { l.Warn(m, a...) }},
		{name: "Info", sev: slog.InfoLevel, call: func(l *slog.Entry, _ context.Context, _ slog.Level, m string, a []any) { l.Info(m, a...) }},
		{name: "Debug", sev: slog.DebugLevel, call: func(l *slog.Entry, _ context.Context, _ slog.Level, m string, a []any) { l.Debug(m, a...) }},
		{name: "Trace", sev: slog.TraceLevel, call: func(l *slog.Entry, _ context.Context, _ slog.Level, m string, a []any) { l.Trace(m, a...) }},
		{name: "Print", sev: slog.AlwaysLevel, call: func(l *slog.Entry, _ context.Context, _ slog.Level, m string, a []any) { l.Print(m, a...) }},
		{name: "OK", sev: slog.OKLevel, call: func(l *slog.Entry, _ context.Context, _ slog.Level, m string, a []any) { l.OK(m, a...) }},
		{name: "Success", sev: slog.SuccessLevel, call: func(l *slog.Entry, _ context.Context, _ slog.Level, m string, a []any) { l.Success(m, a...) }},
		{name: "Fail", sev: slog.FailLevel, call: func(l *slog.Entry, _ context.Context, _ slog.Level, m string, a []any) { l.Fail(m, a...) }},
		{name: "ErrorContext", sev: slog.ErrorLevel, call: func(l *slog.Entry, c context.Context, _ slog.Level, m string, a []any) { l.ErrorContext(c, m, a...) }},
		{name: "WarnContext", sev: slog.WarnLevel, call: func(l *slog.Entry, c context.Context, _ slog.Level, m string, a []any) { l.WarnContext(c, m, a...) }},
		{name: "InfoContext", sev: slog.InfoLevel, call: func(l *slog.Entry, c context.Context, _ slog.Level, m string, a []any) { l.InfoContext(c, m, a...) }},
		{name: "DebugContext", sev: slog.DebugLevel, call: func(l *slog.Entry, c context.Context, _ slog.Level, m string, a []any) { l.DebugContext(c, m, a...) }},
		{name: "TraceContext", sev: slog.TraceLevel, call: func(l *slog.Entry, c context.Context, _ slog.Level, m string, a []any) { l.TraceContext(c, m, a...) }},
		{name: "PrintContext", sev: slog.AlwaysLevel, call: func(l *slog.Entry, c context.Context, _ slog.Level, m string, a []any) { l.PrintContext(c, m, a...) }},
		{name: "PrintlnContext", sev: slog.AlwaysLevel, call: func(l *slog.Entry, c context.Context, _ slog.Level, m string, a []any) { l.PrintlnContext(c, m, a...) }},
		{name: "OKContext", sev: slog.OKLevel, call: func(l *slog.Entry, c context.Context, _ slog.Level, m string, a []any) { l.OKContext(c, m, a...) }},
		{name: "SuccessContext", sev: slog.SuccessLevel, call: func(l *slog.Entry, c context.Context, _ slog.Level, m string, a []any) { l.SuccessContext(c, m, a...) }},
		{name: "FailContext", sev: slog.FailLevel, call: func(l *slog.Entry, c context.Context, _ slog.Level, m string, a []any) { l.FailContext(c, m, a...) }},
		{name: "LogAttrs", any: true, call: func(l *slog.Entry, c context.Context, s slog.Level, m string, a []any) { l.LogAttrs(c, s, m, a...) }},
		{name: "Logit", any: true, call: func(l *slog.Entry, c context.Context, s slog.Level, m string, a []any) { l.Logit(c, s, m, a...) }},
		{name: "pkg.Info", sev: slog.InfoLevel, pkg: true, call: func(_ *slog.Entry, _ context.Context, _ slog.Level, m string, a []any) { slog.Info(m, a...) }},
		{name: "pkg.Warn", sev: slog.WarnLevel, pkg: true, call: func(_ *slog.Entry, _ context.Context, _ slog.Level, m string, a []any) { slog.Warn(m, a...) }},
		{name: "pkg.Print", sev: slog.AlwaysLevel, pkg: true, call: func(_ *slog.Entry, _ context.Context, _ slog.Level, m string, a []any) { slog.Print(m, a...) }},
		{name: "pkg.DebugContext", sev: slog.DebugLevel, pkg: true, call: func(_ *slog.Entry, c context.Context, _ slog.Level, m string, a []any) { slog.DebugContext(c, m, a...) }},
	}
	return v
}

// c02args builds a free-form argument list. It returns the list and a printable description.
func c02args(r *gen.R, depthMax int) ([]any, []string) {
	so := gen.StrOpt{HostilePc: 40, Long: true}
	o := gen.Options{Str: so, MaxDepth: 3}
	var args []any
	var desc []string
	n := r.Intn(10)
	switch {
	case r.P(10):
		n = 0
	case r.P(4):
		n = r.Range(100, 2000)
	case r.P(10):
		n = r.Range(10, 70)
	}
	add := func(d string, a ...any) {
		args = append(args, a...)
		if len(desc) < 40 {
			desc = append(desc, d)
		}
	}
	key := func(i int) string {
		switch r.Intn(8) {
		case 0:
			return ""
		case 1:
			return r.Str(so)
		case 2:
			return gen.Pick(r, []string{"time", "level", "msg", "caller", "logger", "error"})
		}
		return fmt.Sprintf("k%d", r.Intn(n+1))
	}
	for i := 0; i < n; i++ {
		switch x := r.Intn(100); {
		case x < 45: // key, value
			k := key(i)
			v := r.Value(o, 0)
			if v.Kind == "group" {
				add("group-attr", gen.KV{Key: k, Val: v}.Attr())
			} else {
				add("kv:"+v.Kind, k, v.Go)
			}
		case x < 52: // typed nils and odd values
			k := key(i)
			v := gen.Pick(r, []any{nil, map[string]int(nil), []int(nil), (*gen.PlainStruct)(nil), []string(nil), []byte(nil), error(nil), (func())(nil), (chan int)(nil), struct{}{}, [2]int{1, 2}, uintptr(7), int8(-1), &struct{ X *int }{}})
			add(fmt.Sprintf("kv:odd:%T", v), k, v)
		case x < 58: // non-string in key position
			v := gen.Pick(r, []any{42, nil, 3.5, true, []int{1}, struct{ A int }{1}, slog.InfoLevel, []byte("k")})
			add(fmt.Sprintf("nonstring-key:%T", v), v)
		case x < 64: // Attr
			add("Attr", slog.NewAttr(key(i), r.Value(o, 0).Go))
		case x < 69: // Attrs
			as := slog.NewAttrs(key(i), r.Int64(), key(i), r.Str(so))
			add("Attrs", as)
		case x < 74: // []Attr possibly with nil members
			l := []slog.Attr{slog.String(key(i), r.Str(so)), nil, slog.Int("n", 1)}
			if r.Bool() {
				l = []slog.Attr{nil}
			}
			if r.P(20) {
				l = nil
			}
			add("[]Attr(with nil)", l)
		case x < 77: // user-defined Attr
			add("userAttr", &userAttr{key(i), r.Value(o, 0).Go})
		case x < 79: // two user-defined Attrs of a value type that is not comparable, under keys that sort next to each other
			add("userAttr(value type, not comparable) x2", userAttrV{fmt.Sprintf("zzzz-ua%d-1", i), []any{r.Int64()}}, userAttrV{fmt.Sprintf("zzzz-ua%d-2", i), []any{r.Str(so)}})
		case x < 86: // deep group
			d := r.Range(1, depthMax)
			var g slog.Attr = slog.Group(fmt.Sprintf("leaf%d", i), "x", r.Int64(), "y", r.Str(so))
			for j := 0; j < d; j++ {
				g = slog.Group(fmt.Sprintf("g%d", j), "pre", j, g, "post", r.Str(so))
			}
			add(fmt.Sprintf("group-depth-%d", d+1), g)
		case x < 88: // an application object that writes itself (ObjectMarshaller); every other one gives up with an error AFTER it opened its object
			acc := c02account{Name: r.Str(so), Balance: []int{10, -1}[r.Intn(2)]}
			if acc.Balance < 0 {
				c02laxJSON = true // (an object its owner left open: the record still ends with its line break, in one Write)
			}
			add("object-marshaller", key(i), acc)
		case x < 90: // empty group
			add("empty-group", slog.Group(key(i)))
		case x < 93:
			add("group-easy", slog.NewGroupedAttrEasy(key(i), "a", 1, "dangling"))
		case x < 96:
			add("strongly-typed", slog.Duration("d", r.Dur()), slog.Time("t", r.Time()), slog.Float32("f", float32(r.F64())), slog.Complex128("c", complex(r.F64(), r.F64())), slog.Any("any", nil))
		default:
			add("kv:any", key(i), r.Value(o, 0).Go)
		}
	}
	if r.P(20) {
		add("dangling-key", key(n))
	}
	return args, desc
}

// reentrantWriter logs a record of its own (through another logger, to another monitor) BEFORE it consumes its
// payload - what a destination that reports metrics or audit lines through the same library does.
type reentrantWriter struct {
	inner mon.W
	nest  *slog.Entry
	busy  bool
}

func (w *reentrantWriter) Write(p []byte) (int, error) {
	if !w.busy {
		w.busy = true
		w.nest.Info("nested record issued from inside a destination's Write", "len", len(p), "pad", "0123456789012345678901234567890123456789")
		w.busy = false
	}
	return w.inner.Write(p)
}

type c02dest struct {
	normal, errs []int
	perLevel     map[slog.Level][]int
}

var c02thisFile = func() string { _, f, _, _ := runtime.Caller(0); return f }()

// c02laxJSON: the arguments of the current case hold an object marshaller that gives up after opening its object; the
// JSON around it cannot be required to be well-formed then (user marshallers are outside C04's domain too)
var c02laxJSON bool

// c02account is an application type that writes itself into the record (slog.ObjectMarshaller); with a negative balance
// it finds out too late - after it opened its object - and returns an error (it does not panic).
type c02account struct {
	Name    string
	Balance int
}

func (a c02account) MarshalSlogObject(enc *slog.PrintCtx) error {
	enc.Begin()
	enc.AddString("name", a.Name)
	if a.Balance < 0 {
		return errors.New("account: negative balance")
	}
	enc.AddComma()
	enc.AddInt("balance", a.Balance)
	enc.End(false)
	return nil
}

func c02main(c *Ctx) {
	cwdGone := false
	if c.X("cwdgone", "") == "1" {
		// the working directory of the process has been removed under it: a call still returns, with its one Write
		if d, err := os.MkdirTemp("", "c02-gone-*"); err == nil && os.Chdir(d) == nil {
			_ = os.Remove(d)
			cwdGone = true
			c.R.Add("processes_whose_working_directory_was_removed", 1)
		}
	}
	log := mon.NewLog()
	const nW = 5
	var pool []io.Writer
	shapes := []mon.Shape{mon.ShapePlain, mon.ShapeCloser, mon.ShapeLvlPlain, mon.ShapeLvlCloser, mon.ShapePlain}
	for i := 0; i < nW; i++ {
		pool = append(pool, mon.New(log, fmt.Sprintf("W%d", i), shapes[i]))
	}
	// W4 consumes its payload only after logging something itself
	nestLog := mon.NewLog()
	nestLog.Discard = true
	nestLogger := slog.New("nested").Root()
	nestLogger.SetWriter(mon.New(nestLog, "N", mon.ShapePlain)).SetErrorWriter(mon.New(nestLog, "N", mon.ShapePlain)).SetLevel(slog.AlwaysLevel)
	cores := make([]mon.W, nW)
	for i := range pool {
		cores[i] = pool[i].(mon.W)
	}
	pool[4] = &reentrantWriter{inner: pool[4].(mon.W), nest: nestLogger}
	// W1 (a destination that can be closed) is handed over through the exported NewLogWriter wrapper
	pool[1] = slog.NewLogWriter(cores[1])
	verbs := c02verbs()
	// two registered custom severities: one without and one with the error device
	_ = slog.RegisterLevel(c02lvlPlain, "c02plain", slog.RegWithTreatedAsLevel(slog.InfoLevel))
	_ = slog.RegisterLevel(c02lvlErr, "c02err", slog.RegWithTreatedAsLevel(slog.WarnLevel), slog.RegWithPrintToErrorDevice(true))
	// titles of fewer characters than the tag width but more bytes, and the other way round
	_ = slog.RegisterLevel(c02lvlWide1, "日本", slog.RegWithTreatedAsLevel(slog.InfoLevel))
	_ = slog.RegisterLevel(c02lvlWide2, "ñé", slog.RegWithTreatedAsLevel(slog.WarnLevel), slog.RegWithPrintToErrorDevice(true))
	_ = slog.RegisterLevel(c02lvlWide3, "😀", slog.RegWithTreatedAsLevel(slog.InfoLevel))
	_ = slog.RegisterLevel(c02lvlWide4, "Ünïcödé-títlé", slog.RegWithTreatedAsLevel(slog.InfoLevel))
	slog.AddFlags(slog.LnoInterrupt)
	savedDefault := slog.Default()
	c.Each(func(idx int, r *gen.R) {
		c02laxJSON = false
		defer slog.SetDefault(savedDefault)
		restore := withFlags(0, 0)
		defer restore()
		// none of the severities used here terminates: whether Panic/Fatal may interrupt is irrelevant, in either setting
		for _, f := range []slog.Flags{slog.LnoInterrupt, slog.Linterruptalways, slog.Lcaller, slog.LattrsR, slog.Ldate, slog.Ltime, slog.Lmicroseconds, slog.LlocalTime, slog.Lprivacypath, slog.Lprivacypathregexp, slog.Lcallerpackagename} {
			if r.Bool() {
				slog.AddFlags(f)
			} else {
				slog.RemoveFlags(f)
			}
		}
		// the known-path tables may redact the caller's whole path to nothing (caller and privacy flags switched on for it)
		if r.P(6) {
			slog.AddFlags(slog.Lcaller | slog.Lprivacypath)
			if r.Bool() {
				slog.AddKnownPathMapping(c02thisFile, "")
				defer slog.RemoveKnownPathMapping(c02thisFile)
			} else {
				slog.AddFlags(slog.Lprivacypathregexp)
				slog.AddKnownPathRegexpMapping(`^.*/vfh/c02\.go$`, "")
				defer slog.RemoveKnownPathRegexpMapping(`^.*/vfh/c02\.go$`)
			}
			c.R.Add("calls_whose_caller_path_is_redacted_to_nothing", 1)
		}
		f := Format(r.Intn(3))
		// destinations
		var d c02dest
		d.perLevel = map[slog.Level][]int{}
		perm := r.Perm(nW)
		d.normal = []int{perm[0]}
		d.errs = []int{perm[1]}
		if r.P(30) {
			d.errs = []int{perm[0]}
		}
		if r.P(30) {
			d.normal = append(d.normal, perm[2])
		}
		if r.P(20) {
			d.errs = append(d.errs, perm[2])
		}
		name := gen.Pick(r, []string{"", "c02", "svc"})
		var lg *slog.Entry
		if name == "" {
			lg = slog.New().Root()
		} else {
			lg = slog.New(name).Root()
		}
		// a logger that is never given a normal or an error writer: the destinations selected for it are the package's
		// default devices (fds 1 and 2 of this process, observed through files), whatever per-level writers it gets
		defaultDev := r.P(8) && !cwdGone // (the device files of that variant are made in the working directory)
		if defaultDev {
			d.normal, d.errs = nil, nil
			c.R.Add("calls_on_a_logger_left_to_the_default_devices", 1)
		} else {
			// how the destinations are handed over: as they are; as values of a FUNCTION type that is a Writer (values
			// that cannot be compared with == or used as map keys); or behind a decoy that was registered in front of
			// each class and removed again before the call (the lists then hold exactly the destinations of the model)
			dst := func(i int) io.Writer { return pool[i] }
			decoy := io.Writer(nil)
			switch idx % 7 {
			case 3:
				dst = func(i int) io.Writer { return funcLW(pool[i].Write) }
				c.R.Add("calls_whose_destinations_are_function_values", 1)
			case 5:
				decoy = mon.New(log, "DECOY", mon.ShapePlain)
				c.R.Add("calls_after_a_decoy_in_front_of_each_class_was_removed", 1)
			}
			errorsFirst := decoy == nil && idx%3 == 1
			if errorsFirst {
				// the error destinations (and a per-level one) are configured BEFORE the normal one: the order of the calls is
				// no input of what each of them configures
				lg.SetErrorWriter(dst(d.errs[0]))
				for _, w := range d.errs[1:] {
					lg.AddErrorWriter(dst(w))
				}
				if r.P(40) {
					l := gen.Pick(r, []slog.Level{slog.InfoLevel, slog.ErrorLevel, slog.AlwaysLevel, slog.DebugLevel})
					d.perLevel[l] = []int{perm[3]}
					lg.AddLevelWriter(l, pool[perm[3]])
				}
				c.R.Add("loggers_whose_error_destinations_were_configured_before_the_normal_one", 1)
			}
			if decoy != nil {
				lg.SetWriter(decoy)
				lg.AddWriter(dst(d.normal[0]))
			} else {
				lg.SetWriter(dst(d.normal[0]))
			}
			for _, w := range d.normal[1:] {
				lg.AddWriter(dst(w))
			}
			if errorsFirst {
				// (done above)
			} else if decoy != nil {
				lg.SetErrorWriter(decoy)
				lg.AddErrorWriter(dst(d.errs[0]))
			} else {
				lg.SetErrorWriter(dst(d.errs[0]))
			}
			for _, w := range d.errs[1:] {
				if !errorsFirst {
					lg.AddErrorWriter(dst(w))
				}
			}
			if decoy != nil {
				lg.RemoveWriter(decoy)
				lg.RemoveErrorWriter(decoy)
			}
		}
		if len(d.perLevel) == 0 && (r.P(25) || (defaultDev && r.P(50))) {
			l := gen.Pick(r, []slog.Level{slog.InfoLevel, slog.ErrorLevel, slog.AlwaysLevel, slog.DebugLevel})
			d.perLevel[l] = []int{perm[3]}
			lg.AddLevelWriter(l, pool[perm[3]])
		}
		if r.P(12) {
			// a per-level writer added and removed again: the class list applies again
			l := gen.Pick(r, []slog.Level{slog.InfoLevel, slog.ErrorLevel, slog.WarnLevel, slog.AlwaysLevel, slog.OKLevel})
			if len(d.perLevel[l]) == 0 {
				lg.AddLevelWriter(l, pool[perm[4]])
				lg.RemoveLevelWriter(l, pool[perm[4]])
			}
		}
		// one member of the writer pool reports an error for this call (with a full, a short or a zero count): every
		// destination selected for the severity still gets its one whole Write. The diagnostic warning the library
		// then issues is a record of its own (C13 judges it) and is left out of the per-call count.
		failing := -1
		if r.P(15) && !defaultDev {
			failing = perm[r.Intn(3)]
			if failing == 4 {
				failing = perm[3]
			}
			if failing != 4 {
				cnt := r.Intn(3)
				// ... or it answers with a SHORT count and no error at all (a sink that takes what fits): it was handed the
				// whole record in one Write, that is all the library owes it
				silent := r.P(30)
				if silent {
					c.R.Add("calls_with_a_pool_member_that_answers_short_without_an_error", 1)
				}
				cores[failing].Core().Fail = func(_ int, p []byte) (bool, int) {
					if silent {
						return false, []int{len(p) / 2, len(p)/3 + 1, len(p) - 1}[cnt]
					}
					return true, []int{len(p), len(p) / 2, 0}[cnt]
				}
				// the error may be of the kind that calls itself temporary (EAGAIN, EINTR, also wrapped): still one Write each
				ek := r.Intn(5)
				cores[failing].Core().Err = func(int) error {
					return []error{nil, nil, syscall.EAGAIN, syscall.EINTR, &os.PathError{Op: "write", Path: "/dev/pts/3", Err: syscall.EAGAIN}}[ek]
				}
				defer func() { cores[failing].Core().Fail = nil; cores[failing].Core().Err = nil }()
				c.R.Add("calls_with_a_failing_pool_member", 1)
			}
		}
		nestFmt := Format(r.Intn(3))
		setFormat(nestLogger, nestFmt)
		setFormat(lg, f)
		L := gen.Pick(r, builtinLevels)
		lg.SetLevel(L)
		is.SetDebugMode(false)
		// some OTHER logger of the process was put at Debug level: that switches the process-wide debug mode on (a documented,
		// sticky side effect; it admits the Debug severity everywhere) - a call still produces ITS record and nothing else
		debugOn := r.P(12)
		if debugOn {
			slog.New("debug-elsewhere").SetLevel(slog.DebugLevel)
			defer is.SetDebugMode(false)
			slog.SetDefault(lg) // (the logger under test is also the process's default logger: what the library itself has to say goes to ITS devices)
			c.R.Add("calls_while_the_process_wide_debug_mode_is_on", 1)
		}
		deep := false
		if r.P(6) && L != slog.OffLevel && !defaultDev {
			// a logger deep down a chain (every level with an attribute of its own)
			for d := r.Range(7, 14); d > 0; d-- {
				lg = lg.New(fmt.Sprintf("deep%d", d))
				lg.Set(fmt.Sprintf("anc%d", d), d)
			}
			c.R.Add("calls_on_a_logger_seven_or_more_levels_down", 1)
			deep = true
		}
		if (deep || r.P(20)) && L != slog.OffLevel && !defaultDev {
			lg = lg.New("kid")
			// a child has no writers of its own: give it the same configuration
			lg.SetWriter(pool[d.normal[0]])
			for _, w := range d.normal[1:] {
				lg.AddWriter(pool[w])
			}
			lg.SetErrorWriter(pool[d.errs[0]])
			for _, w := range d.errs[1:] {
				lg.AddErrorWriter(pool[w])
			}
			for l, ws := range d.perLevel {
				lg.AddLevelWriter(l, pool[ws[0]])
			}
			name = "kid"
			if par := lg.Parent(); par != nil && r.Bool() {
				// the application asks for the child by its name again - the way it did when it made it, additive writer options
				// included: the child exists and is handed out as it is
				for i := 0; i < 2; i++ {
					if again := par.New("kid", slog.AddWriter(pool[d.normal[0]]), slog.AddErrorWriter(pool[d.errs[0]])); again != lg {
						c.R.Violation(idx, "delivery", "C02/delivery/child-fetched-again", "New(\"kid\", options...) on the parent of an existing child made another logger", nil)
						return
					}
				}
				c.R.Add("children_fetched_again_by_name_with_additive_writer_options", 1)
			}
		}
		// registered context keys (with a context that carries one of them, none of them, or is nil)
		ctxKeys := r.P(25)
		if ctxKeys {
			lg.SetContextKeys("rid", ctxKeyT{"uid"})
			c.R.Add("calls_on_a_logger_with_context_keys", 1)
		}
		vb := gen.Pick(r, verbs)
		sev := vb.sev
		if vb.any {
			sev = gen.Pick(r, []slog.Level{slog.ErrorLevel, slog.WarnLevel, slog.InfoLevel, slog.DebugLevel, slog.TraceLevel, slog.AlwaysLevel, slog.OKLevel, slog.SuccessLevel, slog.FailLevel, slog.OffLevel, slog.Level(55), slog.Level(-1), slog.Level(-8), slog.Level(-1000), slog.Level(64), slog.Level(1 << 20), c02lvlPlain, c02lvlErr, c02lvlWide1, c02lvlWide2, c02lvlWide3, c02lvlWide4})
		}
		if vb.pkg {
			slog.SetDefault(lg) // *Entry is a Logger the package functions know
		}
		longLine := false
		id := fmt.Sprintf("c02id%dz", idx)
		msg := id + r.Str(gen.StrOpt{HostilePc: 45, Long: true})
		if r.P(30) { // the id is not always the first thing in the message: leading line breaks, blanks, controls, markup
			msg = gen.Pick(r, []string{"\n", "\n\n", "\r\n", " ", "\t", "\x00", "<b>", "\"", "\\", "\x1b[31m", "\xff", "\n \n"}) + msg
		}
		if r.P(3) {
			msg += strings.Repeat(gen.Pick(r, gen.Hostile)+"0123456789", r.Range(1000, 18000)) // up to ~200 kB
		}
		if r.P(4) {
			// a message of several lines one of which (not the first) is 64 KiB or longer, with a marked line behind it
			msg = id + " head\n" + strings.Repeat("0123456789abcdef", 4096+r.Intn(3)) + "\nc02tail-" + id[5:]
			longLine = true
			c.R.Add("calls_with_a_continuation_line_of_64KiB_or_more", 1)
		}
		if r.P(5) {
			// the application asked for a wide message column (SetMessageMinimalWidth above 80)
			slog.SetMessageMinimalWidth(gen.Pick(r, []int{81, 100, 118, 200}))
			defer slog.SetMessageMinimalWidth(36)
			c.R.Add("calls_with_a_message_column_wider_than_80", 1)
		}
		blank := false
		// Println family & blank messages
		mode := "verb"
		var args []any
		var adesc []string
		switch x := r.Intn(100); {
		case x < 8: // Println / pkg.Println variants
			mode = gen.Pick(r, []string{"Println()", "Println(str,...)", "Println(nonstring,...)", "pkg.Println()", "pkg.Println(str,...)", "pkg.Println(nonstring,...)",
				// lines through a std log bridge built on the logger - an EMPTY line included - and the bridge's own entry point
				"bridge.Println() at Always", "bridge.Print(\"\") at Info", "bridge.Print(msg) at Warn"})
			sev = slog.AlwaysLevel
			switch mode {
			case "bridge.Print(\"\") at Info":
				sev = slog.InfoLevel
			case "bridge.Print(msg) at Warn":
				sev = slog.WarnLevel
			}
		case x < 14: // blank Print
			mode = "blank"
			sev = slog.AlwaysLevel
			msg = gen.Pick(r, []string{"", " ", "\n", "\r\n", " \t \n", "\t", "\n\n\n"})
			blank = true
		}
		args, adesc = c02args(r, 12)
		if r.P(12) {
			// an instant in the last half microsecond of its second, as an attribute (also under the name "time", which the
			// text formats print through the timestamp path): a value like any other
			at := time.Date(2024, 1, 2, 3, 4, 59, 999999500+r.Intn(500), time.FixedZone("", gen.Pick(r, []int{0, 3600, -5*3600 - 1800})))
			args = append(args, gen.Pick(r, []string{"time", "time", "time", "at"}), at)
			adesc = append(adesc, "instant-at-the-end-of-its-second")
			c.R.Add("calls_with_an_instant_in_the_last_half_microsecond_of_its_second", 1)
		}
		ctx := context.Background()
		if ctxKeys && r.Bool() {
			ctx = context.WithValue(ctx, "rid", "r-"+fmt.Sprint(idx)) //nolint:staticcheck // string keys are what the library documents
		}
		if r.P(10) || (ctxKeys && r.P(30)) {
			ctx = nil
		}
		// the colours of the severity may have been set by the application, "no colour" included
		if r.P(8) {
			fg := gen.Pick(r, []color.Color{color.NoColor, color.FgRed, color.FgDefault})
			bg := gen.Pick(r, []color.Color{color.NoColor, color.BgBlue, color.BgUnderline})
			slog.SetLevelColors(sev, fg, bg)
			c.R.Add("calls_after_SetLevelColors_for_the_severity", 1)
		}
		// a skip count that runs off the stack (a wrapper library mis-set it, the call is a goroutine's entry function):
		// the record has no caller to name, it is delivered all the same
		if r.P(8) {
			lg.SetSkip(gen.Pick(r, []int{30, 64, 1000}))
			slog.AddFlags(slog.Lcaller)
			if r.Bool() {
				slog.RemoveFlags(slog.Lcallerpackagename)
			}
			c.R.Add("calls_with_a_skip_count_beyond_the_stack", 1)
		}
		// the application has called Close on what GetWriter / GetWriterBy hand out (the destinations themselves stay
		// what they are: a closed destination is still handed every record, what it does with it is its business)
		if r.P(4) && !defaultDev {
			_ = lg.GetWriter().Close()
			_ = lg.GetWriterBy(sev).Close()
			c.R.Add("calls_after_Close_on_the_loggers_writers", 1)
		}
		desc := map[string]any{"format": f.String(), "logger_level": L.String(), "entry": vb.name, "mode": mode, "severity": int(sev), "msg": q(clip(msg, 200)), "nargs": len(args), "args": adesc,
			"normal": d.normal, "error": d.errs, "default_devices": defaultDev, "failing_writer": failing, "per_level": fmt.Sprint(d.perLevel), "flags": int64(slog.GetFlags()), "child": name == "kid", "nil_ctx": ctx == nil, "context_keys": ctxKeys}
		c.R.JournalNote(fmt.Sprintf("%v", desc))
		log.Reset()
		pkgCall := false
		panicked := ""
		var fdsRestore func() (out1, out2 []byte)
		if defaultDev {
			fdsRestore = borrowFds()
		}
		func() {
			defer func() {
				if e := recover(); e != nil {
					panicked = fmt.Sprint(e)
				}
			}()
			switch mode {
			case "Println()":
				lg.Println()
				blank = true
			case "Println(str,...)":
				lg.Println(append([]any{msg}, args...)...)
			case "Println(nonstring,...)":
				first := gen.Pick(r, []any{42, nil, 3.5, []byte("x"), struct{ A int }{7}, fmt.Errorf("e"), slog.InfoLevel})
				lg.Println(append([]any{first}, args...)...)
				id = ""
			case "pkg.Println()":
				slog.SetDefault(lg)
				slog.Println()
				blank, pkgCall = true, true
			case "pkg.Println(str,...)":
				slog.SetDefault(lg)
				slog.Println(append([]any{msg}, args...)...)
				pkgCall = true
			case "pkg.Println(nonstring,...)":
				slog.SetDefault(lg)
				first := gen.Pick(r, []any{42, nil, 3.5, []byte("x"), struct{ A int }{7}, fmt.Errorf("e"), slog.InfoLevel})
				slog.Println(append([]any{first}, args...)...)
				id, pkgCall = "", true
			case "bridge.Println() at Always":
				slog.NewLogLogger(lg, slog.AlwaysLevel).Println()
				blank = true
			case "bridge.Print(\"\") at Info":
				slog.NewLogLogger(lg, slog.InfoLevel).Print("")
				id = ""
			case "bridge.Print(msg) at Warn":
				slog.NewLogLogger(lg, slog.WarnLevel).Print(msg)
			case "blank":
				if r.Bool() {
					lg.Print(msg, args...)
				} else {
					lg.Println(append([]any{msg}, args...)...)
				}
			default:
				vb.call(lg, ctx, sev, msg, args)
				pkgCall = vb.pkg
			}
		}()
		_ = pkgCall
		var fd1, fd2 []byte
		if fdsRestore != nil {
			fd1, fd2 = fdsRestore()
		}
		if panicked != "" {
			f0 := vb.name
			if mode != "verb" {
				f0 = mode
			}
			c.R.Violation(idx, "returns-normally", "C02/returns-normally/"+f0, fmt.Sprintf("a call of non-terminating severity %v(%d) panicked: %s", sev, int(sev), clip(panicked, 300)), desc)
			return
		}
		evs := log.Events()
		c.R.Add("write_events", int64(len(evs)))
		treat := map[slog.Level]slog.Level{c02lvlPlain: slog.InfoLevel, c02lvlErr: slog.WarnLevel, c02lvlWide1: slog.InfoLevel, c02lvlWide2: slog.WarnLevel, c02lvlWide3: slog.InfoLevel, c02lvlWide4: slog.InfoLevel}
		for k, v := range builtinTreatAs {
			treat[k] = v
		}
		adm := admit(L, sev, debugOn, treat)
		// expected destinations
		var sel []int
		if ws := d.perLevel[sev]; len(ws) > 0 {
			sel = ws
		} else if builtinErrorClass(sev) {
			sel = d.errs
		} else {
			sel = d.normal
		}
		want := map[string]int{}
		if adm {
			for _, w := range sel {
				want[fmt.Sprintf("W%d", w)]++
			}
		}
		if defaultDev {
			// what reached fds 1 and 2: nothing unless the call is admitted and no per-level writer is selected; then
			// exactly one whole record on the device of the severity's class and nothing on the other
			feature := vb.name
			if mode != "verb" {
				feature = mode
			}
			w1, w2 := []byte(nil), []byte(nil)
			if adm && len(sel) == 0 {
				if builtinErrorClass(sev) {
					w2 = []byte("x")
				} else {
					w1 = []byte("x")
				}
			}
			for _, x := range []struct {
				name      string
				got, want []byte
			}{{"stdout", fd1, w1}, {"stderr", fd2, w2}} {
				if (len(x.got) > 0) != (len(x.want) > 0) {
					c.R.Violation(idx, "delivery", "C02/delivery/default-device/"+feature, fmt.Sprintf("a logger never given normal/error writers (per-level: %v), severity %v(%d), admitted=%v: %s received %d byte(s) %s; writer events: %s", d.perLevel, sev, int(sev), adm, x.name, len(x.got), q(clip(string(x.got), 300)), clip(fmtEvents(evs), 600)), desc)
					return
				}
				if len(x.got) > 0 {
					if why := wholeRecord(f, x.got, id, blank, c.Testing); why != "" {
						c.R.Violation(idx, "whole-record", "C02/whole-record/default-device/"+f.String()+"/"+feature, fmt.Sprintf("what reached %s is not one whole record: %s: %s", x.name, why, q(clip(string(x.got), 600))), desc)
						return
					}
					c.R.Add("records_delivered_whole_to_a_default_device", 1)
				}
			}
		}
		got := map[string][]mon.Event{}
		for _, e := range evs {
			if e.Kind == mon.EvWrite {
				if failing >= 0 && bytes.Contains(e.Data, []byte(diagText)) && (id == "" || !bytes.Contains(e.Data, []byte(id))) {
					c.R.Add("diagnostic_records_left_to_C13", 1)
					continue
				}
				got[e.W] = append(got[e.W], e)
			}
		}
		feature := vb.name
		if mode != "verb" {
			feature = mode
		}
		bad := false
		if n := len(got["DECOY"]); n > 0 {
			bad = true
			c.R.Violation(idx, "delivery", "C02/delivery/removed-destination/"+feature, fmt.Sprintf("a destination that was registered in front of its class and REMOVED before the call saw %d Write(s); events: %s", n, clip(fmtEvents(evs), 1500)), desc)
		}
		for i := 0; i < nW && !bad; i++ {
			wid := fmt.Sprintf("W%d", i)
			if len(got[wid]) != want[wid] {
				bad = true
				kind := "count"
				if !adm {
					kind = "written-though-not-admitted"
				}
				c.R.Violation(idx, "delivery", "C02/delivery/"+kind+"/"+feature, fmt.Sprintf("writer %s saw %d Write(s), expected %d (admitted=%v, selected %v); events: %s", wid, len(got[wid]), want[wid], adm, sel, clip(fmtEvents(evs), 1500)), desc)
				break
			}
		}
		if bad {
			return
		}
		if !adm {
			c.R.Add("calls_not_admitted_silent", 1)
			c.R.NonTrivial("silent", idx, c.Testing)
			return
		}
		for wid, es := range got {
			for _, e := range es {
				if why := wholeRecord(f, e.Data, id, blank, c.Testing); why != "" {
					c.R.Violation(idx, "whole-record", "C02/whole-record/"+f.String()+"/"+feature, fmt.Sprintf("payload at %s is not one whole record: %s: %s", wid, why, q(clip(string(e.Data), 600))), desc)
					return
				}
				if longLine && id != "" && !blank && mode == "verb" && !bytes.Contains(e.Data, []byte("c02tail-")) {
					c.R.Violation(idx, "whole-record", "C02/whole-record/"+f.String()+"/long-continuation-line", fmt.Sprintf("payload at %s (%d bytes) lacks the last line of the message (it stands behind a line of 64 KiB or more): %s ... %s", wid, len(e.Data), q(clip(string(e.Data), 200)), q(string(e.Data[max0(len(e.Data)-120):]))), desc)
					return
				}
			}
		}
		c.R.Add("records_delivered_whole", int64(len(evs)))
		c.R.Add("calls_admitted", 1)
		c.R.Add("args_passed", int64(len(args)))
		c.R.Max("max_args", int64(len(args)))
		c.R.Max("max_payload_bytes", func() int64 {
			m := 0
			for _, e := range evs {
				if len(e.Data) > m {
					m = len(e.Data)
				}
			}
			return int64(m)
		}())
		c.R.Distinct("entry_points", feature)
		for _, a := range adesc {
			c.R.Distinct("arg_forms", a)
		}
		c.R.NonTrivial("admitted", idx, c.Testing)
		if c.R.WantSample() && len(args) > 2 && len(evs) > 0 {
			c.R.Sample(idx, desc, map[string]any{"writes": fmtEvents(evs[:1])})
		}
	})
}

func wholeRecord(f Format, p []byte, id string, blank, testing bool) string {
	if blank {
		if string(p) != "\n" {
			return "a blank Print/Println must be delivered as exactly one newline byte"
		}
		return ""
	}
	if len(p) == 0 || p[len(p)-1] != '\n' {
		return "does not end with a newline"
	}
	if id != "" && !bytes.Contains(p, []byte(id)) {
		return "does not carry this call's id " + id
	}
	if id != "" && bytes.Count(p, []byte(id)) != 1 {
		return "carries the call's id more than once"
	}
	switch f {
	case FJSON:
		line := p[:len(p)-1]
		if len(line) < 2 || line[0] != '{' || (line[len(line)-1] != '}' && !c02laxJSON) {
			return "JSON record does not start with { and end with }"
		}
		if bytes.IndexByte(line, '\n') >= 0 {
			return "JSON record spans several lines"
		}
		if !json.Valid(line) && !c02laxJSON {
			var v any
			return fmt.Sprintf("not valid JSON (%v)", json.Unmarshal(line, &v))
		}
	case FLogfmt:
		if !bytes.HasPrefix(p, []byte("time=")) {
			return "logfmt record does not start with time="
		}
		// keys are free-form here (C05 restricts them to legal logfmt keys), so a raw LF inside a key is possible: no single-line clause
	case FColor:
		if !bytes.HasPrefix(p, []byte("\x1b[")) {
			return "colored record does not start with the timestamp colour"
		}
	}
	return ""
}

const (
	c02lvlPlain = slog.Level(70) // registered, no error device: normal writers
	c02lvlErr   = slog.Level(71) // registered for the error device
	c02lvlWide1 = slog.Level(72) // titles with multi-byte characters
	c02lvlWide2 = slog.Level(73) // (error device)
	c02lvlWide3 = slog.Level(74)
	c02lvlWide4 = slog.Level(75)
)

// builtinErrorClass: the severities that go to the error writers in the C02 processes.
func builtinErrorClass(l slog.Level) bool {
	switch l {
	case slog.PanicLevel, slog.FatalLevel, slog.ErrorLevel, slog.WarnLevel, slog.FailLevel, c02lvlErr, c02lvlWide2:
		return true
	}
	return false
}
