package main

import (
	stdslog "log/slog"
	"context"
	"errors"
	"fmt"
	"sort"
	"strings"
	"time"

	"github.com/hedzr/logg/slog"

	"verifharness/gen"
	"verifharness/mon"
)

func init() { reg("C07", "main", c07main) }

type ctxKeyT struct{ name string }

func (k ctxKeyT) String() string { return k.name }

// ctxKeyS is a context key type whose UNDERLYING kind is string and whose String() gives another name than the raw
// value: it is a Stringer key, printed under what String() returns.
type ctxKeyS string

func (k ctxKeyS) String() string { return "named." + string(k) }

// c07lazyAttr is an application-defined Attr (value receivers) that holds a function: values of this type cannot be
// compared with ==.
type c07lazyAttr struct {
	key string
	f   func() any
}

func (a c07lazyAttr) Key() string  { return a.key }
func (a c07lazyAttr) Value() any   { return a.f() }
func (a c07lazyAttr) SetValue(any) {}

// ctxKeyEmpty is a context key whose String() is empty.
type ctxKeyEmpty struct{}

func (ctxKeyEmpty) String() string { return "" }

type srcKV struct {
	key string
	src string  // e.g. call#3
	grp []srcKV // non-nil: a group
	isG bool
}

func (kv srcKV) attr() slog.Attr {
	if kv.isG {
		as := make([]slog.Attr, len(kv.grp))
		for i, it := range kv.grp {
			as[i] = it.attr()
		}
		return slog.NewGroupedAttr(kv.key, as...)
	}
	return slog.NewAttr(kv.key, kv.src)
}

func (kv srcKV) desc() any {
	if kv.isG {
		var m []any
		for _, it := range kv.grp {
			m = append(m, it.desc())
		}
		return map[string]any{"key": kv.key, "group": m}
	}
	return kv.key + "=" + kv.src
}

func descList(l []srcKV) []any {
	out := []any{}
	for _, kv := range l {
		out = append(out, kv.desc())
	}
	return out
}

// merge computes the reference: last occurrence of a key wins, ascending key order, recursively.
func mergeRef(list []srcKV) []srcKV {
	last := map[string]int{}
	for i, kv := range list {
		last[kv.key] = i
	}
	var out []srcKV
	for i, kv := range list {
		if last[kv.key] == i {
			if kv.isG {
				kv.grp = mergeRef(kv.grp)
			}
			out = append(out, kv)
		}
	}
	sort.SliceStable(out, func(i, j int) bool { return out[i].key < out[j].key })
	return out
}

func flattenRef(prefix string, l []srcKV, out *[]flatKV) {
	for _, kv := range l {
		k := kv.key
		if prefix != "" {
			k = prefix + "." + kv.key
		}
		if kv.isG {
			flattenRef(k, kv.grp, out)
			continue
		}
		*out = append(*out, flatKV{Key: k, Text: kv.src})
	}
}

// c07nonASCII: the keys of the case also come from other scripts (their first bytes lie 128 or more above ASCII)
var c07nonASCII bool

// c07key names key i of the key space.
func c07key(i int) string {
	if c07nonASCII {
		switch i % 4 {
		case 1:
			return fmt.Sprintf("\u65e5\u672ck%02d", i)
		case 2:
			return fmt.Sprintf("\u00e9k%02d", i)
		case 3:
			return fmt.Sprintf("\u0416k%02d", i)
		}
	}
	if c07caseKeys {
		// neighbours in the key space differ in the case of one letter only: two keys, two attributes
		return fmt.Sprintf("k%02d", i/2) + []string{"iD", "id"}[i%2]
	}
	return fmt.Sprintf("k%02d", i)
}

// c07caseKeys: the keys of the case come in pairs that differ only in letter case (traceID / traceId)
var c07caseKeys bool

func genSrcList(r *gen.R, src string, n int, keyspace int, groups bool) []srcKV {
	var out []srcKV
	for i := 0; i < n; i++ {
		tag := fmt.Sprintf("%s#%d", src, i)
		if groups && r.P(12) {
			g := srcKV{key: fmt.Sprintf("g%d", r.Intn(3)), isG: true, grp: []srcKV{}}
			if r.P(25) {
				g.key = c07key(r.Intn(keyspace)) // a key that plain attributes use too: one key, one (the last) value
			}
			m := r.Intn(5)
			for j := 0; j < m; j++ {
				g.grp = append(g.grp, srcKV{key: fmt.Sprintf("m%d", r.Intn(4)), src: fmt.Sprintf("%s.%d", tag, j)})
			}
			out = append(out, g)
			continue
		}
		if groups && r.P(4) {
			out = append(out, srcKV{key: fmt.Sprintf("g%d", r.Intn(3)), src: tag}) // a plain attribute under a key that groups use too
			continue
		}
		out = append(out, srcKV{key: c07key(r.Intn(keyspace)), src: tag})
	}
	return out
}

func c07main(c *Ctx) {
	log := mon.NewLog()
	w := mon.New(log, "W", mon.ShapePlain)
	c.Each(func(idx int, r *gen.R) {
		f := Format(r.Intn(3))
		inherit := r.Bool()
		depth := r.Range(1, 4)
		keyspace := gen.Pick(r, []int{4, 8, 16, 40})
		groups := r.P(60)
		c07nonASCII = r.P(15)
		c07caseKeys = !c07nonASCII && idx%6 == 4
		if c07caseKeys {
			c.R.Add("cases_whose_keys_come_in_pairs_that_differ_in_letter_case_only", 1)
		}
		if c07nonASCII {
			c.R.Add("cases_with_keys_from_other_scripts", 1)
		}
		restore := withFlags(0, slog.Lcaller)
		defer restore()
		if idx%9 == 4 {
			// a logger made with the EMPTY name whose own attributes are given positionally in that same New call (package
			// level and as a child): they are its own attributes, every one of them
			pf := Format(idx % 3)
			for _, mk := range []func() *slog.Entry{
				func() *slog.Entry { return slog.New("", "alpha~", "own#a", "beta~", "own#b", slog.NewAttr("gamma~", "own#c")).Root() },
				func() *slog.Entry { return slog.New("anon-parent").Root().New("", "alpha~", "own#a", "beta~", "own#b", slog.NewAttr("gamma~", "own#c")) },
			} {
				fl := mk()
				fl.SetWriter(w).SetErrorWriter(w).SetLevel(slog.AlwaysLevel)
				setFormat(fl, pf)
				evs := capture(log, func() { fl.Info("probe") })
				if len(evs) == 1 {
					d, err := decodeRecord(pf, evs[0].Data, false, false)
					if err != nil {
						d, err = decodeRecord(pf, evs[0].Data, true, false) // (a logger name in the record, though none was given)
					}
					if err == nil {
						got := map[string]string{}
						for _, a := range d.Attrs {
							got[a.Key] = a.Text
						}
						for k, v := range map[string]string{"alpha~": "own#a", "beta~": "own#b", "gamma~": "own#c"} {
							if got[k] != v {
								c.R.Violation(idx, "missing", "C07/missing/own-attributes-given-to-New-with-an-empty-name", fmt.Sprintf("New(\"\", alpha~, own#a, beta~, own#b, Attr(gamma~)): the record shows %s=%q (attributes %v)\npayload: %s", k, got[k], briefAttrs(d.Attrs), q(clip(string(evs[0].Data), 500))), nil)
								return
							}
						}
						c.R.Add("loggers_made_with_an_empty_name_and_positional_attributes", 1)
					}
				}
			}
		}
		if inherit {
			slog.AddFlags(slog.LattrsR)
		} else {
			slog.RemoveFlags(slog.LattrsR)
		}
		// Lattrs ("do print Attr key-value pairs", part of the default flags) is cleared now and then. It is documented as
		// the switch for printing attributes at all, so a record WITHOUT any attribute is accepted under a cleared
		// Lattrs; a record that shows attributes must show all of them, by the same rule as always
		noLattrs := r.P(15)
		if noLattrs {
			slog.RemoveFlags(slog.Lattrs)
			c.R.Add("cases_with_Lattrs_cleared", 1)
		}
		// chain
		chain := []*slog.Entry{newRoot("root", f, w, slog.AlwaysLevel)}
		own := make([][]srcKV, depth)
		parentCtxKeys := false
		for d := 1; d < depth; d++ {
			ch := chain[d-1].New(fmt.Sprintf("c%d", d))
			if r.P(12) {
				// a chain link made with WithSkip: a child like any other (its own attributes and context keys are its own)
				ch = chain[d-1].WithSkip(1)
				c.R.Add("chain_links_made_with_WithSkip", 1)
				if d == depth-1 && r.Bool() {
					parentCtxKeys = true
					chain[d-1].SetContextKeys("pk0", ctxKeyT{"pk1"})
				}
			} else if d == depth-1 && r.P(20) {
				// the logger is derived with WithContextKeys from a parent that has context keys of its own (and the
				// context will hold values under them): the child looks up ITS keys
				parentCtxKeys = true
				chain[d-1].SetContextKeys("pk0", ctxKeyT{"pk1"})
				ch = chain[d-1].WithContextKeys()
				_ = chain[d-1].WithContextKeys("sibling-key")
				c.R.Add("loggers_derived_with_WithContextKeys_from_a_parent_with_keys", 1)
			}
			ch.SetWriter(w).SetErrorWriter(w)
			chain = append(chain, ch)
		}
		lateAdds := r.P(25)
		for d := 0; d < depth; d++ {
			n := r.Intn(7)
			if r.P(35) {
				n = 0 // empty own list at this position
			}
			if r.P(8) {
				n = r.Range(7, 20)
			}
			if r.P(4) {
				// a long-lived logger whose attributes were set again and again: 65-200 bindings over a few keys
				n = r.Range(65, 200)
				c.R.Add("loggers_with_65_or_more_own_bindings", 1)
			}
			src := fmt.Sprintf("anc%d", depth-1-d)
			if d == depth-1 {
				src = "own"
			}
			own[d] = genSrcList(r, src, n, keyspace, groups)
			if len(own[d]) > 0 && r.P(15) {
				// a key bound to A, then to B, then to A again (the very same value as the first time): the last one counts
				if e := own[d][r.Intn(len(own[d]))]; !e.isG {
					own[d] = append(own[d], srcKV{key: e.key, src: e.src + "-then-another"}, srcKV{key: e.key, src: e.src})
					c.R.Add("own_lists_that_rebind_a_key_to_an_earlier_value", 1)
				}
			}
			// the whole list built with NewAttrs("k", v, ...) - duplicates included - and bound in one call
			if r.P(15) && len(own[d]) > 0 {
				var pairs []any
				for _, kv := range own[d] {
					if kv.isG {
						pairs = append(pairs, kv.attr())
					} else {
						pairs = append(pairs, kv.key, kv.src)
					}
				}
				chain[d].SetAttrs1(slog.NewAttrs(pairs...))
				c.R.Add("attribute_lists_built_with_NewAttrs", 1)
				continue
			}
			for _, kv := range own[d] {
				switch r.Intn(3) {
				case 0:
					chain[d].SetAttrs(kv.attr())
				case 1:
					chain[d].SetAttrs1(slog.Attrs{kv.attr()})
				default:
					if kv.isG {
						chain[d].Set(kv.attr())
					} else {
						chain[d].Set(kv.key, kv.src)
					}
				}
			}
		}
		_ = lateAdds
		lg := chain[depth-1]
		// the ancestors may sit at levels that do not admit the record (an application that silences its root and opens
		// one sub-logger): whose attributes a record inherits has nothing to do with who else would have printed it
		for d := 0; d < depth-1; d++ {
			if r.P(30) {
				chain[d].SetLevel(gen.Pick(r, []slog.Level{slog.OffLevel, slog.ErrorLevel, slog.WarnLevel, slog.PanicLevel}))
				c.R.Add("ancestors_at_a_level_that_does_not_admit_the_record", 1)
			}
		}
		lg.SetLevel(slog.AlwaysLevel)
		// one Attrs value (NewAttrs: spare capacity) handed to this logger AND to a sibling that is extended afterwards:
		// the logger's own attributes are its own copy
		if r.P(20) && len(own[depth-1]) == 0 {
			shared := slog.NewAttrs("sha", "own#sha", "shb", "own#shb")
			lg.SetAttrs1(shared)
			own[depth-1] = append(own[depth-1], srcKV{key: "sha", src: "own#sha"}, srcKV{key: "shb", src: "own#shb"})
			sib := newRoot("sibling", f, w, slog.AlwaysLevel)
			sib.SetAttrs1(shared)
			lg.Set("shc", "own#shc")
			own[depth-1] = append(own[depth-1], srcKV{key: "shc", src: "own#shc"})
			sib.Set("shc", "SIBLING", "shd", "SIBLING")
			c.R.Add("cases_with_shared_attrs_value", 1)
		}
		// context keys
		var ctxList []srcKV
		var keyDesc []string
		var ctx context.Context = context.Background()
		nkeys := 0
		if r.P(50) || idx%emptyPoolsEvery == 0 {
			nkeys = r.Range(1, 5)
		}
		if parentCtxKeys {
			ctx = context.WithValue(context.WithValue(ctx, "pk0", "ctx#parent0"), ctxKeyT{"pk1"}, "ctx#parent1") //nolint:staticcheck // string keys are what the library documents
			ctx = context.WithValue(ctx, "sibling-key", "ctx#sibling")                                           //nolint:staticcheck
		}
		nilCtx := nkeys > 0 && r.P(10)
		type regKey struct {
			key  any
			name string
		}
		var regs []regKey
		if nkeys > 0 && r.P(25) {
			// the logger had OTHER context keys before, which were reset (the context still holds values for them)
			lg.SetContextKeys("stale-a", ctxKeyT{"stale-b"}, ctxKeyS("stale-c"))
			lg.ResetContextKeys()
			ctx = context.WithValue(context.WithValue(ctx, "stale-a", "ctx#stale-a"), ctxKeyT{"stale-b"}, "ctx#stale-b") //nolint:staticcheck
			c.R.Add("loggers_whose_context_keys_were_reset_and_registered_anew", 1)
		}
		for i := 0; i < nkeys; i++ {
			name := c07key(r.Intn(keyspace))
			if r.P(30) {
				name = fmt.Sprintf("ctx%d", i)
			}
			var key any = name
			switch r.Intn(5) {
			case 0, 1:
				key = ctxKeyT{name}
			case 2:
				// a Stringer key of underlying kind string: the attribute is named by String()
				key = ctxKeyS(name)
				name = "named." + name
			}
			if f == FJSON && r.P(8) {
				// a key whose printed name is EMPTY (the string "", a Stringer that says ""): a name like any other - JSON
				// has a spelling for it
				name = ""
				key = ""
				if r.Bool() {
					key = ctxKeyEmpty{}
				}
				c.R.Add("context_keys_whose_printed_name_is_empty", 1)
			}
			lg.SetContextKeys(key)
			regs = append(regs, regKey{key, name})
			keyDesc = append(keyDesc, fmt.Sprintf("%T(%v)", key, key))
			if r.P(75) { // present in the context
				var v any = fmt.Sprintf("ctx#%d", i)
				if r.P(25) {
					// present with the zero value of its type: a value found in the context like any other
					v = gen.Pick(r, []any{0, false, "", int64(0), uint8(0)})
					c.R.Add("context_values_that_are_zero_values", 1)
				}
				ctx = context.WithValue(ctx, key, v)
			}
		}
		// the reference looks every registered key up the way a context does: the same key registered
		// twice finds the same (innermost) value twice
		if !nilCtx {
			for _, rk := range regs {
				if v := ctx.Value(rk.key); v != nil {
					ctxList = append(ctxList, srcKV{key: rk.name, src: fmt.Sprint(v)})
				}
			}
		}
		// the context may be done by the time of the call (a cancelled request, a passed deadline - the error path of a
		// request is where one logs): it still holds its values
		switch {
		case nkeys > 0 && idx%5 == 1:
			cctx, cancel := context.WithCancel(ctx)
			cancel()
			ctx = cctx
			c.R.Add("records_under_a_context_that_is_done", 1)
		case nkeys > 0 && idx%5 == 3:
			dctx, cancel := context.WithDeadline(ctx, time.Unix(1, 0))
			defer cancel()
			ctx = context.WithValue(dctx, ctxKeyT{"after-the-deadline"}, 1)
			c.R.Add("records_under_a_context_that_is_done", 1)
		}
		// call arguments
		ncall := r.Intn(8)
		if r.P(30) {
			ncall = r.Range(8, 64)
		}
		// a call wider than anything a pooled attribute slice has held so far (the case starts with emptied pools), given
		// as plain key/value pairs
		wide := idx%emptyPoolsEvery == 0 && r.Bool()
		if wide {
			ncall = r.Range(50, 140)
			c.R.Add("wide_calls_on_fresh_pools", 1)
		}
		ks := keyspace
		if wide {
			ks = keyspace * 6 // still plenty of collisions, and enough distinct keys to stay wide after merging
		}
		call := genSrcList(r, "call", ncall, ks, groups && !wide)
		var args []any
		errGiven := false
		for _, kv := range call {
			switch {
			case !kv.isG && (wide || r.P(40)):
				args = append(args, kv.key, kv.src)
			case f == FJSON && kv.isG && len(kv.grp) == 1 && !kv.grp[0].isG && r.Bool():
				// a group of one member given as a pair whose VALUE is an attribute: "key", Attr (JSON only: the text
				// formats have no spelling for an attribute in value position, see DESIGN section 6)
				args = append(args, kv.key, kv.grp[0].attr())
				c.R.Add("pairs_whose_value_is_an_attribute", 1)
			case f == FJSON && kv.isG && len(kv.grp) > 1 && r.P(30):
				// ... or whose value is a list of attributes: "key", Attrs{...}
				var as slog.Attrs
				for _, it := range kv.grp {
					as = append(as, it.attr())
				}
				args = append(args, kv.key, as)
				c.R.Add("pairs_whose_value_is_an_attribute", 1)
			case !kv.isG && f != FJSON && !errGiven && r.P(15):
				// the value is an ERROR (printed as its message): the attributes whose keys sort after it are printed as always
				args = append(args, kv.key, errors.New(kv.src))
				errGiven = true
				c.R.Add("calls_with_an_error_valued_attribute", 1)
			default:
				args = append(args, kv.attr())
			}
		}
		// the record may go through a WithSkip child derived NOW from the logger (which has its attributes and context
		// keys by now): one more chain link, with no attributes and no context keys of its own
		if r.P(10) {
			sk := lg.WithSkip(1)
			sk.SetWriter(w).SetErrorWriter(w)
			chain = append(chain, sk)
			own = append(own, nil)
			depth++
			lg = sk
			ctxList = nil
			c.R.Add("records_through_a_WithSkip_child_of_the_configured_logger", 1)
		}
		// two application-defined attributes of a type that cannot be compared with ==, under ONE key (the later wins)
		if r.P(8) && !wide {
			k := c07key(r.Intn(keyspace))
			v1, v2 := "call#lazy1", "call#lazy2"
			args = append(args, c07lazyAttr{k, func() any { return v1 }}, c07lazyAttr{k, func() any { return v2 }})
			call = append(call, srcKV{key: k, src: v1}, srcKV{key: k, src: v2})
			c.R.Add("calls_with_two_uncomparable_user_attrs_under_one_key", 1)
		}
		// the EMPTY key bound by the logger and given again by the call, a NewAttrs bundle (which carries nil fillers)
		// between the two: one key, one (the last) value - JSON only, where the empty key has a spelling of its own
		if f == FJSON && !wide && r.P(8) {
			lg.SetAttrs(slog.NewAttr("", "own#empty"))
			own[depth-1] = append(own[depth-1], srcKV{key: "", src: "own#empty"})
			if r.Bool() {
				args = append(args, slog.NewAttrs("zz-bundle", "call#bundle"), slog.NewAttr("", "call#empty"))
			} else {
				// (the empty key as the key of a plain PAIR, a string value after it and a pair behind that)
				args = append(args, slog.NewAttrs("zz-bundle", "call#bundle"), "", "call#empty")
			}
			call = append(call, srcKV{key: "zz-bundle", src: "call#bundle"}, srcKV{key: "", src: "call#empty"})
			c.R.Add("records_with_the_empty_key_at_two_levels_and_a_bundle_between", 1)
		}
		// the record may go through a printf-style verb (no attributes of its own, and no context: Infof has none to
		// read): ancestors and the logger supply the attributes
		viaPrintfCand := len(args) == 0 && idx%2 == 0 && !nilCtx
		// reference
		var all []srcKV
		if !viaPrintfCand {
			all = append(all, ctxList...)
		}
		if inherit {
			for d := 0; d < depth-1; d++ {
				all = append(all, own[d]...)
			}
		}
		all = append(all, own[depth-1]...)
		all = append(all, call...)
		ref := mergeRef(all)
		var want []flatKV
		flattenRef("", ref, &want)

		// the record before this one died in a value that panics while being formatted (the application recovered):
		// nothing of it belongs to this record
		afterDoomed := r.P(10)
		if afterDoomed {
			doomedRecord(f, w)
			c.R.Add("cases_after_a_recovered_panicking_record", 1)
		}
		// the logger may be the process's DEFAULT logger (handed to SetDefault as the *Entry it is), the record issued
		// through the package-level function: the same sources, the same rule
		viaPkg := r.P(12) && !viaPrintfCand
		if !viaPkg && r.P(20) {
			// the process's default logger (no ancestor of this chain) has attributes of its own, app-wide ones: they are the
			// default logger's
			savedDef := slog.Default()
			app := slog.New("app-default")
			app.Set(c07key(r.Intn(keyspace)), "DEFAULT-LOGGER", "zz-app", "DEFAULT-LOGGER")
			slog.SetDefault(app)
			defer slog.SetDefault(savedDef)
			c.R.Add("records_while_the_default_logger_holds_attributes_of_its_own", 1)
		}
		if viaPkg {
			savedDef := slog.Default()
			slog.SetDefault(lg)
			defer slog.SetDefault(savedDef)
			c.R.Add("records_through_a_package_level_function_with_the_logger_as_default", 1)
		}
		// ... or through a printf-style verb (it takes no attributes of its own: context, ancestors and the logger supply them)
		viaPrintf := viaPrintfCand
		if viaPrintf {
			c.R.Add("records_through_a_printf_style_verb", 1)
		}
		viaLog := !viaPkg && !nilCtx && !viaPrintf && idx%6 == 1
		if viaLog {
			c.R.Add("records_through_the_verb_that_takes_a_log_slog_level", 1)
		}
		evs := capture(log, func() {
			switch {
			case viaPkg && nilCtx:
				slog.InfoContext(nil, "probe", args...) //nolint:staticcheck
			case viaPkg:
				slog.InfoContext(ctx, "probe", args...)
			case nilCtx:
				lg.InfoContext(nil, "probe", args...) //nolint:staticcheck // nil context is in the property's domain
			case viaPrintf:
				_ = lg.Infof("%s", "probe")
			case viaLog:
				lg.Log(ctx, stdslog.LevelInfo, "probe", args...) // the verb that takes a log/slog level: the same sources, the same rule
			default:
				lg.InfoContext(ctx, "probe", args...)
			}
		})
		desc := map[string]any{"through_package_level_function": viaPkg, "format": f.String(), "inherit_flag": inherit, "depth": depth, "ctx": descList(ctxList), "registered_ctx_keys": keyDesc, "nil_ctx": nilCtx, "call": descList(call), "after_recovered_panicking_record": afterDoomed, "Lattrs_cleared": noLattrs}
		for d := 0; d < depth; d++ {
			desc[fmt.Sprintf("logger%d_attrs", d)] = descList(own[d])
		}
		c.R.Add("write_events", int64(len(evs)))
		if len(evs) != 1 {
			c.R.Violation(idx, "one-write", "C07/one-write", fmt.Sprintf("expected one Write, saw %s", fmtEvents(evs)), desc)
			return
		}
		d, err := decodeRecord(f, evs[0].Data, true, false)
		if err != nil {
			sig := "C07/decode/" + f.String()
			if strings.Contains(err.Error(), "duplicate member") {
				sig = "C07/dup-key/" + f.String()
			}
			c.R.Violation(idx, "decode", sig, err.Error()+"\npayload: "+q(clip(string(evs[0].Data), 1200)), desc)
			return
		}
		c.R.Add("records_decoded", 1)
		c.R.Add("attrs_compared", int64(len(want)))
		total := len(all)
		if total >= 13 {
			c.R.Add("records_with_13plus_attrs", 1)
		}
		if inherit && depth > 1 && len(own[depth-1]) == 0 {
			c.R.Add("inheriting_child_without_own_attrs", 1)
		}
		if noLattrs && len(d.Attrs) == 0 {
			c.R.Add("records_without_any_attribute_under_cleared_Lattrs", 1)
			return
		}
		if vs := c07compare(d.Attrs, want, all); len(vs) > 0 {
			for _, v := range vs {
				c.R.Violation(idx, v.clause, "C07/"+v.clause+"/"+v.feature, v.detail+"\npayload: "+q(clip(string(evs[0].Data), 1200)), desc)
			}
			return
		}
		// the same logger again, this time WITHOUT arguments of the call: what the first record's arguments were is no
		// source of this record (the logger's own bindings are what they were)
		if r.P(50) {
			var all0 []srcKV
			all0 = append(all0, ctxList...)
			if inherit {
				for d := 0; d < depth-1; d++ {
					all0 = append(all0, own[d]...)
				}
			}
			all0 = append(all0, own[depth-1]...)
			var want0 []flatKV
			flattenRef("", mergeRef(all0), &want0)
			evs0 := capture(log, func() {
				if nilCtx {
					lg.InfoContext(nil, "probe") //nolint:staticcheck
				} else {
					lg.InfoContext(ctx, "probe")
				}
			})
			c.R.Add("records_without_call_arguments_after_one_with", 1)
			if len(evs0) != 1 {
				c.R.Violation(idx, "one-write", "C07/one-write", fmt.Sprintf("expected one Write, saw %s", fmtEvents(evs0)), desc)
				return
			}
			d0, err := decodeRecord(f, evs0[0].Data, true, false)
			if err != nil {
				c.R.Violation(idx, "decode", "C07/decode/"+f.String(), err.Error()+"\npayload: "+q(clip(string(evs0[0].Data), 1200)), desc)
				return
			}
			if !(noLattrs && len(d0.Attrs) == 0) {
				if vs := c07compare(d0.Attrs, want0, all0); len(vs) > 0 {
					for _, v := range vs {
						c.R.Violation(idx, v.clause, "C07/"+v.clause+"/"+v.feature+"/after-a-call-with-arguments", v.detail+"\npayload: "+q(clip(string(evs0[0].Data), 1200)), desc)
					}
					return
				}
			}
		}
		// second round: after the logger has logged once, some logger of the chain (often an ancestor two or
		// more levels up) gets further attributes; the next record must show them (no per-logger caching of
		// what was inherited at the first record)
		if r.P(40) {
			d2 := r.Intn(depth)
			src := fmt.Sprintf("late%d", depth-1-d2)
			late := genSrcList(r, src, r.Range(1, 3), keyspace, false)
			for _, kv := range late {
				chain[d2].Set(kv.key, kv.src)
			}
			own[d2] = append(own[d2], late...)
			var all2 []srcKV
			all2 = append(all2, ctxList...)
			if inherit {
				for d := 0; d < depth-1; d++ {
					all2 = append(all2, own[d]...)
				}
			}
			all2 = append(all2, own[depth-1]...)
			all2 = append(all2, call...)
			var want2 []flatKV
			flattenRef("", mergeRef(all2), &want2)
			evs2 := capture(log, func() {
				if nilCtx {
					lg.InfoContext(nil, "probe", args...) //nolint:staticcheck
				} else {
					lg.InfoContext(ctx, "probe", args...)
				}
			})
			desc["late_attrs_on_logger"] = d2
			desc["late_attrs"] = descList(late)
			c.R.Add("second_round_records", 1)
			if d2 < depth-2 && inherit {
				c.R.Add("second_round_after_change_two_or_more_levels_up", 1)
			}
			if len(evs2) != 1 {
				c.R.Violation(idx, "one-write", "C07/one-write", fmt.Sprintf("expected one Write, saw %s", fmtEvents(evs2)), desc)
				return
			}
			d2rec, err := decodeRecord(f, evs2[0].Data, true, false)
			if err != nil {
				c.R.Violation(idx, "decode", "C07/decode/"+f.String(), err.Error()+"\npayload: "+q(clip(string(evs2[0].Data), 1200)), desc)
				return
			}
			if vs := c07compare(d2rec.Attrs, want2, all2); len(vs) > 0 {
				for _, v := range vs {
					c.R.Violation(idx, v.clause, "C07/"+v.clause+"/"+v.feature+"/after-late-attrs", v.detail+"\npayload: "+q(clip(string(evs2[0].Data), 1200)), desc)
				}
				return
			}
		}
		if len(want) > 0 {
			c.R.NonTrivial(fmt.Sprint(f, inherit, depth), fmt.Sprint(descList(all)))
		}
		if c.R.WantSample() && len(want) > 3 {
			c.R.Sample(idx, desc, map[string]any{"payload": string(evs[0].Data), "expected": fmt.Sprint(want)})
		}
	})
}

func srcClass(tag string) string {
	if i := strings.Index(tag, "#"); i > 0 {
		t := tag[:i]
		if strings.HasPrefix(t, "anc") {
			return "ancestor"
		}
		return t
	}
	return "unknown"
}

func c07compare(got, want []flatKV, all []srcKV) (out []tv) {
	gm := map[string][]string{}
	for _, g := range got {
		gm[g.Key] = append(gm[g.Key], g.Text)
	}
	wm := map[string]string{}
	for _, w := range want {
		wm[w.Key] = w.Text
	}
	for k, vs := range gm {
		if len(vs) > 1 {
			out = append(out, tv{"dup-key", "text", fmt.Sprintf("key %s printed %d times: %v", k, len(vs), vs)})
			return
		}
		if _, ok := wm[k]; !ok {
			out = append(out, tv{"unexpected-key", srcClass(vs[0]), fmt.Sprintf("key %s=%s printed but not expected", k, vs[0])})
			return
		}
	}
	for _, w := range want {
		vs, ok := gm[w.Key]
		if !ok {
			out = append(out, tv{"missing", srcClass(w.Text), fmt.Sprintf("attribute %s=%s (source %s) is not in the record", w.Key, w.Text, srcClass(w.Text))})
			return
		}
		if vs[0] != w.Text {
			out = append(out, tv{"winner", "want-" + srcClass(w.Text) + "-got-" + srcClass(vs[0]), fmt.Sprintf("key %s: printed %s, the last occurrence in precedence order is %s", w.Key, vs[0], w.Text)})
			return
		}
	}
	for i := range want {
		if got[i].Key != want[i].Key {
			out = append(out, tv{"order", "ascending", fmt.Sprintf("position %d holds %s, expected %s (ascending key order): got %v", i, got[i].Key, want[i].Key, keysOf(got))})
			return
		}
	}
	return
}

func keysOf(l []flatKV) []string {
	var ks []string
	for _, kv := range l {
		ks = append(ks, kv.Key)
	}
	if len(ks) > 40 {
		ks = append(ks[:40], "…")
	}
	return ks
}
