package main

import (
	"time"
	"bytes"
	"context"
	"errors"
	"fmt"
	"io"
	"os"
	"runtime"
	"sort"
	"strings"
	"sync"
	"sync/atomic"

	"github.com/hedzr/is"
	"github.com/hedzr/logg/slog"
	errorsv3 "gopkg.in/hedzr/errors.v3"

	"verifharness/gen"
	"verifharness/mon"
)

func init() { reg("C08", "stress", c08stress) }

// ctxSpy is a user marshaller: it sees the pooled *PrintCtx that formats the record,
// which tells the evidence which formatting contexts were shared between goroutines over time.
type ctxSpy struct {
	g  int
	mu *sync.Mutex
	m  map[string]map[int]bool
}

func (s ctxSpy) MarshalSlogObject(enc *slog.PrintCtx) error {
	p := fmt.Sprintf("%p", enc)
	s.mu.Lock()
	if s.m[p] == nil {
		s.m[p] = map[int]bool{}
	}
	s.m[p][s.g] = true
	s.mu.Unlock()
	_, _ = enc.WriteString("7")
	return nil
}

var errShared = errors.New("shared error value")

// c08big is an attribute value that makes a record longer than 64 KiB
var c08big = strings.Repeat("big-0123456789abcdef-", 3500)

// c08instant is the instant of the time-only calls
var c08instant = time.Date(2031, 5, 6, 7, 8, 9, 0, time.UTC)

func c08stress(c *Ctx) {
	c.Each(func(idx int, r *gen.R) {
		G := gen.Pick(r, []int{2, 4, 16, 64})
		total := r.Range(2000, 5000)
		if c.X("race", "") == "1" {
			total = r.Range(1200, 2500)
		}
		N := total / G
		procs := gen.Pick(r, []int{1, 2, 4, 16})
		oldProcs := runtime.GOMAXPROCS(procs)
		defer runtime.GOMAXPROCS(oldProcs)
		inherit := r.Bool()
		restore := withFlags(0, slog.Lcaller)
		defer restore()
		if inherit {
			slog.AddFlags(slog.LattrsR)
		} else {
			slog.RemoveFlags(slog.LattrsR)
		}
		nLog := r.Range(1, 8)
		delay := gen.Pick(r, []int{0, 0, 1, 20})
		yield := r.Bool()
		multiline := r.Bool()
		extraLines := 0 // lines beyond the second
		if multiline && r.Bool() {
			extraLines = r.Range(1, 3)
		}

		// context keys registered on every logger; half of the calls carry their own id under them in the context
		useCtx := r.Bool()

		// shared values
		sharedCallGroup := slog.Group("sg", "z", "Z", "a", "A", "m", "M", "a", "A", slog.Group("q", "y", 2, "b", 1)) // deliberately unsorted, with a duplicate
		sharedLoggerGroup := slog.Group("lg", "w", 1, "c", 2, "k", 3, "c", 2)
		// ... and shared values in VALUE position ("key", group / "key", attribute list), which JSON loggers print as
		// nested objects: unsorted, with a duplicate, so every record has to sort and dedupe what it prints
		valuePos := r.Bool()
		sharedValueGroup := slog.Group("vg", "zz", 1, "aa", 2, "mm", 3, "aa", 2)
		sharedValueList := slog.Attrs{slog.NewAttr("lz", 1), slog.NewAttr("la", 2), slog.NewAttr("lm", 3), slog.NewAttr("la", 2)}

		log := mon.NewLog()
		type lgT struct {
			e      *slog.Entry
			f      Format
			wid    string
			own    []string // keys of the logger's own attributes (flattened)
			parent int
			quiet  int // 1: the normal device is io.Discard ("only problems are kept"); 2: ... and Info has a destination of its own
		}
		var lgs []lgT
		var marks []string // per logger: the literal prefix of its timestamp layout ("" = default layout)
		// severities nobody registered (and nobody has logged yet in this process): their tags are derived on first use
		freshLevels := []slog.Level{slog.Level(6000 + idx*8), slog.Level(6001 + idx*8), slog.Level(6002 + idx*8), slog.Level(-6000 - idx*8)}
		mkw := func(i int) mon.W {
			shape := gen.Pick(r, []mon.Shape{mon.ShapePlain, mon.ShapeCloser, mon.ShapeLvlPlain})
			w := mon.New(log, fmt.Sprintf("W%d", i), shape)
			w.Core().DelayUS = delay
			w.Core().Yield = yield
			return w
		}
		// one logger may write to the library's own file writer (NewFileWriter); its records are read back from the file
		fileLogger, filePath := -1, ""
		if r.Bool() {
			fileLogger = r.Intn(nLog)
			filePath = fmt.Sprintf("c08-%d-%d.log", idx, fileLogger)
			_ = os.Remove(filePath)
			defer os.Remove(filePath)
		}
		for i := 0; i < nLog; i++ {
			f := Format(r.Intn(3))
			var w io.Writer = mkw(i)
			if i == fileLogger {
				if f == FColor {
					f = FLogfmt // one record per line in the file
				}
				w = slog.NewFileWriter(filePath)
			}
			var e *slog.Entry
			parent := -1
			if i == 0 || r.P(30) {
				e = newRoot(fmt.Sprintf("L%d", i), f, w, slog.AlwaysLevel)
			} else {
				parent = r.Intn(i)
				e = lgs[parent].e.New(fmt.Sprintf("L%d", i))
				e.SetWriter(w).SetErrorWriter(w)
				setFormat(e, f)
				e.SetLevel(slog.AlwaysLevel)
			}
			var own []string
			if r.P(70) {
				// unsorted, with a duplicate: formatting has to sort and dedupe them for every record
				e.Set("zeta", 1, fmt.Sprintf("own%d", i), fmt.Sprintf("O%d", i), "alpha", 2, "zeta", 9)
				own = append(own, fmt.Sprintf("own%d", i), "alpha", "zeta")
				if r.Bool() {
					e.SetAttrs(sharedLoggerGroup)
					own = append(own, "lg.c", "lg.k", "lg.w")
				}
			}
			if useCtx {
				e.SetContextKeys("cid", ctxKeyT{"rid"})
			}
			// per-level writers that were added and removed again before the load starts (for the severities the load
			// uses): the class devices apply, and looking a severity up stays a read
			if r.P(35) {
				tmp := mon.New(log, fmt.Sprintf("GONE%d", i), mon.ShapePlain)
				for _, lv := range []slog.Level{slog.InfoLevel, slog.WarnLevel, slog.ErrorLevel, freshLevels[0]} {
					e.AddLevelWriter(lv, tmp)
					e.RemoveLevelWriter(lv, tmp)
				}
				c.R.Add("loggers_whose_level_writers_were_added_and_removed", 1)
			}
			// a timestamp layout of the logger's own (coarse: no sub-second part) that starts with the logger's letter, and
			// a zone mode: a record shows ITS logger's layout
			mark := ""
			if r.Bool() {
				mark = "q" + string(rune('a'+i)) + "|"
				e.SetTimeFormat(mark + gen.Pick(r, []string{"15:04:05", "15:04", "2006-01-02T15:04:05Z07:00", "Jan _2 15:04:05 MST"}))
				e.SetUTCMode(r.Bool())
			}
			marks = append(marks, mark)
			// "only problems are kept": the normal device is io.Discard, the error device records (and, sometimes, the
			// Info severity has a destination of its own) - what is routed to a recording destination arrives, all of it
			quiet := 0
			if i != fileLogger && r.P(25) {
				quiet = 1 + r.Intn(2)
				e.SetWriter(io.Discard)
				if quiet == 2 {
					e.AddLevelWriter(slog.InfoLevel, w)
				}
				c.R.Add("loggers_whose_normal_device_is_io_Discard", 1)
			}
			lgs = append(lgs, lgT{e, f, fmt.Sprintf("W%d", i), own, parent, quiet})
		}
		// expected key sets per logger
		expKeys := make([][]string, nLog)
		for i := range lgs {
			var ks []string
			seen := map[string]bool{}
			add := func(l []string) {
				for _, k := range l {
					if !seen[k] {
						seen[k] = true
						ks = append(ks, k)
					}
				}
			}
			if inherit {
				var chain []int
				for p := lgs[i].parent; p >= 0; p = lgs[p].parent {
					chain = append(chain, p)
				}
				for j := len(chain) - 1; j >= 0; j-- {
					add(lgs[chain[j]].own)
				}
			}
			add(lgs[i].own)
			expKeys[i] = ks
		}
		// before the load: Panic-level calls that really panicked and were recovered by the application (a server with a
		// recover middleware); and some logger of the process was put at Debug level (the process-wide debug mode is on)
		panicsBefore := idx%3 == 2 // by case index: every tier and seed has such runs, with and without the race detector
		if panicsBefore {
			slog.RemoveFlags(slog.LnoInterrupt)
			for i := 0; i < 32; i++ {
				if i%nLog == fileLogger {
					continue // (what that logger writes is read back from its file after the load)
				}
				func() {
					defer func() { _ = recover() }()
					lgs[i%nLog].e.Panic("a Panic-level call the application recovers from, before the load", "k", i)
				}()
			}
			c.R.Add("runs_after_32_recovered_panic_level_calls", 1)
		}
		ownDebugLoggers := idx%3 == 1
		if ownDebugLoggers {
			slog.New("debug-before-the-load").SetLevel(slog.DebugLevel)
			defer is.SetDebugMode(false)
			c.R.Add("runs_in_which_goroutines_build_debug_level_loggers_of_their_own", 1)
		}
		log.Reset()
		spyMu := &sync.Mutex{}
		spyM := map[string]map[int]bool{}
		var calls, ctxCalls, discarded, timeOnly int64
		blanks := make([]int64, nLog)
		gotBlanks := make([]int64, nLog)
		var wg sync.WaitGroup
		start := make(chan struct{})
		issued := make([][]string, nLog) // ids issued per logger, per goroutine merged later
		var issuedMu sync.Mutex
		for g := 0; g < G; g++ {
			g := g
			gr := gen.NewR(c.Seed, "C08g", fmt.Sprint(idx), g)
			wg.Add(1)
			go func() {
				defer wg.Done()
				<-start
				mine := make([][]string, nLog)
				for k := 0; k < N; k++ {
					li := gr.Intn(nLog)
					l := lgs[li].e
					id := fmt.Sprintf("g%dk%d", g, k)
					if ownDebugLoggers && k%97 == 5 {
						// a logger of this goroutine's own, at Debug level (the process-wide mode is on already)
						slog.New(fmt.Sprintf("own-%d-%d", g, k)).SetLevel(slog.DebugLevel)
					}
					withCtx := useCtx && gr.Bool()
					ctx, pa, pn := bg, "m-", "n-"
					if withCtx {
						ctx = context.WithValue(context.WithValue(bg, "cid", id), ctxKeyT{"rid"}, id+"-r") //nolint:staticcheck // string keys are what the library documents
						pa, pn = "c-", "d-"
					}
					msg := pa + id
					if multiline {
						msg += "\nl2-" + id
						for x := 0; x < extraLines; x++ {
							msg += fmt.Sprintf("\nl%d-%s", x+3, id)
						}
					}
					lq := lgs[li].quiet
					kept := true // the record is routed to a recording destination
					args := []any{"id", id, "a1", id + "-a1", "n", k, sharedCallGroup, slog.Group("pc", "id", id, "x", k), "err", errShared, "spy", ctxSpy{g, spyMu, spyM}}
					if gr.P(15) {
						args = append(args, "serr", errorsv3.New("stack-carrying error of call %s", id)) // raised here, by this goroutine
					}
					// two attributes of an application type that implements slog.Attr by value and cannot be compared with ==
					// (a func field), under keys that sort next to each other
					args = append(args, c07lazyAttr{"lz1", func() any { return id }}, c07lazyAttr{"lz2", func() any { return id }})
					if gr.P(1) {
						args = append(args, "big", c08big) // (a record of more than 64 KiB: one Write all the same)
					}
					if valuePos && lgs[li].f == FJSON {
						args = append(args, "pay", sharedValueGroup, "lst", sharedValueList)
					}
					// jump above the pooled size hint now and then, from several goroutines at once
					if gr.P(3) {
						for j := 0; j < 150+gr.Intn(200); j++ {
							args = append(args, fmt.Sprintf("x%03d", j), id)
						}
					}
					if lq == 0 && gr.P(4) { // a blank line: exactly one newline byte, formatted on the short path
						if gr.Bool() {
							l.Println()
						} else {
							l.Print("")
						}
						atomic.AddInt64(&blanks[li], 1)
						atomic.AddInt64(&calls, 1)
						continue
					}
					if lgs[li].f != FJSON && marks[li] == "" && gr.P(4) {
						// a call whose only attribute is an instant under the key "time" (it sorts after the logger's own keys
						// unless those start with u-z): a record like any other, and no business of the records after it
						msg = "t-" + id
						if multiline {
							msg += "\nl2-" + id
							for x := 0; x < extraLines; x++ {
								msg += fmt.Sprintf("\nl%d-%s", x+3, id)
							}
						}
						l.Info(msg, "time", c08instant)
						if lq != 1 {
							mine[li] = append(mine[li], id)
						} else {
							atomic.AddInt64(&discarded, 1)
						}
						atomic.AddInt64(&calls, 1)
						atomic.AddInt64(&timeOnly, 1)
						continue
					}
					if gr.P(20) { // a call without arguments of its own: only the logger's attributes are printed
						msg = pn + id
						if multiline {
							msg += "\nl2-" + id
							for x := 0; x < extraLines; x++ {
								msg += fmt.Sprintf("\nl%d-%s", x+3, id)
							}
						}
						switch {
						case !withCtx && gr.P(40):
							l.Info(msg)
							kept = lq != 1
						case !withCtx && gr.P(50):
							// a printf-style verb (the message is the formatted text)
							_ = l.Warnf("%s%s", msg[:2], msg[2:])
						default:
							l.WarnContext(ctx, msg)
						}
						if kept {
							mine[li] = append(mine[li], id)
						} else {
							atomic.AddInt64(&discarded, 1)
						}
						atomic.AddInt64(&calls, 1)
						continue
					}
					x := gr.Intn(4)
					if withCtx && x < 2 {
						x += 2
					}
					switch x {
					case 0:
						l.Info(msg, args...)
						kept = lq != 1
					case 1:
						l.Warn(msg, args...)
					case 2:
						if !withCtx && useCtx && k%3 == 0 {
							l.InfoContext(nil, msg, args...) //nolint:staticcheck // a nil context is a context without values (the loggers have context keys)
						} else {
							l.InfoContext(ctx, msg, args...)
						}
						kept = lq != 1
					default:
						lv := slog.ErrorLevel
						if lq == 0 && gr.P(40) {
							lv = freshLevels[gr.Intn(len(freshLevels))]
						}
						l.LogAttrs(ctx, lv, msg, args...)
					}
					if withCtx {
						atomic.AddInt64(&ctxCalls, 1)
					}
					if !kept {
						atomic.AddInt64(&discarded, 1)
						atomic.AddInt64(&calls, 1)
						continue
					}
					mine[li] = append(mine[li], id)
					atomic.AddInt64(&calls, 1)
				}
				issuedMu.Lock()
				for i := range mine {
					issued[i] = append(issued[i], mine[i]...)
				}
				issuedMu.Unlock()
			}()
		}
		close(start)
		wg.Wait()

		evs := log.Events()
		if fileLogger >= 0 {
			// what the file holds, line by line, as if each line had been one Write to that logger's destination
			b, _ := os.ReadFile(filePath)
			lines := bytes.SplitAfter(b, []byte("\n"))
			for _, ln := range lines {
				if len(ln) > 0 {
					evs = append(evs, mon.Event{W: lgs[fileLogger].wid, Kind: mon.EvWrite, Data: ln})
				}
			}
			c.R.Add("records_read_back_from_a_NewFileWriter_file", int64(len(lines)))
		}
		desc := map[string]any{"file_writer_logger": fileLogger, "goroutines": G, "calls_per_goroutine": N, "gomaxprocs": procs, "loggers": nLog, "inherit": inherit, "writer_delay_us": delay, "yield": yield, "multiline": multiline, "message_lines": map[bool]int{false: 1, true: 2 + extraLines}[multiline], "context_keys": useCtx, "shared_values_in_value_position": valuePos,
			"formats": func() []string {
				var s []string
				for _, l := range lgs {
					s = append(s, l.f.String())
				}
				return s
			}()}
		c.R.Add("calls", calls)
		c.R.Add("calls_routed_to_io_Discard", discarded)
		c.R.Add("calls_whose_only_attribute_is_an_instant_called_time", timeOnly)
		c.R.Add("calls_carrying_their_id_in_the_context", ctxCalls)
		c.R.Add("write_events", int64(len(evs)))
		c.R.Max("max_writes_in_flight", int64(log.MaxIn))
		// distinct formatting contexts and how many served several goroutines
		sharedCtx := 0
		for _, gs := range spyM {
			if len(gs) > 1 {
				sharedCtx++
			}
		}
		c.R.Add("print_contexts_seen", int64(len(spyM)))
		c.R.Add("print_contexts_used_by_several_goroutines", int64(sharedCtx))
		// per payload: one complete record of exactly one call
		widToLogger := map[string]int{}
		for i, l := range lgs {
			widToLogger[l.wid] = i
		}
		delivered := make([]map[string]int, nLog)
		for i := range delivered {
			delivered[i] = map[string]int{}
		}
		switches, lastG := 0, ""
		bad := 0
		for _, e := range evs {
			if e.Kind != mon.EvWrite {
				continue
			}
			li := widToLogger[e.W]
			if string(e.Data) == "\n" {
				gotBlanks[li]++
				continue
			}
			id, why := c08judge(lgs[li].f, e.Data, expKeys[li], multiline, extraLines, valuePos)
			if why == "" && marks[li] != "" {
				if d, err := decodeRecord(lgs[li].f, e.Data, true, false); err == nil && !strings.HasPrefix(d.Time, marks[li]) {
					why = fmt.Sprintf("the timestamp %q does not start with %q, the literal prefix of this logger's own layout", d.Time, marks[li])
				}
			}
			if why != "" {
				bad++
				c.R.Violation(idx, "torn-or-corrupt", "C08/record/"+lgs[li].f.String(), fmt.Sprintf("payload at %s is not the complete record of exactly one call: %s\npayload: %s", e.W, why, q(clip(string(e.Data), 1500))), desc)
				if bad > 3 {
					break
				}
				continue
			}
			delivered[li][id]++
			if g := id[:strings.Index(id, "k")]; g != lastG {
				switches++
				lastG = g
			}
		}
		c.R.Add("goroutine_switches_in_arrival_order", int64(switches))
		if bad == 0 {
			for i := range lgs {
				if gotBlanks[i] != blanks[i] {
					c.R.Violation(idx, "loss-or-duplication", "C08/multiset/blank-lines", fmt.Sprintf("logger L%d: %d blank lines issued, %d delivered", i, blanks[i], gotBlanks[i]), desc)
					bad++
					break
				}
				want := map[string]int{}
				for _, id := range issued[i] {
					want[id]++
				}
				for id, n := range want {
					if delivered[i][id] != n {
						c.R.Violation(idx, "loss-or-duplication", "C08/multiset/"+lgs[i].f.String(), fmt.Sprintf("logger L%d: call %s was issued %d time(s) and delivered %d time(s)", i, id, n, delivered[i][id]), desc)
						bad++
						break
					}
				}
				for id, n := range delivered[i] {
					if want[id] != n && bad == 0 {
						c.R.Violation(idx, "loss-or-duplication", "C08/multiset/"+lgs[i].f.String(), fmt.Sprintf("logger L%d: record %s delivered %d time(s), issued %d", i, id, n, want[id]), desc)
						bad++
						break
					}
				}
			}
		}
		if bad == 0 {
			c.R.Add("records_decoded", int64(len(evs)))
			c.R.NonTrivial(fmt.Sprint(desc), idx, c.X("race", ""))
			c.R.Distinct("interleaving_signatures", fmt.Sprintf("G%d/P%d/sw%d/inflight%d", G, procs, switches/50, log.MaxIn))
			if c.R.WantSample() {
				desc["observed"] = map[string]any{"write_events": len(evs), "max_in_flight": log.MaxIn, "goroutine_switches": switches, "contexts": len(spyM), "contexts_shared_over_time": sharedCtx}
				c.R.Sample(idx, desc, nil)
			}
		}
	})
}

// c08judge decodes a payload and checks that it is the complete record of one call.
func c08judge(f Format, p []byte, ownKeys []string, multiline bool, extraLines int, valuePos bool) (id string, why string) {
	d, err := decodeRecord(f, p, true, false)
	if err != nil {
		return "", "does not decode: " + err.Error()
	}
	m := d.Msg
	timeOnly := strings.HasPrefix(m, "t-g")
	noArgs := strings.HasPrefix(m, "n-g") || strings.HasPrefix(m, "d-g") || timeOnly
	if timeOnly {
		ownKeys = append(append([]string(nil), ownKeys...), "time")
	}
	withCtx := strings.HasPrefix(m, "c-g") || strings.HasPrefix(m, "d-g")
	if !strings.HasPrefix(m, "m-g") && !strings.HasPrefix(m, "c-g") && !noArgs {
		return "", "message does not start with m-<id> / n-<id> / c-<id> / d-<id>: " + q(clip(m, 80))
	}
	end := 2
	for end < len(m) && (m[end] == 'g' || m[end] == 'k' || (m[end] >= '0' && m[end] <= '9')) {
		end++
	}
	id = m[2:end]
	if multiline && !strings.Contains(m, "l2-"+id) {
		return id, "second message line does not carry the same id: " + q(clip(m, 120))
	}
	for x := 0; multiline && x < extraLines; x++ {
		if strings.Count(m, fmt.Sprintf("l%d-%s", x+3, id)) != 1 {
			return id, fmt.Sprintf("message line %d of the call is missing or repeated: %s", x+3, q(clip(m, 200)))
		}
	}
	if strings.Contains(m, fmt.Sprintf("l%d-", 3+extraLines)) || (!multiline && strings.Contains(m, "l2-")) {
		return id, "the message carries a line the call did not have: " + q(clip(m, 200))
	}
	got := map[string]string{}
	for _, a := range d.Attrs {
		if _, dup := got[a.Key]; dup {
			return id, "attribute " + a.Key + " appears twice"
		}
		got[a.Key] = a.Text
	}
	// context values: present exactly when the call carried them, and then this call's own
	if withCtx {
		if got["cid"] != id || got["rid"] != id+"-r" {
			return id, fmt.Sprintf("context attributes cid=%q rid=%q, this call carried %q and %q", got["cid"], got["rid"], id, id+"-r")
		}
		ownKeys = append(append([]string(nil), ownKeys...), "cid", "rid")
	} else if _, ok := got["cid"]; ok {
		return id, fmt.Sprintf("context attribute cid=%q in the record of a call whose context carried none", got["cid"])
	} else if _, ok := got["rid"]; ok {
		return id, fmt.Sprintf("context attribute rid=%q in the record of a call whose context carried none", got["rid"])
	}
	if noArgs {
		// exactly the logger's attributes, each once, with the duplicate resolved to its last value
		for _, k := range ownKeys {
			if _, ok := got[k]; !ok {
				return id, fmt.Sprintf("logger attribute %s missing (attributes: %v)", k, briefAttrs(d.Attrs))
			}
		}
		if v, ok := got["zeta"]; ok && v != "9" {
			return id, fmt.Sprintf("logger attribute zeta=%s, the later duplicate (9) must win", v)
		}
		if len(got) != len(uniqStrings(ownKeys)) {
			return id, fmt.Sprintf("record of a call without arguments carries %d attributes, the logger chain has %d: %v", len(got), len(uniqStrings(ownKeys)), briefAttrs(d.Attrs))
		}
		return id, ""
	}
	want := map[string]string{"lz1": id, "lz2": id, "id": id, "a1": id + "-a1", "pc.id": id, "sg.a": "A", "sg.m": "M", "sg.z": "Z", "sg.q.b": "1", "sg.q.y": "2", "spy": "7"}
	if valuePos && f == FJSON {
		for k, v := range map[string]string{"pay.vg.aa": "2", "pay.vg.mm": "3", "pay.vg.zz": "1", "lst.la": "2", "lst.lm": "3", "lst.lz": "1"} {
			want[k] = v
		}
	}
	for k, v := range want {
		if got[k] != v {
			return id, fmt.Sprintf("attribute %s=%q, expected %q (attributes: %v)", k, got[k], v, briefAttrs(d.Attrs))
		}
	}
	if _, ok := got["n"]; !ok {
		return id, "attribute n missing"
	}
	if "g"+strings.SplitN(id, "k", 2)[0][1:]+"k"+got["n"] != id || got["pc.x"] != got["n"] {
		return id, fmt.Sprintf("numeric attributes n=%s pc.x=%s do not belong to call %s", got["n"], got["pc.x"], id)
	}
	if _, ok := got["err"]; !ok {
		if _, ok2 := got["err.message"]; !ok2 {
			return id, "shared error attribute missing"
		}
	}
	for _, k := range ownKeys {
		if _, ok := got[k]; !ok {
			return id, fmt.Sprintf("logger attribute %s missing (attributes: %v)", k, briefAttrs(d.Attrs))
		}
	}
	if v, ok := got["zeta"]; ok && v != "9" {
		return id, fmt.Sprintf("logger attribute zeta=%s, the later duplicate (9) must win", v)
	}
	// nothing foreign: every x### attribute carries this id
	n := 0
	for k, v := range got {
		if strings.HasPrefix(k, "x") && len(k) == 4 {
			if v != id {
				return id, fmt.Sprintf("attribute %s carries %q, a different call's id", k, v)
			}
			n++
			continue
		}
	}
	known := len(want) + 3 + n // n, pc.x, err(.message)
	extra := len(got) - known
	allowed := map[string]bool{}
	for _, k := range ownKeys {
		allowed[k] = true
	}
	for k := range got {
		if _, ok := want[k]; ok || k == "n" || k == "pc.x" || k == "err" || k == "err.message" || k == "serr" || strings.HasPrefix(k, "serr.") || k == "big" || allowed[k] || (strings.HasPrefix(k, "x") && len(k) == 4) {
			continue
		}
		return id, fmt.Sprintf("unexpected attribute %s=%q", k, got[k])
	}
	_ = extra
	return id, ""
}

func uniqStrings(l []string) []string {
	seen := map[string]bool{}
	var out []string
	for _, x := range l {
		if !seen[x] {
			seen[x] = true
			out = append(out, x)
		}
	}
	return out
}

func briefAttrs(as []flatKV) string {
	var s []string
	for i, a := range as {
		if i > 30 {
			s = append(s, "…")
			break
		}
		s = append(s, a.Key+"="+clip(a.Text, 20))
	}
	sort.Strings(s)
	return strings.Join(s, " ")
}
