package main

import (
	"bytes"
	"errors"
	"fmt"
	"io"
	"math"
	"strings"

	"github.com/hedzr/logg/slog"

	"verifharness/gen"
)

func init() { reg("C19", "diff", c19diff) }

// bufAPI is the interface both implementations offer (the 20 operations of the property).
type bufAPI interface {
	Write(p []byte) (int, error)
	WriteString(s string) (int, error)
	WriteByte(c byte) error
	WriteRune(r rune) (int, error)
	Read(p []byte) (int, error)
	ReadByte() (byte, error)
	ReadRune() (rune, int, error)
	UnreadByte() error
	UnreadRune() error
	Next(n int) []byte
	ReadBytes(delim byte) ([]byte, error)
	ReadString(delim byte) (string, error)
	ReadFrom(r io.Reader) (int64, error)
	WriteTo(w io.Writer) (int64, error)
	Truncate(n int)
	Grow(n int)
	Reset()
	Len() int
	Bytes() []byte
	String() string
}

var _ bufAPI = (*bytes.Buffer)(nil)
var _ bufAPI = (*slog.PrintCtx)(nil)

// c19upperReader overrides Read of the reader it embeds (which has a WriteTo of its own).
type c19upperReader struct {
	*strings.Reader
	max int
}

func (u *c19upperReader) Read(p []byte) (int, error) {
	if len(p) > u.max {
		p = p[:u.max]
	}
	n, err := u.Reader.Read(p)
	copy(p[:n], bytes.ToUpper(p[:n]))
	return n, err
}

type scriptReader struct {
	steps []int // >0: return that many bytes; 0: (0,nil); -1: negative count; -2: error; -3: EOF with data; -4: data with a non-EOF error
	i     int
	fill  byte
}

var errScript = errors.New("scripted reader error")

// eofLike answers errors.Is(err, io.EOF) without being io.EOF.
type eofLike struct{}

func (eofLike) Error() string        { return "stream closed by peer" }
func (eofLike) Is(target error) bool { return target == io.EOF }

func (r *scriptReader) Read(p []byte) (int, error) {
	if r.i >= len(r.steps) {
		return 0, io.EOF
	}
	s := r.steps[r.i]
	r.i++
	switch {
	case s > 0:
		n := s
		if n > len(p) {
			n = len(p)
		}
		for j := 0; j < n; j++ {
			p[j] = r.fill + byte(j)
		}
		return n, nil
	case s == 0:
		return 0, nil
	case s == -1:
		return -1, nil
	case s == -2:
		return 0, errScript
	case s <= -5: // errors that merely WRAP or RESEMBLE io.EOF are ordinary errors (bytes.Buffer compares with ==)
		n := 4
		if n > len(p) {
			n = len(p)
		}
		for j := 0; j < n; j++ {
			p[j] = 'w'
		}
		if s%2 == 0 {
			n = 0
		}
		return n, []error{fmt.Errorf("read body: %w", io.EOF), errors.Join(errScript, io.EOF), eofLike{}, io.ErrUnexpectedEOF}[(-s-5)%4]
	case s == -4: // data together with a non-EOF error, which the io.Reader contract allows
		n := 5
		if n > len(p) {
			n = len(p)
		}
		for j := 0; j < n; j++ {
			p[j] = 'x'
		}
		return n, errScript
	default:
		n := 3
		if n > len(p) {
			n = len(p)
		}
		for j := 0; j < n; j++ {
			p[j] = 'e'
		}
		return n, io.EOF
	}
}

type scriptWriter struct {
	mode int // 0 ok, 1 short write, 2 error, 3 over-report, 4 short with error, 5 negative count, 6 negative count with error, 7 all taken with an error
	got  []byte
}

func (w *scriptWriter) Write(p []byte) (int, error) {
	switch w.mode {
	case 1:
		n := len(p) / 2
		w.got = append(w.got, p[:n]...)
		return n, nil
	case 2:
		return 0, errScript
	case 3:
		w.got = append(w.got, p...)
		return len(p) + 1, nil
	case 4:
		n := len(p) / 3
		w.got = append(w.got, p[:n]...)
		return n, errScript
	case 5: // a broken writer that reports a negative count
		return -2, nil
	case 6: // ... together with an error
		return -1, errScript
	case 7: // a destination that takes every byte and reports an error all the same (a disk that filled up with this write)
		w.got = append(w.got, p...)
		return len(p), errScript
	}
	w.got = append(w.got, p...)
	return len(p), nil
}

func normErr(e any) string {
	if e == nil {
		return "<nil>"
	}
	s := fmt.Sprint(e)
	for _, n := range []string{"logg/slog.PrintCtx", "slog.PrintCtx", "bytes.Buffer", "PrintCtx"} {
		s = strings.ReplaceAll(s, n, "BUF")
	}
	return s
}

type opResult struct {
	vals  string
	err   string
	panic string
}

func runOp(f func() (string, error)) (res opResult) {
	defer func() {
		if e := recover(); e != nil {
			res.panic = normErr(e)
		}
	}()
	v, err := f()
	res.vals = v
	res.err = normErr(err)
	return
}

var c19sizes = []int{0, 1, 2, 3, 7, 8, 63, 64, 65, 127, 128, 129, 511, 512, 513, 1023, 1024, 1025, 4096, 70000}

func c19diff(c *Ctx) {
	c.Each(func(idx int, r *gen.R) {
		// start state
		var pb *bytes.Buffer
		var pc *slog.PrintCtx
		start := r.Intn(4)
		var sdesc string
		switch start {
		case 0:
			pb, pc = new(bytes.Buffer), new(slog.PrintCtx)
			sdesc = "zero value"
		case 1:
			n := gen.Pick(r, c19sizes[:16])
			capn := n + gen.Pick(r, []int{0, 1, 7, 64, 500})
			mk := func() []byte {
				b := make([]byte, n, capn)
				for i := range b {
					b[i] = byte('a' + i%26)
				}
				return b
			}
			pb, pc = bytes.NewBuffer(mk()), slog.NewPrintCtx(mk())
			sdesc = fmt.Sprintf("pre-filled len %d cap %d", n, capn)
		case 2:
			s := strings.Repeat("héllo wörld\n", r.Intn(60))
			pb, pc = bytes.NewBufferString(s), slog.NewPrintCtxString(s)
			sdesc = fmt.Sprintf("from string of %d bytes", len(s))
		default:
			pb, pc = bytes.NewBuffer(nil), slog.NewPrintCtx(nil)
			sdesc = "NewPrintCtx(nil)"
		}
		nops := r.Range(1, 300)
		if r.P(50) {
			nops = r.Range(1, 40)
		}
		var hist []string
		fail := func(clause, feat, detail string) {
			h := hist
			if len(h) > 30 {
				h = append([]string{fmt.Sprintf("…(%d earlier)", len(h)-30)}, h[len(h)-30:]...)
			}
			c.R.Violation(idx, clause, "C19/"+clause+"/"+feat, detail, map[string]any{"start": sdesc, "ops": h})
		}
		size := func() int {
			switch r.Intn(12) {
			case 0:
				return -1
			case 1:
				return -r.Range(2, 1000)
			case 2:
				return pb.Len()
			case 3:
				return pb.Len() + 1
			case 4:
				return pb.Len() - 1
			case 5:
				return pb.Cap() - pb.Len()
			case 6:
				return pb.Cap() - pb.Len() + 1
			case 7:
				if r.P(25) { // sizes at the edge of the integer range (sums with the read offset wrap)
					return gen.Pick(r, []int{math.MaxInt, math.MaxInt - 1, math.MaxInt - pb.Len(), math.MaxInt/2 + 1, math.MinInt, math.MinInt + 1})
				}
			}
			return gen.Pick(r, c19sizes)
		}
		data := func(n int) []byte {
			if n < 0 {
				n = 0
			}
			if n > 70000 {
				n = 70000
			}
			b := make([]byte, n)
			for i := range b {
				b[i] = byte(r.Intn(256))
			}
			if n > 0 && r.Bool() {
				b[r.Intn(n)] = '\n'
			}
			return b
		}
		// results that are COPIES by the API's contract (ReadBytes, ReadString, String, the caller's buffer of Read) are kept
		// and compared again after every later operation: a later write, rewind or reallocation must not change them
		type kept struct {
			op   string
			step int
			b    []byte // the returned slice itself (nil for strings)
			s    string // the returned string itself
			snap string // its contents when it was returned
		}
		var retained []kept
		keep := func(op string, b []byte, str string) {
			e := kept{op: op, step: len(hist), b: b, s: str, snap: string(append([]byte(nil), str...))} // a COPY: a string that aliases the buffer would change together with a snapshot that shares its bytes
			if b != nil {
				e.snap = string(b)
			}
			retained = append(retained, e)
			if len(retained) > 12 {
				retained = retained[len(retained)-12:]
			}
		}
		for k := 0; k < nops; k++ {
			var name string
			var fa, fb func(b bufAPI) (string, error)
			one := func(n string, f func(b bufAPI) (string, error)) { name, fa, fb = n, f, f }
			switch op := r.Intn(22); op {
			case 0:
				d := data(size())
				one(fmt.Sprintf("Write(%d bytes)", len(d)), func(b bufAPI) (string, error) { n, err := b.Write(d); return fmt.Sprint(n), err })
			case 1:
				d := string(data(size()))
				one(fmt.Sprintf("WriteString(%d bytes)", len(d)), func(b bufAPI) (string, error) { n, err := b.WriteString(d); return fmt.Sprint(n), err })
			case 2:
				ch := byte(r.Intn(256))
				one(fmt.Sprintf("WriteByte(%#x)", ch), func(b bufAPI) (string, error) { return "", b.WriteByte(ch) })
			case 3:
				rn := gen.Pick(r, []rune{'a', 0x7f, 0x80, 'é', '日', 0x1f600, 0xfffd, -1, 0x110000, 0xd800, 0})
				one(fmt.Sprintf("WriteRune(%#x)", rn), func(b bufAPI) (string, error) { n, err := b.WriteRune(rn); return fmt.Sprint(n), err })
			case 4:
				n := size()
				if n < 0 {
					n = 0
				}
				if n > 70000 {
					n = 70000
				}
				one(fmt.Sprintf("Read(buf of %d)", n), func(b bufAPI) (string, error) {
					p := make([]byte, n)
					m, err := b.Read(p)
					if m < 0 || m > n {
						return fmt.Sprintf("%d (out of range)", m), err
					}
					if m > 0 {
						keep("Read", p[:m], "")
					}
					return fmt.Sprintf("%d %x", m, clipB(p[:m], 64)), err
				})
			case 5:
				one("ReadByte()", func(b bufAPI) (string, error) { ch, err := b.ReadByte(); return fmt.Sprint(ch), err })
			case 6:
				one("ReadRune()", func(b bufAPI) (string, error) { rn, sz, err := b.ReadRune(); return fmt.Sprint(rn, sz), err })
			case 7:
				one("UnreadByte()", func(b bufAPI) (string, error) { return "", b.UnreadByte() })
			case 8:
				one("UnreadRune()", func(b bufAPI) (string, error) { return "", b.UnreadRune() })
			case 9:
				n := size()
				one(fmt.Sprintf("Next(%d)", n), func(b bufAPI) (string, error) { p := b.Next(n); return fmt.Sprintf("%d %x", len(p), clipB(p, 64)), nil })
			case 10:
				d := gen.Pick(r, []byte{'\n', 'a', 0, 0xff, ' '})
				one(fmt.Sprintf("ReadBytes(%#x)", d), func(b bufAPI) (string, error) {
					p, err := b.ReadBytes(d)
					if len(p) > 0 {
						keep("ReadBytes", p, "")
					}
					return fmt.Sprintf("%d %x", len(p), clipB(p, 64)), err
				})
			case 11:
				d := gen.Pick(r, []byte{'\n', 'a', 0, 0xff, ' '})
				one(fmt.Sprintf("ReadString(%#x)", d), func(b bufAPI) (string, error) {
					s, err := b.ReadString(d)
					if len(s) > 0 {
						keep("ReadString", nil, s)
					}
					return fmt.Sprintf("%d %x", len(s), clipB([]byte(s), 64)), err
				})
			case 12:
				if r.P(20) {
					// a reader that OVERRIDES Read (it passes at most a few bytes per call and upper-cases them) while the
					// reader it embeds also has a WriteTo method: ReadFrom reads through Read
					text := strings.Repeat("abc-xyz ", r.Range(1, 300))
					lim := gen.Pick(r, []int{1, 7, 64, 511, 4096})
					name = fmt.Sprintf("ReadFrom(a reader that overrides Read over an embedded *strings.Reader, %d bytes)", len(text))
					mkf := func() func(b bufAPI) (string, error) {
						rd := &c19upperReader{Reader: strings.NewReader(text), max: lim}
						return func(b bufAPI) (string, error) { n, err := b.ReadFrom(rd); return fmt.Sprint(n), err }
					}
					fa, fb = mkf(), mkf()
					break
				}
				if r.P(15) {
					// the buffer is filled, mostly read, and then handed ITS OWN unread bytes (Write(b.Bytes()), Write(b.Next(k))):
					// whatever that gives, it gives it in both implementations
					S := gen.Pick(r, []int{500, 1000, 1010, 2000, 4000})
					R := gen.Pick(r, []int{30, 100, 200})
					own := r.Intn(2)
					d := data(S)
					if len(d) < S {
						d = append(d, make([]byte, S-len(d))...)
					}
					one(fmt.Sprintf("Write(%d bytes), Read(%d), Write(its own %s)", S, S-R, []string{"Bytes()", "Next(k)"}[own]), func(b bufAPI) (string, error) {
						_, _ = b.Write(d)
						_, _ = b.Read(make([]byte, S-R))
						var p []byte
						if own == 0 {
							p = b.Bytes()
						} else {
							p = b.Next(R / 2)
						}
						n, err := b.Write(p)
						return fmt.Sprintf("%d %x", n, clipB(b.Bytes(), 96)), err
					})
					break
				}
				if r.P(12) {
					// the reader handed to ReadFrom copies what it reads into the SAME buffer (io.TeeReader onto it, a reader
					// that logs through it): a nested Write while ReadFrom's Read is running
					payload := bytes.Repeat([]byte{byte('a' + r.Intn(20))}, gen.Pick(r, []int{1, 3, 200, 511, 512, 600, 1200, 5000}))
					name = fmt.Sprintf("ReadFrom(io.TeeReader(%d bytes, the buffer itself))", len(payload))
					c.R.Add("readfrom_calls_whose_reader_writes_to_the_buffer", 1)
					one(name, func(b bufAPI) (string, error) {
						n, err := b.ReadFrom(io.TeeReader(bytes.NewReader(payload), b))
						return fmt.Sprintf("%d len=%d %x", n, b.Len(), clipB(b.Bytes(), 96)), err
					})
					break
				}
				var steps []int
				for i := r.Intn(5); i >= 0; i-- {
					steps = append(steps, gen.Pick(r, []int{1, 5, 100, 511, 512, 513, 2000, 0, 0, -1, -2, -3, -4, -4, -5, -6, -7, -8, -9, -10, -11, -12}))
				}
				stall := 0
				if r.P(10) {
					// a reader that answers (0, nil) a hundred times or more before it delivers: a buffer keeps reading
					k := gen.Pick(r, []int{99, 100, 101, 250, 1000})
					stall = k
					steps = append(make([]int, k), append([]int{16}, steps...)...)
					c.R.Add("readers_that_stall_100_times_or_more", 1)
				}
				fill := byte(r.Intn(200))
				name = fmt.Sprintf("ReadFrom(reader script %v)", steps)
				if stall > 0 {
					name = fmt.Sprintf("ReadFrom(reader script: %d (0,nil) answers, then %v)", stall, steps[stall:])
				}
				mkf := func() func(b bufAPI) (string, error) {
					rd := &scriptReader{steps: steps, fill: fill}
					return func(b bufAPI) (string, error) { n, err := b.ReadFrom(rd); return fmt.Sprint(n), err }
				}
				fa, fb = mkf(), mkf()
			case 13:
				mode := r.Intn(8)
				name = fmt.Sprintf("WriteTo(writer mode %d)", mode)
				mkf := func() func(b bufAPI) (string, error) {
					wr := &scriptWriter{mode: mode}
					return func(b bufAPI) (string, error) {
						n, err := b.WriteTo(wr)
						return fmt.Sprintf("%d got %d %x", n, len(wr.got), clipB(wr.got, 48)), err
					}
				}
				fa, fb = mkf(), mkf()
			case 14:
				n := size()
				one(fmt.Sprintf("Truncate(%d)", n), func(b bufAPI) (string, error) { b.Truncate(n); return "", nil })
			case 15:
				n := size()
				if r.P(8) {
					n = gen.Pick(r, []int{1 << 62, (1 << 63) - 1, 1<<62 + 12345}) // must panic without allocating
				}
				one(fmt.Sprintf("Grow(%d)", n), func(b bufAPI) (string, error) { b.Grow(n); return "", nil })
			case 16:
				one("Reset()", func(b bufAPI) (string, error) { b.Reset(); return "", nil })
			case 17:
				one("Len()", func(b bufAPI) (string, error) { return fmt.Sprint(b.Len()), nil })
			case 18:
				one("Bytes()", func(b bufAPI) (string, error) { p := b.Bytes(); return fmt.Sprintf("%d %x", len(p), clipB(p, 64)), nil })
			case 19:
				one("String()", func(b bufAPI) (string, error) {
					s := b.String()
					if len(s) > 0 {
						keep("String", nil, s)
					}
					return fmt.Sprintf("%d %x", len(s), clipB([]byte(s), 64)), nil
				})
			default:
				// a small write keeps the buffers from staying empty
				d := []byte("xy\nz")
				one("Write(4 bytes)", func(b bufAPI) (string, error) { n, err := b.Write(d); return fmt.Sprint(n), err })
			}
			hist = append(hist, name)
			ra := runOp(func() (string, error) { return fa(pb) })
			rb := runOp(func() (string, error) { return fb(pc) })
			c.R.Add("ops_executed", 1)
			opn := name
			if i := strings.Index(opn, "("); i > 0 {
				opn = opn[:i]
			}
			c.R.Distinct("operations", opn)
			if ra.panic != "" || rb.panic != "" {
				c.R.Add("ops_that_panicked_in_both", 1)
			}
			if ra != rb {
				feat := "result"
				switch {
				case ra.panic != rb.panic:
					feat = "panic"
				case ra.err != rb.err:
					feat = "error"
				}
				fail("diverges", opn+"/"+feat, fmt.Sprintf("step %d %s: bytes.Buffer -> %+v ; PrintCtx -> %+v", k, name, ra, rb))
				return
			}
			// the state both are left in (a broken writer may leave a buffer in a state in which even String() panics:
			// then both panic alike)
			sa := runOp(func() (string, error) { return fmt.Sprintf("%d %s", pb.Len(), pb.String()), nil })
			sb := runOp(func() (string, error) { return fmt.Sprintf("%d %s", pc.Len(), pc.String()), nil })
			if sa != sb {
				fail("state", opn, fmt.Sprintf("after step %d %s: bytes.Buffer is left as %+v, PrintCtx as %+v", k, name, clip(fmt.Sprintf("%+v", sa), 300), clip(fmt.Sprintf("%+v", sb), 300)))
				return
			}
			if sa.panic != "" {
				c.R.Add("cases_ended_in_a_state_both_buffers_panic_in", 1)
				break
			}
			for _, e := range retained {
				now := e.s
				if e.b != nil {
					now = string(e.b)
				}
				c.R.Add("retained_results_rechecked", 1)
				if now != e.snap {
					fail("retained-result", e.op, fmt.Sprintf("the %d bytes returned by %s at step %d have changed after step %d %s (a result the caller owns aliases the buffer): was %x, is %x", len(e.snap), e.op, e.step, k, name, clipB([]byte(e.snap), 48), clipB([]byte(now), 48)))
					return
				}
			}
		}
		c.R.NonTrivial(sdesc, strings.Join(hist, ";"))
		if c.R.WantSample() && len(hist) > 5 && len(hist) < 25 {
			c.R.Sample(idx, map[string]any{"start": sdesc, "ops": hist}, map[string]any{"final_len": pb.Len()})
		}
	})
}
