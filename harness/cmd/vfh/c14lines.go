// NOTE: do NOT run gofmt on this file: the //line directives must stay directly above the one-line call sites.
package main

import (
	"context"
	stdlog "log"
	stdslog "log/slog"

	"github.com/hedzr/logg/slog"
)

// Call sites whose LINE NUMBERS are chosen (through //line directives): 1, the digit-count boundaries 9|10, 99|100, ...,
// and the 16-bit boundary. The virtual file name is relative, so the compiler resolves it against this directory.

//line c14virtual.go:1
func c14siteAtLine1(l slog.Logger) []site { s := here(); l.Info(cm, "a", 1); return s }

//line c14virtual.go:9
func c14siteAtLine9(l slog.Logger) []site { s := here(); l.Info(cm, "a", 1); return s }

//line c14virtual.go:10
func c14siteAtLine10(l slog.Logger) []site { s := here(); l.Info(cm, "a", 1); return s }

//line c14virtual.go:11
func c14siteAtLine11(l slog.Logger) []site { s := here(); l.Info(cm, "a", 1); return s }

//line c14virtual.go:99
func c14siteAtLine99(l slog.Logger) []site { s := here(); l.Info(cm, "a", 1); return s }

//line c14virtual.go:100
func c14siteAtLine100(l slog.Logger) []site { s := here(); l.Info(cm, "a", 1); return s }

//line c14virtual.go:101
func c14siteAtLine101(l slog.Logger) []site { s := here(); l.Info(cm, "a", 1); return s }

//line c14virtual.go:999
func c14siteAtLine999(l slog.Logger) []site { s := here(); l.Info(cm, "a", 1); return s }

//line c14virtual.go:1000
func c14siteAtLine1000(l slog.Logger) []site { s := here(); l.Info(cm, "a", 1); return s }

//line c14virtual.go:1001
func c14siteAtLine1001(l slog.Logger) []site { s := here(); l.Info(cm, "a", 1); return s }

//line c14virtual.go:9999
func c14siteAtLine9999(l slog.Logger) []site { s := here(); l.Info(cm, "a", 1); return s }

//line c14virtual.go:10000
func c14siteAtLine10000(l slog.Logger) []site { s := here(); l.Info(cm, "a", 1); return s }

//line c14virtual.go:65535
func c14siteAtLine65535(l slog.Logger) []site { s := here(); l.Info(cm, "a", 1); return s }

//line c14virtual.go:65536
func c14siteAtLine65536(l slog.Logger) []site { s := here(); l.Info(cm, "a", 1); return s }

//line c14virtual.go:99999
func c14siteAtLine99999(l slog.Logger) []site { s := here(); l.Info(cm, "a", 1); return s }

//line c14virtual.go:100000
func c14siteAtLine100000(l slog.Logger) []site { s := here(); l.Info(cm, "a", 1); return s }

//line c14virtual.go:1000000
func c14siteAtLine1000000(l slog.Logger) []site { s := here(); l.Info(cm, "a", 1); return s }

// Call sites whose FILE NAMES need escaping wherever a record quotes them: a quotation mark, backslashes (a Windows
// build path), letters outside ASCII.

//line c14"quoted"virtual.go:7
func c14siteQuotedFile(l slog.Logger) []site { s := here(); l.Info(cm, "a", 1); return s }

//line C:\work\app\c14node.go:42
func c14siteBackslashFile(l slog.Logger) []site { s := here(); l.Info(cm, "a", 1); return s }

//line c14-ünï-файл.go:9
func c14siteTabFile(l slog.Logger) []site { s := here(); l.Info(cm, "a", 1); return s }

//line c14lines.go:79
func c14lineEntries() []c14entry {
	return []c14entry{
		{"Info at line 1", "native", func(l slog.Logger, _ *stdslog.Logger, _ *stdlog.Logger, c context.Context) []site { return c14siteAtLine1(l) }, 0},
		{"Info at line 9", "native", func(l slog.Logger, _ *stdslog.Logger, _ *stdlog.Logger, c context.Context) []site { return c14siteAtLine9(l) }, 0},
		{"Info at line 10", "native", func(l slog.Logger, _ *stdslog.Logger, _ *stdlog.Logger, c context.Context) []site { return c14siteAtLine10(l) }, 0},
		{"Info at line 11", "native", func(l slog.Logger, _ *stdslog.Logger, _ *stdlog.Logger, c context.Context) []site { return c14siteAtLine11(l) }, 0},
		{"Info at line 99", "native", func(l slog.Logger, _ *stdslog.Logger, _ *stdlog.Logger, c context.Context) []site { return c14siteAtLine99(l) }, 0},
		{"Info at line 100", "native", func(l slog.Logger, _ *stdslog.Logger, _ *stdlog.Logger, c context.Context) []site { return c14siteAtLine100(l) }, 0},
		{"Info at line 101", "native", func(l slog.Logger, _ *stdslog.Logger, _ *stdlog.Logger, c context.Context) []site { return c14siteAtLine101(l) }, 0},
		{"Info at line 999", "native", func(l slog.Logger, _ *stdslog.Logger, _ *stdlog.Logger, c context.Context) []site { return c14siteAtLine999(l) }, 0},
		{"Info at line 1000", "native", func(l slog.Logger, _ *stdslog.Logger, _ *stdlog.Logger, c context.Context) []site { return c14siteAtLine1000(l) }, 0},
		{"Info at line 1001", "native", func(l slog.Logger, _ *stdslog.Logger, _ *stdlog.Logger, c context.Context) []site { return c14siteAtLine1001(l) }, 0},
		{"Info at line 9999", "native", func(l slog.Logger, _ *stdslog.Logger, _ *stdlog.Logger, c context.Context) []site { return c14siteAtLine9999(l) }, 0},
		{"Info at line 10000", "native", func(l slog.Logger, _ *stdslog.Logger, _ *stdlog.Logger, c context.Context) []site { return c14siteAtLine10000(l) }, 0},
		{"Info at line 65535", "native", func(l slog.Logger, _ *stdslog.Logger, _ *stdlog.Logger, c context.Context) []site { return c14siteAtLine65535(l) }, 0},
		{"Info at line 65536", "native", func(l slog.Logger, _ *stdslog.Logger, _ *stdlog.Logger, c context.Context) []site { return c14siteAtLine65536(l) }, 0},
		{"Info at line 99999", "native", func(l slog.Logger, _ *stdslog.Logger, _ *stdlog.Logger, c context.Context) []site { return c14siteAtLine99999(l) }, 0},
		{"Info at line 100000", "native", func(l slog.Logger, _ *stdslog.Logger, _ *stdlog.Logger, c context.Context) []site { return c14siteAtLine100000(l) }, 0},
		{"Info at line 1000000", "native", func(l slog.Logger, _ *stdslog.Logger, _ *stdlog.Logger, c context.Context) []site { return c14siteAtLine1000000(l) }, 0},
		{"Info in a file whose name holds quotation marks", "native", func(l slog.Logger, _ *stdslog.Logger, _ *stdlog.Logger, c context.Context) []site { return c14siteQuotedFile(l) }, 0},
		{"Info in a file whose name holds backslashes", "native", func(l slog.Logger, _ *stdslog.Logger, _ *stdlog.Logger, c context.Context) []site { return c14siteBackslashFile(l) }, 0},
		{"Info in a file whose name holds letters outside ASCII", "native", func(l slog.Logger, _ *stdslog.Logger, _ *stdlog.Logger, c context.Context) []site { return c14siteTabFile(l) }, 0},
		{"Info with an attribute named caller", "native", func(l slog.Logger, _ *stdslog.Logger, _ *stdlog.Logger, c context.Context) []site { s := here(); l.Info(cm, "caller", "the-value-of-an-attribute", "a", 1); return s }, 0},
	}
}

//go:noinline
func c14concSite0(l *slog.Entry, id string) { l.Info(id, "site", 0) }

//go:noinline
func c14concSite1(l *slog.Entry, id string) { l.Info(id, "site", 1) }

//go:noinline
func c14concSite2(l *slog.Entry, id string) { l.Info(id, "site", 2) }

//go:noinline
func c14concSite3(l *slog.Entry, id string) { l.Info(id, "site", 3) }

//go:noinline
func c14concSite4(l *slog.Entry, id string) { l.Info(id, "site", 4) }

//go:noinline
func c14concSite5(l *slog.Entry, id string) { l.Info(id, "site", 5) }

//go:noinline
func c14concSite6(l *slog.Entry, id string) { l.Info(id, "site", 6) }

//go:noinline
func c14concSite7(l *slog.Entry, id string) { l.Info(id, "site", 7) }

var c14concSites = []func(l *slog.Entry, id string){c14concSite0, c14concSite1, c14concSite2, c14concSite3, c14concSite4, c14concSite5, c14concSite6, c14concSite7}
