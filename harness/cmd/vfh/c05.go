package main

import (
	"bytes"
	"fmt"
	"os"
	"path/filepath"
	"runtime"
	"strings"
	"time"

	"github.com/hedzr/is"
	"github.com/hedzr/logg/slog"

	"verifharness/gen"
	"verifharness/match"
	"verifharness/mon"
	"verifharness/oracle"
)

func init() { reg("C05", "main", c05main) }

type recCase struct {
	name   string
	msg    string
	lvl    slog.Level
	caller bool
	kvs    []gen.KV
}

func (cs recCase) desc(f Format) map[string]any {
	return describe(f, cs.name, cs.msg, cs.lvl, cs.caller, cs.kvs)
}

// genTextCase generates a record for the text formats: legal logfmt keys, unique,
// with random leading letters so that groups land first / in the middle / last in key order.
func genTextCase(r *gen.R, so gen.StrOpt, o gen.Options) recCase {
	var c recCase
	switch r.Intn(5) {
	case 0, 1:
		c.name = ""
	case 2, 3:
		c.name = gen.Pick(r, []string{"app", "svc.db", "worker-1"})
	default:
		c.name = "n" + r.Str(so)
	}
	c.msg = r.Str(so)
	c.lvl = gen.Pick(r, nonTerminating)
	if len(hostileTitleLevels) > 0 && r.P(8) {
		c.lvl = gen.Pick(r, hostileTitleLevels)
	}
	if useUnregisteredLevels && r.P(5) {
		c.lvl = gen.Pick(r, unregisteredLevels)
	}
	if c.lvl == slog.AlwaysLevel && strings.Trim(c.msg, "\n\r \t") == "" {
		c.lvl = slog.InfoLevel
	}
	c.caller = r.P(30)
	n := r.Intn(8)
	if r.P(12) {
		n = r.Range(8, 24)
	}
	for i := 0; i < n; i++ {
		lead := string(rune('a' + r.Intn(26)))
		key := lead + r.LogfmtKey(fmt.Sprintf("k%d~", i))
		if r.P(6) {
			key += gen.Pick(r, []string{".time", ".level", ".msg", ".caller", ".logger", "time", ".error"}) // names of the envelope as suffixes: still ordinary keys
		}
		if i > 0 && r.P(5) {
			// two attributes of one record whose keys differ in letter case only (ID / id): two attributes
			if up := strings.ToUpper(c.kvs[i-1].Key); up != c.kvs[i-1].Key {
				key = up
			}
		}
		var v gen.V
		if r.P(25) && !o.NoGroups {
			v = r.Group(o, 1)
			renameGroupKeys(r, &v, key)
		} else {
			v = r.Value(o, 0)
			renameGroupKeys(r, &v, key)
		}
		c.kvs = append(c.kvs, gen.KV{Key: key, Val: v})
	}
	return c
}

var gkCounter int

// renameGroupKeys gives group members legal, unique logfmt keys.
func renameGroupKeys(r *gen.R, v *gen.V, path ...string) {
	if v.Kind != "group" {
		return
	}
	for i := range v.Items {
		gkCounter++
		v.Items[i].Key = string(rune('a'+r.Intn(26))) + r.LogfmtKey(fmt.Sprintf("m%d~", gkCounter))
		if len(path) > 0 && r.P(7) {
			// a member whose OWN key starts with the dotted path of its group (http.method inside the group http): it is
			// a member like any other and is qualified like any other
			v.Items[i].Key = strings.Join(path, ".") + "." + v.Items[i].Key
		}
		if i > 0 && r.P(6) {
			// two members of one group whose keys differ in letter case only: two attributes
			if up := strings.ToUpper(v.Items[i-1].Key); up != v.Items[i-1].Key {
				v.Items[i].Key = up
			}
		}
		if r.P(5) {
			v.Items[i].Key = gen.Pick(r, []string{"time", "level", "msg", "error"}) + fmt.Sprint(gkCounter) // group members named like the envelope (unique)
			if gkCounter%3 == 0 && i == 0 {
				v.Items[i].Key = gen.Pick(r, []string{"time", "level", "msg"}) // at most one member per group carries the bare name
			}
		}
		renameGroupKeys(r, &v.Items[i].Val, append(append([]string(nil), path...), v.Items[i].Key)...)
	}
}

// useUnregisteredLevels: C05 judges the level name of unregistered severities structurally (see levelNameProblem)
var useUnregisteredLevels bool

// c05stalledW takes half of what it is handed and reports a deadline that expired.
type c05stalledW struct{}

func (c05stalledW) Write(p []byte) (int, error) { return len(p) / 2, os.ErrDeadlineExceeded }

func c05main(c *Ctx) {
	useUnregisteredLevels = true
	registerHostileTitles()
	c.R.Max("levels_registered_under_titles_that_need_escaping", int64(len(hostileTitleLevels)))
	log := mon.NewLog()
	w := mon.New(log, "W", mon.ShapePlain)
	so := gen.StrOpt{HostilePc: 45, Long: true}
	o := gen.Options{Str: so, MaxDepth: 3}
	c.Each(func(idx int, r *gen.R) {
		cs := genTextCase(r, so, o)
		restore := withFlags(0, 0)
		defer restore()
		if cs.caller {
			slog.AddFlags(slog.Lcaller)
		} else {
			slog.RemoveFlags(slog.Lcaller)
		}
		otherFlags := randomOtherFlags(r)
		// 0,1: none; 2: the same logger first logs in JSON; 3: in colored mode, then is switched to logfmt; 4: it has logged in
		// logfmt before; 5: the record before this one (another logger) died in a value that panics while being formatted
		warm := r.Intn(6)
		// some logger of the process is (or was) at Debug level: setting that level switches the process-wide debug mode
		// on (a documented side effect); the process is a production process all the same
		if r.P(10) {
			dbg := slog.New("dbg")
			dbg.SetLevel(slog.DebugLevel)
			c.R.Add("records_after_some_logger_was_set_to_debug_level", 1)
			defer is.SetDebugMode(false)
		}
		tsLayout := "" // the logger's own timestamp layout concerns the time= pair only, never a time-valued attribute
		if r.P(25) {
			tsLayout = gen.Pick(r, []string{time.RFC1123, time.Kitchen, "2006-01-02", time.RFC3339, "15:04:05.000", time.RFC850, "Jan _2 15:04"})
			c.R.Add("records_with_a_logger_timestamp_layout", 1)
		}
		// the caller's file name may need escaping: the application mapped the directory of this program to a short form
		// that holds a backslash, a quote or letters outside ASCII (a Windows-style alias, a project nickname)
		if cs.caller && r.P(12) {
			_, thisFile, _, _ := runtime.Caller(0)
			dir := filepath.Dir(thisFile)
			slog.AddFlags(slog.Lprivacypath)
			slog.AddKnownPathMapping(dir, gen.Pick(r, []string{`D:\work\svc`, `~"proj"`, "~pr\u00f6j\u00e9", `C:\new\table`}))
			defer slog.RemoveKnownPathMapping(dir)
			c.R.Add("records_whose_caller_path_needs_escaping", 1)
		}
		// a second destination IN FRONT of the recording one that is cut short by a deadline (half of the payload and an
		// error that says Timeout): the recording destination holds the one whole line all the same
		stalled := idx%9 == 4
		run := func(cs recCase) ([]byte, []tv) {
			lg := newRoot(cs.name, FLogfmt, w, slog.AlwaysLevel)
			if stalled {
				lg.SetWriter(c05stalledW{}).AddWriter(w)
				lg.SetErrorWriter(c05stalledW{}).AddErrorWriter(w)
			}
			if tsLayout != "" {
				lg.SetTimeFormat(tsLayout)
			}
			switch warm {
			case 2:
				lg.SetJSONMode(true)
				lg.Info("warm-up record in another format")
				lg.SetJSONMode(false)
			case 3:
				lg.SetColorMode(true)
				lg.Info("warm-up record in another format\nsecond line")
				lg.SetColorMode(false)
			case 4:
				lg.Info("warm-up record in logfmt", "w", 1, slog.Group("wg", "x", 1))
			case 5:
				doomedRecord(FLogfmt, w)
			}
			evs := capture(log, func() { lg.LogAttrs(bg, cs.lvl, cs.msg, mixedArgs(cs.kvs)...) })
			if stalled {
				// (the library's report about the stalled destination is a record of its own: C13 and C04 judge it)
				var own []mon.Event
				for _, e := range evs {
					if e.Kind == mon.EvWrite && bytes.Contains(e.Data, []byte(diagText)) && len(own) > 0 {
						continue
					}
					own = append(own, e)
				}
				evs = own
				c.R.Add("records_with_a_stalled_destination_in_front", 1)
			}
			c.R.Add("write_events", int64(len(evs)))
			if len(evs) != 1 || evs[0].Kind != mon.EvWrite {
				return nil, []tv{{"one-write", "count", fmt.Sprintf("expected exactly one Write, saw %s", fmtEvents(evs))}}
			}
			return evs[0].Data, c05check(evs[0].Data, cs)
		}
		desc := cs.desc(FLogfmt)
		desc["logger_time_layout"] = tsLayout
		desc["other_flags"], desc["same_logger_logged_before_in"] = otherFlags, []string{"-", "-", "json", "color", "logfmt", "a record that panicked while being formatted (recovered)"}[warm]
		payload, viols := run(cs)
		if len(viols) == 0 {
			c.R.Add("records_decoded", 1)
			leaves := match.Flatten("", cs.kvs)
			c.R.Add("pairs_checked", int64(len(leaves)))
			for _, k := range kindsOf(cs.kvs) {
				c.R.Distinct("value_kinds", k)
			}
			c.R.Distinct("group_positions", groupPositions(cs.kvs))
			if len(cs.kvs) > 0 || strClass(cs.msg) != "plain" {
				c.R.NonTrivial(string(payload))
			}
			if c.R.WantSample() && len(cs.kvs) > 1 {
				c.R.Sample(idx, desc, map[string]any{"payload": string(payload)})
			}
			// a parent and a child that bind the SAME key (the child: one of this case's values, possibly a group), with
			// the inherit flag on: the child's record shows the key once, with the child's value; the parent's records -
			// before and after the child logged - show the parent's
			if len(cs.kvs) > 0 && r.P(12) {
				kv := cs.kvs[r.Intn(len(cs.kvs))]
				slog.AddFlags(slog.LattrsR)
				slog.RemoveFlags(slog.Lcaller)
				par := newRoot("par", FLogfmt, w, slog.AlwaysLevel)
				par.Set(kv.Key, "the parent's value")
				kid := par.New("kid")
				kid.SetWriter(w).SetErrorWriter(w)
				kid.SetAttrs(kv.Attr())
				parKV := []gen.KV{{Key: kv.Key, Val: gen.V{Kind: "str", Text: "the parent's value", Go: "the parent's value"}}}
				for step, x := range []struct {
					lg   *slog.Entry
					name string
					kvs  []gen.KV
				}{{par, "par", parKV}, {kid, "kid", []gen.KV{kv}}, {par, "par", parKV}, {kid, "kid", []gen.KV{kv}}} {
					evs := capture(log, func() { x.lg.LogAttrs(bg, slog.InfoLevel, "shared-key") })
					if len(evs) != 1 {
						c.R.Violation(idx, "one-write", "C05/one-write/shared-key", fmt.Sprintf("expected exactly one Write, saw %s", fmtEvents(evs)), desc)
						return
					}
					if vs := c05check(evs[0].Data, recCase{name: x.name, msg: "shared-key", lvl: slog.InfoLevel, kvs: x.kvs}); len(vs) > 0 {
						c.R.Violation(idx, vs[0].clause, "C05/"+vs[0].clause+"/parent-and-child-bind-one-key/"+valueClass(kv.Val), fmt.Sprintf("step %d (%s logs; parent and child bind the key %q, inherit flag on): %s\npayload: %s", step, x.name, kv.Key, vs[0].detail, q(clip(string(evs[0].Data), 600))), desc)
						return
					}
				}
				c.R.Add("parent_and_child_binding_one_key", 1)
			}
			// instants that RFC 3339 cannot carry (a year of five digits, a year before 0, a zone a day wide): the pair holds
			// the instant as the time package spells it under the RFC3339Nano layout - all of it
			if idx%13 == 5 {
				far := []time.Time{time.Date(12000, 3, 4, 5, 6, 7, 8, time.UTC), time.Date(-50, 3, 15, 12, 0, 0, 0, time.UTC), time.Date(2024, 1, 2, 3, 4, 5, 0, time.FixedZone("", 25*3600))}[(idx/13)%3]
				lg := newRoot(cs.name, FLogfmt, w, slog.AlwaysLevel)
				evs := capture(log, func() { lg.Info("far instant", "expires~", far, slog.Group("lease~", "until~", far), "zz~", 1) })
				if len(evs) == 1 {
					want := far.Format(time.RFC3339Nano)
					line := string(evs[0].Data)
					for _, pair := range []string{"expires~=" + want, "lease~.until~=" + want, "zz~=1"} {
						quoted := strings.Replace(pair, "=", "=\"", 1) + "\""
						has := func(x string) bool { return strings.Contains(line, " "+x+" ") || strings.Contains(line, " "+x+"\n") }
						if !has(pair) && !has(quoted) {
							c.R.Violation(idx, "value", "C05/value/instant-outside-RFC3339", fmt.Sprintf("Info(msg, expires~=%s, lease~{until~}, zz~=1): the line lacks the pair %s\npayload: %s", want, pair, q(clip(line, 500))), nil)
							return
						}
					}
					c.R.Add("instants_outside_RFC3339_checked", 1)
				}
			}
			// the printf-style verbs without operands: the message is what fmt makes of the format ("%%" is one percent sign)
			if idx%11 == 6 {
				pm := recCase{name: cs.name, msg: "cache is 100% warm, 7% cold", lvl: slog.WarnLevel, caller: slog.GetFlags()&slog.Lcaller != 0}
				lg := newRoot(cs.name, FLogfmt, w, slog.AlwaysLevel)
				evs := capture(log, func() { _ = lg.Warnf("cache is 100%% warm, 7%% cold") })
				if len(evs) == 1 {
					if vs := c05check(evs[0].Data, pm); len(vs) > 0 {
						c.R.Violation(idx, vs[0].clause, "C05/"+vs[0].clause+"/printf-verb-without-operands", fmt.Sprintf("Warnf(\"cache is 100%%%% warm, 7%%%% cold\"): %s\npayload: %s", vs[0].detail, q(clip(string(evs[0].Data), 500))), pm.desc(FLogfmt))
						return
					}
					c.R.Add("printf_verbs_without_operands", 1)
				}
			}
			// a line through a std log bridge built on a logfmt logger - the EMPTY line included: one record whose message is
			// the line without its line break
			if idx%7 == 3 {
				line := strings.TrimRight(cs.msg, "\n")
				if idx%14 == 3 {
					line = ""
				}
				br := recCase{name: cs.name, msg: line, lvl: slog.InfoLevel, caller: slog.GetFlags()&slog.Lcaller != 0}
				lg := newRoot(cs.name, FLogfmt, w, slog.AlwaysLevel)
				bl := slog.NewLogLogger(lg, slog.InfoLevel)
				var evs []mon.Event
				panicked := ""
				func() {
					defer func() {
						if e := recover(); e != nil {
							panicked = fmt.Sprint(e)
						}
					}()
					evs = capture(log, func() { bl.Print(line) })
				}()
				switch {
				case panicked != "":
					c.R.Violation(idx, "one-write", "C05/one-write/std-log-bridge", fmt.Sprintf("log.Logger.Print(%q) through a bridge on a logfmt logger panicked: %s", clip(line, 80), panicked), br.desc(FLogfmt))
					return
				case len(evs) != 1 || evs[0].Kind != mon.EvWrite:
					c.R.Violation(idx, "one-write", "C05/one-write/std-log-bridge", fmt.Sprintf("log.Logger.Print(%q): expected exactly one Write, saw %s", clip(line, 80), fmtEvents(evs)), br.desc(FLogfmt))
					return
				}
				if vs := c05check(evs[0].Data, br); len(vs) > 0 {
					c.R.Violation(idx, vs[0].clause, "C05/"+vs[0].clause+"/std-log-bridge", fmt.Sprintf("log.Logger.Print(%q) through a bridge on a logfmt logger: %s\npayload: %s", clip(line, 80), vs[0].detail, q(clip(string(evs[0].Data), 600))), br.desc(FLogfmt))
					return
				}
				c.R.Add("lines_through_a_std_log_bridge", 1)
			}
			// ONE group object used twice in one record: at the top level and again inside a sibling group that sorts after
			// it (or before it) - an Attr is a pointer, applications pass the same one around. Every occurrence is printed.
			if idx%5 == 2 {
				for _, kv := range cs.kvs {
					if kv.Val.Kind != "group" || kv.Val.Go != nil || kv.Key == "" || len(match.Flatten("", []gen.KV{kv})) == 0 {
						continue
					}
					peer := kv.Attr()
					via := gen.Pick(r, []string{"zzvia~", "Avia~", "zzvia~"})
					hops := gen.KV{Key: "hops", Val: gen.V{Kind: "i64", I: 2, Go: 2}}
					ok := gen.KV{Key: "ok~", Val: gen.V{Kind: "bool", B: true, Go: true}}
					two := recCase{name: cs.name, msg: "one group object, used twice", lvl: slog.InfoLevel, caller: slog.GetFlags()&slog.Lcaller != 0,
						kvs: []gen.KV{kv, {Key: via, Val: gen.V{Kind: "group", Items: []gen.KV{kv, hops}}}, ok}}
					lg := newRoot(cs.name, FLogfmt, w, slog.AlwaysLevel)
					evs := capture(log, func() { lg.Info(two.msg, peer, slog.Group(via, peer, "hops", 2), "ok~", true) })
					if len(evs) != 1 || evs[0].Kind != mon.EvWrite {
						c.R.Violation(idx, "one-write", "C05/one-write/one-group-object-twice", fmt.Sprintf("expected exactly one Write, saw %s", fmtEvents(evs)), two.desc(FLogfmt))
						return
					}
					if vs := c05check(evs[0].Data, two); len(vs) > 0 {
						c.R.Violation(idx, vs[0].clause, "C05/"+vs[0].clause+"/one-group-object-used-twice-in-a-record", fmt.Sprintf("the group %q is given at the top level and (the same object) inside the group %q: %s\npayload: %s", kv.Key, via, vs[0].detail, q(clip(string(evs[0].Data), 900))), two.desc(FLogfmt))
						return
					}
					c.R.Add("records_with_one_group_object_used_twice", 1)
					break
				}
			}
			// attribute objects that belong to the APPLICATION and serve two loggers: a group built once and logged through a
			// logger that has a group of the same name bound to it, then through a logger that has not; an attribute list
			// bound to two loggers, one of which is Set anew under the same keys. The other logger's record holds what was
			// logged through THAT logger.
			if idx%5 == 3 {
				str := func(k, v string) gen.KV { return gen.KV{Key: k, Val: gen.V{Kind: "str", Text: v, Go: v}} }
				i64 := func(k string, v int64) gen.KV { return gen.KV{Key: k, Val: gen.V{Kind: "i64", I: v, Go: v}} }
				grp := func(k string, items ...gen.KV) gen.KV { return gen.KV{Key: k, Val: gen.V{Kind: "group", Items: items}} }
				callerOn := slog.GetFlags()&slog.Lcaller != 0
				judge := func(what string, evs []mon.Event, rc recCase) bool {
					if len(evs) != 1 || evs[0].Kind != mon.EvWrite {
						c.R.Violation(idx, "one-write", "C05/one-write/"+what, fmt.Sprintf("expected exactly one Write, saw %s", fmtEvents(evs)), rc.desc(FLogfmt))
						return false
					}
					if vs := c05check(evs[0].Data, rc); len(vs) > 0 {
						c.R.Violation(idx, vs[0].clause, "C05/"+vs[0].clause+"/"+what, fmt.Sprintf("%s\npayload: %s", vs[0].detail, q(clip(string(evs[0].Data), 900))), rc.desc(FLogfmt))
						return false
					}
					return true
				}
				la := newRoot(cs.name, FLogfmt, w, slog.AlwaysLevel)
				lb := newRoot(cs.name, FLogfmt, w, slog.AlwaysLevel)
				la.Set(slog.Group("req~", "id", 7))
				req := slog.Group("req~", "path", "/x")
				capture(log, func() { la.Info("through the logger that has a group of that name", req) })
				evs := capture(log, func() { lb.Info("one group object, second logger", req) })
				if !judge("application-owned-group-through-a-second-logger", evs, recCase{name: cs.name, msg: "one group object, second logger", lvl: slog.InfoLevel, caller: callerOn,
					kvs: []gen.KV{grp("req~", str("path", "/x"))}}) {
					return
				}
				common := slog.NewAttrs("svc~", "billing", "ver~", "1", slog.Group("node~", "zone", "eu", "rack", 4))
				lc := newRoot(cs.name, FLogfmt, w, slog.AlwaysLevel)
				ld := newRoot(cs.name, FLogfmt, w, slog.AlwaysLevel)
				lc.SetAttrs1(common)
				ld.SetAttrs1(common)
				lc.Set("ver~", "2", slog.Group("node~", "zone", "us"))
				capture(log, func() { lc.Info("through the logger that was Set anew") })
				evs = capture(log, func() { ld.Info("one attribute list, second logger", "n~", 1) })
				if !judge("application-owned-attribute-list-bound-to-two-loggers", evs, recCase{name: cs.name, msg: "one attribute list, second logger", lvl: slog.InfoLevel, caller: callerOn,
					kvs: []gen.KV{str("svc~", "billing"), str("ver~", "1"), grp("node~", str("zone", "eu"), i64("rack", 4)), i64("n~", 1)}}) {
					return
				}
				c.R.Add("records_through_the_second_owner_of_an_application_owned_attribute_object", 2)
			}
			return
		}
		culprits, residual := explain(cs, run)
		for _, cu := range culprits {
			c.R.Violation(idx, "attribute-alone", "C05/alone/"+cu.class, cu.detail, desc)
		}
		for _, v := range residual {
			c.R.Violation(idx, v.clause, "C05/"+v.clause+"/"+v.feature, v.detail+"\npayload: "+q(clip(string(payload), 1500)), desc)
		}
	})
}

// groupPositions summarises where groups sit among the sorted top-level keys: F(irst) M(iddle) L(ast).
func groupPositions(kvs []gen.KV) string {
	type kk struct {
		k string
		g bool
	}
	var ks []kk
	for _, kv := range kvs {
		ks = append(ks, kk{kv.Key, kv.Val.Kind == "group"})
	}
	for i := 0; i < len(ks); i++ {
		for j := i + 1; j < len(ks); j++ {
			if ks[j].k < ks[i].k {
				ks[i], ks[j] = ks[j], ks[i]
			}
		}
	}
	out := ""
	for i, k := range ks {
		if !k.g {
			continue
		}
		switch {
		case len(ks) == 1:
			out += "O"
		case i == 0:
			out += "F"
		case i == len(ks)-1:
			out += "L"
		default:
			if !strings.HasSuffix(out, "M") {
				out += "M"
			}
		}
	}
	if out == "" {
		return "none"
	}
	return out
}

type tv struct{ clause, feature, detail string }

func c05check(payload []byte, cs recCase) (out []tv) {
	if len(payload) == 0 || payload[len(payload)-1] != '\n' {
		return []tv{{"framing", "no-newline", "payload does not end with a newline"}}
	}
	if n := bytes.Count(payload, []byte{'\n'}); n != 1 {
		return []tv{{"framing", "lf-inside", fmt.Sprintf("record occupies %d lines (raw LF inside the record)", n)}}
	}
	if bytes.IndexByte(payload, '\r') >= 0 {
		return []tv{{"framing", "cr-inside", "raw CR inside the record"}}
	}
	line := payload[:len(payload)-1]
	pairs, err := oracle.ParseLogfmt(line)
	leaves := match.Flatten("", cs.kvs)
	byKey := map[string]match.Leaf{}
	for _, l := range leaves {
		byKey[l.Key] = l
	}
	if err != nil {
		// attribute: which expected key precedes the failing offset
		feat := "envelope"
		if len(pairs) > 0 {
			last := pairs[len(pairs)-1]
			if l, ok := byKey[last.Key]; ok {
				feat = valueClass(l.Val)
			}
		}
		return []tv{{"tokenize", feat, err.Error()}}
	}
	// envelope
	pos := 0
	expect := func(key string, check func(p oracle.Pair) string) {
		if pos >= len(pairs) || !pairs[pos].HasKey || pairs[pos].Key != key {
			got := "<end>"
			if pos < len(pairs) {
				got = pairs[pos].Key + "=" + clip(pairs[pos].Raw, 40)
			}
			out = append(out, tv{"envelope", key, fmt.Sprintf("pair #%d should be %s=…, found %s", pos, key, got)})
			return
		}
		if why := check(pairs[pos]); why != "" {
			out = append(out, tv{"envelope", key, why})
		}
		pos++
	}
	quoted := func(want string, exact bool) func(p oracle.Pair) string {
		return func(p oracle.Pair) string {
			if !p.Quoted {
				return fmt.Sprintf("%s value is not quoted: %s", p.Key, clip(p.Raw, 60))
			}
			if exact && p.Val != want {
				return fmt.Sprintf("%s=%q, want %q", p.Key, clip(p.Val, 200), clip(want, 200))
			}
			return ""
		}
	}
	expect("time", quoted("", false))
	if cs.name != "" {
		expect("logger", quoted(cs.name, true))
	}
	if isUnregistered(cs.lvl) {
		expect("level", func(p oracle.Pair) string {
			if !p.Quoted {
				return fmt.Sprintf("%s value is not quoted: %s", p.Key, clip(p.Raw, 60))
			}
			return levelNameProblem(p.Val, cs.lvl)
		})
	} else {
		expect("level", quoted(titleOf(cs.lvl), true))
	}
	expect("msg", quoted(cs.msg, true))
	if len(out) > 0 {
		return
	}
	rest := pairs[pos:]
	// caller pairs at the end
	if cs.caller {
		// caller.file and caller.function are required, caller.line may depend on the line-number flag
		n := 0
		seenC := map[string]bool{}
		for n < len(rest) && n < 3 && strings.HasPrefix(rest[len(rest)-1-n].Key, "caller.") {
			seenC[rest[len(rest)-1-n].Key] = true
			n++
		}
		if !seenC["caller.file"] || !seenC["caller.function"] {
			out = append(out, tv{"envelope", "caller", "caller.file / caller.function pairs missing at the end of the record"})
		} else {
			rest = rest[:len(rest)-n]
		}
	}
	seen := map[string]bool{}
	precededByGroup := false
	for _, p := range rest {
		if !p.HasKey {
			feat := "plain"
			if precededByGroup {
				feat = "after-group"
			}
			out = append(out, tv{"bare-value", feat, fmt.Sprintf("value without a key at byte %d: %s", p.Off, clip(p.Raw, 60))})
			continue
		}
		l, ok := byKey[p.Key]
		if !ok {
			feat := "unknown"
			if strings.HasPrefix(p.Key, "caller.") {
				feat = "caller"
			}
			out = append(out, tv{"forged-pair", feat, fmt.Sprintf("pair %s=%s was not logged", clip(p.Key, 60), clip(p.Raw, 60))})
			continue
		}
		if seen[p.Key] {
			out = append(out, tv{"dup-pair", valueClass(l.Val), fmt.Sprintf("key %s appears twice", p.Key)})
			continue
		}
		seen[p.Key] = true
		if strings.Contains(p.Key, ".") {
			precededByGroup = true
		}
		if ok, why := match.Text(p, l.Val, false); !ok {
			out = append(out, tv{"value", valueClass(l.Val), fmt.Sprintf("%s: %s", clip(p.Key, 60), why)})
		}
	}
	for _, l := range leaves {
		if !seen[l.Key] {
			feat := valueClass(l.Val)
			out = append(out, tv{"missing-pair", feat, fmt.Sprintf("attribute %s (%s) has no pair under its key", clip(l.Key, 60), l.Val.Kind)})
		}
	}
	// cap
	if len(out) > 6 {
		out = out[:6]
	}
	return
}
