package main

import (
	"bytes"
	"context"
	"fmt"
	"io"
	"os"
	"sort"
	"strconv"
	"strings"
	"time"

	"github.com/hedzr/is"
	"github.com/hedzr/logg/slog"

	"verifharness/gen"
	"verifharness/mon"
)

func init() {
	reg("C10", "tree", c10tree)
	reg("C10", "deflevel", c10defaultLevel)
}

type mnode struct {
	e        *slog.Entry
	name     string
	parent   *mnode
	children []*mnode
	level    slog.Level
	format   Format
	utc      int // 0 unset, 1 local, 2 utc
	layout   string
	attrs    []srcKV
	skip     int
	ctxKeys  []string
	skipKids map[int]*slog.Entry
	normal   []string // writer ids; nil = package default (stdout)
	errs     []string // nil = package default (stderr)
	depth    int
}

// c10lookalikes counts children named by the application in the style of a generated name
var c10lookalikes int

// c10closedInTree counts Close() calls on loggers of the model tree that own no writers
var c10closedInTree int

type sharedAttrsT struct {
	attrs slog.Attrs
	kvs   []srcKV
}

// sharedAttrs returns one of two Attrs values that live for the whole case and are given to several loggers.
func (e *c10env) sharedAttrs(r *gen.R) *sharedAttrsT {
	if len(e.shared) == 0 {
		for i := 0; i < 2; i++ {
			k1, k2 := fmt.Sprintf("s%da", i), fmt.Sprintf("s%db", i)
			sh := &sharedAttrsT{attrs: slog.NewAttrs(k1, "shared#"+k1, k2, "shared#"+k2)}
			sh.kvs = []srcKV{{key: k1, src: "shared#" + k1}, {key: k2, src: "shared#" + k2}}
			e.shared = append(e.shared, sh)
		}
	}
	return e.shared[r.Intn(len(e.shared))]
}

type c10env struct {
	skipClash string
	anonSpec  []any // the argument list for anonymous children that the application re-uses
	shared    []*sharedAttrsT
	log       *mon.Log
	pool      []io.Writer
	fds       *fdCapture
	nodes     []*mnode
	seq       int
	r         *gen.R
	def       *mnode // the tree node that is the default logger right now
	optOnce   slog.Opt
}

// c10optOnce counts the New calls that were handed the application's one WithWriter option value
var c10optOnce int

var c10ts = time.Date(2031, 7, 9, 21, 4, 5, 123456789, time.FixedZone("P", 5*3600+1800))

// ctxKeyFor: even-numbered keys are plain strings, odd-numbered ones Stringer values.
func ctxKeyFor(k string) any {
	if (k[len(k)-1]-'0')%2 == 0 {
		return k
	}
	return ctxKeyT{k}
}

// probe: WriteThru with fixed instant/frame; returns destination->bytes.
func (e *c10env) probe(n *mnode) (string, string) {
	e.log.Reset()
	m1, m2 := e.fds.mark()
	n.e.WriteThru(bg, slog.InfoLevel, c10ts, thePC, "probe", nil)
	var dst []string
	var data []byte
	for _, ev := range e.log.Events() {
		if ev.Kind == mon.EvWrite {
			dst = append(dst, ev.W)
			data = append(data, ev.Data...)
		}
	}
	b1, b2 := e.fds.since(m1, m2)
	if len(b1) > 0 {
		dst = append(dst, wSTDOUT)
		data = append(data, b1...)
	}
	if len(b2) > 0 {
		dst = append(dst, wSTDERR)
		data = append(data, b2...)
	}
	sort.Strings(dst)
	return strings.Join(dst, ","), string(data)
}

func (e *c10env) add(parent *mnode, ent *slog.Entry) *mnode {
	n := &mnode{e: ent, parent: parent, name: ent.Name(), level: slog.GetLevel(), format: FColor}
	if parent != nil {
		n.level, n.format, n.depth = parent.level, parent.format, parent.depth+1
		parent.children = append(parent.children, n)
	}
	e.nodes = append(e.nodes, n)
	return n
}

func (n *mnode) child(name string) *mnode {
	for _, c := range n.children {
		if c.name == name {
			return c
		}
	}
	return nil
}

func (n *mnode) root() *mnode {
	for n.parent != nil {
		n = n.parent
	}
	return n
}

func (n *mnode) subtree(out *[]*mnode) {
	*out = append(*out, n)
	for _, c := range n.children {
		c.subtree(out)
	}
}

type c10op struct {
	name  string
	apply func(e *c10env, t *mnode) (created *mnode, ret *slog.Entry, mutatesTarget bool)
}

func modeArgs(r *gen.R) ([]bool, bool) {
	switch r.Intn(4) {
	case 0:
		return nil, true
	case 1:
		return []bool{true}, true
	case 2:
		return []bool{false}, false
	}
	return []bool{true, false}, false
}

func (n *mnode) setJSON(m bool) {
	if m {
		n.format = FJSON
	} else if n.format == FJSON {
		n.format = FLogfmt
	}
}
func (n *mnode) setColor(m bool) {
	if m {
		n.format = FColor
	} else {
		n.format = FLogfmt
	}
}

// newChildModel registers the child the library created for a With* call.
func (e *c10env) withChild(t *mnode, ent *slog.Entry) *mnode {
	if ent == nil {
		return nil
	}
	if c := t.child(ent.Name()); c != nil {
		return c // the library returned an existing child (only WithSkip may)
	}
	return e.add(t, ent)
}

var layouts = []string{time.RFC3339, time.RFC1123Z, "2006-01-02 15:04:05.000 -0700", time.Kitchen, time.RFC3339Nano, "Jan _2 15:04:05.000000"}

func (e *c10env) ops() []c10op {
	r := e.r
	attrsFor := func(tag string) []srcKV {
		n := r.Range(1, 3)
		var l []srcKV
		for i := 0; i < n; i++ {
			e.seq++
			l = append(l, srcKV{key: fmt.Sprintf("a%d", r.Intn(6)), src: fmt.Sprintf("%s#%d", tag, e.seq)})
		}
		return l
	}
	toAttrs := func(l []srcKV) []slog.Attr {
		var as []slog.Attr
		for _, kv := range l {
			as = append(as, kv.attr())
		}
		return as
	}
	toArgs := func(l []srcKV) []any {
		var as []any
		for _, kv := range l {
			as = append(as, kv.key, kv.src)
		}
		return as
	}
	pickW := func() (io.Writer, string) {
		i := r.Intn(len(e.pool))
		return e.pool[i], fmt.Sprintf("W%d", i)
	}
	return []c10op{
		{"New(name)", func(e *c10env, t *mnode) (*mnode, *slog.Entry, bool) {
			name := gen.Pick(r, []string{"alpha", "beta", "gamma", "alpha", "db", "x", " alpha", "alpha ", "db\t", "  ", "Alpha", "alpha.1",
				// names as long as an import path (generated child names are built from the receiver's name)
				"github.com/example/project/internal/service/orders", "github.com/example/project/internal/service/orders/v2", strings.Repeat("n", 300)})
			var opts []any
			var post []func(n *mnode)
			if r.P(40) {
				l := gen.Pick(r, []slog.Level{slog.ErrorLevel, slog.InfoLevel, slog.TraceLevel, slog.AlwaysLevel, slog.PanicLevel, slog.PanicLevel})
				opts = append(opts, slog.WithLevel(l))
				post = append(post, func(n *mnode) { n.level = l })
			}
			if r.P(30) {
				opts = append(opts, slog.WithJSONMode(true))
				post = append(post, func(n *mnode) { n.setJSON(true) })
			}
			if r.P(30) {
				as := attrsFor("newopt")
				opts = append(opts, slog.WithAttrs(toAttrs(as)...))
				post = append(post, func(n *mnode) { n.attrs = append(n.attrs, as...) })
			} else if r.P(20) { // never together with the WithAttrs option: New(...) replaces option-set attributes by key/value arguments, a combination the statement does not cover (DESIGN §6)
				as := attrsFor("newkv")
				opts = append(opts, toArgs(as)...)
				post = append(post, func(n *mnode) { n.attrs = append(n.attrs, as...) })
			}
			if r.P(30) {
				// ONE option value, built once by the application (a default option list), is handed to every New that
				// takes this branch: each logger made with it has writers of its own
				if e.optOnce == nil {
					e.optOnce = slog.WithWriter(e.pool[0])
				}
				opts = append(opts, e.optOnce)
				post = append(post, func(n *mnode) { n.normal = []string{"W0"} })
				c10optOnce++
			}
			ent := t.e.New(append([]any{name}, opts...)...)
			if c := t.child(name); c != nil {
				return nil, ent, false // existing direct child: options are not applied again
			}
			n := e.add(t, ent)
			for _, f := range post {
				f(n)
			}
			return n, ent, false
		}},
		{"lookup: New(name) of an existing child, whatever call created it", func(e *c10env, t *mnode) (*mnode, *slog.Entry, bool) {
			// lookup by the name a direct child CARRIES (children made by New() without a name or by a With call carry a
			// generated one): New(name) returns that child
			if len(t.children) == 0 {
				return nil, t.e, false
			}
			want := t.children[r.Intn(len(t.children))]
			var ent *slog.Entry
			if r.Bool() {
				ent = t.e.New(want.name)
			} else {
				// ... also when the call carries options: the existing child is handed out as it is
				ent = t.e.New(want.name, slog.WithLevel(gen.Pick(r, []slog.Level{slog.ErrorLevel, slog.TraceLevel, slog.AlwaysLevel})), slog.WithJSONMode(r.Bool()), slog.WithAttrs(slog.String("given-to-a-lookup", "x")))
			}
			if ent != want.e {
				e.skipClash = fmt.Sprintf("WithWriter(nil) New(%q) on %s did not return the existing direct child of that name (a second child of that name was created: %v)", want.name, t.name, ent.Parent() == t.e && ent.Name() == want.name)
			}
			return nil, t.e, false
		}},
		{"New(anonymous)", func(e *c10env, t *mnode) (*mnode, *slog.Entry, bool) {
			var ent *slog.Entry
			switch r.Intn(3) {
			case 0:
				ent = t.e.New()
			case 1:
				ent = t.e.New("")
			default:
				// ONE argument list that the application keeps and passes again and again (a "spec" for anonymous children)
				if e.anonSpec == nil {
					e.anonSpec = make([]any, 1, 4)
					e.anonSpec[0] = ""
				}
				ent = t.e.New(e.anonSpec...)
			}
			for _, n := range e.nodes {
				if n.e == ent {
					e.skipClash = fmt.Sprintf("WithWriter(nil) New() without a name on %s did not create a logger: it handed out the existing logger %q", t.name, n.name)
					return nil, ent, false
				}
			}
			first := e.add(t, ent)
			// if the generated name ends in a NUMBER, the application may well name a child of its own in the same style
			// (two further on): the next anonymous child is a new logger all the same
			nm := ent.Name()
			i := len(nm)
			for i > 0 && nm[i-1] >= '0' && nm[i-1] <= '9' {
				i--
			}
			if i < len(nm) && len(nm)-i < 9 {
				k, _ := strconv.Atoi(nm[i:])
				look := nm[:i] + strconv.Itoa(k+2)
				if t.child(look) == nil {
					sib := t.e.New(look)
					for _, n := range e.nodes {
						if n.e == sib {
							e.skipClash = fmt.Sprintf("WithWriter(nil) New(%q) on %s did not create a logger: it handed out the existing logger %q", look, t.name, n.name)
							return nil, ent, false
						}
					}
					e.add(t, sib)
					second := t.e.New()
					for _, n := range e.nodes {
						if n.e == second {
							e.skipClash = fmt.Sprintf("WithWriter(nil) New() without a name on %s (whose children are %q, generated, and %q, named by the application in the same style) did not create a logger: it handed out the existing logger %q", t.name, nm, look, n.name)
							return nil, second, false
						}
					}
					c10lookalikes++
					return e.add(t, second), second, false
				}
			}
			return first, ent, false
		}},
		{"Close the writers of a throwaway detached logger", func(e *c10env, t *mnode) (*mnode, *slog.Entry, bool) {
			// some OTHER part of the application makes a logger of its own (package-level New: it writes to the process's
			// stdout / stderr), uses it and closes what its writers hand out at shutdown. No business of any logger here.
			e.seq++
			x := slog.New(fmt.Sprintf("throwaway%d", e.seq)).Root()
			// it has a writer set OF ITS OWN (a logger that never got writers uses the package's default device, which all
			// such loggers share by design: closing THAT is not an operation on one logger, DESIGN section 6)
			if r.Bool() {
				x.ResetWriters()
			} else {
				x.SetErrorWriter(io.Discard)
				x.AddWriter(io.Discard)
			}
			x.Print("a record of the throwaway logger's own") // (goes to the process's stdout: captured, not judged)
			func() {
				defer func() { _ = recover() }()
				for _, lv := range []slog.Level{slog.InfoLevel, slog.ErrorLevel} {
					if cl, ok := x.GetWriterBy(lv).(io.Closer); ok {
						_ = cl.Close()
					}
				}
			}()
			return nil, t.e, false
		}},
		{"Close() on a logger of the tree that owns no writers", func(e *c10env, t *mnode) (*mnode, *slog.Entry, bool) {
			// the usual `defer l.Close()` on a derived or request-scoped logger: it owns nothing that could be closed. The
			// logger stays where it was created; Parent, Root, Sublogger and Each find it and what lies below it
			if t.normal == nil && t.errs == nil && t.depth > 0 {
				t.e.Close()
				c10closedInTree++
			}
			return nil, t.e, false
		}},
		{"Close() a throwaway logger that never got writers", func(e *c10env, t *mnode) (*mnode, *slog.Entry, bool) {
			// a request-scoped logger of some other part of the application, made with package-level New, used and closed
			// (`defer l.Close()`): Close is an operation on THAT logger - every other logger prints where it printed
			e.seq++
			x := slog.New(fmt.Sprintf("request%d", e.seq))
			x.Close()
			return nil, t.e, false
		}},
		{"WithJSONMode", func(e *c10env, t *mnode) (*mnode, *slog.Entry, bool) {
			b, m := modeArgs(r)
			ent := t.e.WithJSONMode(b...)
			n := e.withChild(t, ent)
			n.setJSON(m)
			return n, ent, false
		}},
		{"WithColorMode", func(e *c10env, t *mnode) (*mnode, *slog.Entry, bool) {
			b, m := modeArgs(r)
			ent := t.e.WithColorMode(b...)
			n := e.withChild(t, ent)
			n.setColor(m)
			return n, ent, false
		}},
		{"WithUTCMode", func(e *c10env, t *mnode) (*mnode, *slog.Entry, bool) {
			b, m := modeArgs(r)
			ent := t.e.WithUTCMode(b...)
			n := e.withChild(t, ent)
			n.utc = 1
			if m {
				n.utc = 2
			}
			return n, ent, false
		}},
		{"WithTimeFormat", func(e *c10env, t *mnode) (*mnode, *slog.Entry, bool) {
			l := gen.Pick(r, layouts)
			ent := t.e.WithTimeFormat(tfArgs(r, l, layouts)...)
			n := e.withChild(t, ent)
			n.layout = l
			return n, ent, false
		}},
		{"WithLevel", func(e *c10env, t *mnode) (*mnode, *slog.Entry, bool) {
			l := gen.Pick(r, []slog.Level{slog.ErrorLevel, slog.WarnLevel, slog.InfoLevel, slog.DebugLevel, slog.TraceLevel, slog.AlwaysLevel, slog.PanicLevel, slog.Level(1<<31 + 20), slog.Level(-(1 << 40)), lvlFgOnly, lvlNoClr, lvlCyr})
			ent := t.e.WithLevel(l)
			n := e.withChild(t, ent)
			n.level = l
			return n, ent, false
		}},
		{"WithAttrs", func(e *c10env, t *mnode) (*mnode, *slog.Entry, bool) {
			as := attrsFor("with")
			var ent *slog.Entry
			switch r.Intn(3) {
			case 0:
				ent = t.e.WithAttrs(toAttrs(as)...)
			case 1:
				ent = t.e.WithAttrs1(slog.Attrs(toAttrs(as)))
			default:
				ent = t.e.With(toArgs(as)...)
			}
			n := e.withChild(t, ent)
			n.attrs = append(n.attrs, as...)
			return n, ent, false
		}},
		{"SetAttrs1(shared Attrs value)", func(e *c10env, t *mnode) (*mnode, *slog.Entry, bool) {
			// one Attrs value (built by NewAttrs: spare capacity) handed to several loggers: each must keep its own copy
			sh := e.sharedAttrs(r)
			ent := t.e.SetAttrs1(sh.attrs)
			t.attrs = append(t.attrs, sh.kvs...)
			return nil, ent, true
		}},
		{"WithAttrs1(shared Attrs value)", func(e *c10env, t *mnode) (*mnode, *slog.Entry, bool) {
			sh := e.sharedAttrs(r)
			var ent *slog.Entry
			if r.Bool() {
				ent = t.e.WithAttrs1(sh.attrs)
			} else {
				ent = t.e.New(fmt.Sprintf("sh%d", e.seq), slog.WithAttrs1(sh.attrs))
				e.seq++
			}
			n := e.withChild(t, ent)
			n.attrs = append(n.attrs, sh.kvs...)
			return n, ent, false
		}},
		{"WithContextKeys", func(e *c10env, t *mnode) (*mnode, *slog.Entry, bool) {
			k := fmt.Sprintf("ck%d", r.Intn(4))
			ent := t.e.WithContextKeys(ctxKeyFor(k))
			n := e.withChild(t, ent)
			n.ctxKeys = append(n.ctxKeys, k)
			return n, ent, false
		}},
		{"WithWriter", func(e *c10env, t *mnode) (*mnode, *slog.Entry, bool) {
			w, id := pickW()
			ent := t.e.WithWriter(w)
			n := e.withChild(t, ent)
			n.normal = []string{id}
			return n, ent, false
		}},
		{"WithWriter(nil)+SetWriter", func(e *c10env, t *mnode) (*mnode, *slog.Entry, bool) {
			// a With call is a With call whatever its argument: a new child of the receiver, which gets its writers
			// right afterwards (nothing is ever logged through the nil writer)
			w, id := pickW()
			var ent *slog.Entry
			if r.Bool() {
				ent = t.e.WithWriter(nil)
			} else {
				ent = t.e.WithErrorWriter(nil)
			}
			if ent == t.e {
				e.skipClash = "WithWriter(nil) / WithErrorWriter(nil) returned the receiver itself instead of a new child"
				return nil, ent, false
			}
			ent.SetWriter(w).SetErrorWriter(w)
			n := e.withChild(t, ent)
			n.normal, n.errs = []string{id}, []string{id}
			return n, ent, false
		}},
		{"SetDefault(this logger)", func(e *c10env, t *mnode) (*mnode, *slog.Entry, bool) {
			// which logger the package-level functions use says nothing about the tree: Parent/Root/Each stay what the
			// creation history made them
			slog.SetDefault(t.e)
			e.def = t
			return nil, t.e, false
		}},
		{"pkg.SetLevel", func(e *c10env, t *mnode) (*mnode, *slog.Entry, bool) {
			// the package-level SetLevel sets the level of the logger that is the default one right now - of that logger
			// alone: not of its children, not of the helpers WithSkip made of it
			if e.def == nil {
				return nil, t.e, false
			}
			l := gen.Pick(r, []slog.Level{slog.ErrorLevel, slog.WarnLevel, slog.InfoLevel, slog.TraceLevel, slog.AlwaysLevel})
			slog.SetLevel(l)
			e.def.level = l
			return nil, e.def.e, false
		}},
		{"WithErrorWriter", func(e *c10env, t *mnode) (*mnode, *slog.Entry, bool) {
			w, id := pickW()
			ent := t.e.WithErrorWriter(w)
			n := e.withChild(t, ent)
			n.errs = []string{id}
			if n.normal == nil {
				n.normal = []string{wSTDOUT} // its own writer set now exists, with the default normal writer
			}
			return n, ent, false
		}},
		{"WithSkip", func(e *c10env, t *mnode) (*mnode, *slog.Entry, bool) {
			k := r.Intn(3)
			if e2 := t.skipKids[k]; e2 != nil && r.Bool() {
				// the child kept for this count was given another count (or other settings) in between: WithSkip(k)
				// hands out that child, carrying k again
				e2.SetSkip(k + 1 + r.Intn(3))
			}
			ent := t.e.WithSkip(k)
			if t.skipKids == nil {
				t.skipKids = map[int]*slog.Entry{}
			}
			for k2, e2 := range t.skipKids {
				if (k2 == k) != (e2 == ent) {
					e.skipClash = fmt.Sprintf("WithSkip(%d) and WithSkip(%d) on %q returned %s child", k, k2, t.name, map[bool]string{true: "the same", false: "different"}[e2 == ent])
				}
			}
			t.skipKids[k] = ent
			n := e.withChild(t, ent)
			n.skip = k
			return n, ent, false
		}},
		{"WithSkip on a logger that has writers, then AddWriter on the child", func(e *c10env, t *mnode) (*mnode, *slog.Entry, bool) {
			// the facade's helper gets a destination of its own: the logger it was derived from keeps its writers as they are
			if t.normal == nil && t.errs == nil {
				return nil, t.e, false // (a logger without writers of its own has nothing its helper could share)
			}
			k := 3 + r.Intn(2)
			ent := t.e.WithSkip(k)
			if t.skipKids == nil {
				t.skipKids = map[int]*slog.Entry{}
			}
			fresh := t.skipKids[k] == nil
			t.skipKids[k] = ent
			if !fresh {
				// (the child kept for this count exists already and is modelled: handing it out again gives it the count again)
				for _, n := range e.nodes {
					if n.e == ent {
						n.skip = k
					}
				}
				return nil, t.e, false
			}
			n := e.withChild(t, ent)
			n.skip = k
			w, id := pickW()
			ent.AddWriter(w)
			n.normal, n.errs = []string{wSTDOUT, id}, []string{wSTDERR}
			return n, ent, false
		}},
		{"SetJSONMode", func(e *c10env, t *mnode) (*mnode, *slog.Entry, bool) {
			b, m := modeArgs(r)
			ent := t.e.SetJSONMode(b...)
			t.setJSON(m)
			return nil, ent, true
		}},
		{"SetColorMode", func(e *c10env, t *mnode) (*mnode, *slog.Entry, bool) {
			b, m := modeArgs(r)
			ent := t.e.SetColorMode(b...)
			t.setColor(m)
			return nil, ent, true
		}},
		{"SetUTCMode", func(e *c10env, t *mnode) (*mnode, *slog.Entry, bool) {
			b, m := modeArgs(r)
			ent := t.e.SetUTCMode(b...)
			t.utc = 1
			if m {
				t.utc = 2
			}
			return nil, ent, true
		}},
		{"SetTimeFormat", func(e *c10env, t *mnode) (*mnode, *slog.Entry, bool) {
			l := gen.Pick(r, layouts)
			ent := t.e.SetTimeFormat(tfArgs(r, l, layouts)...)
			t.layout = l
			return nil, ent, true
		}},
		{"SetLevel", func(e *c10env, t *mnode) (*mnode, *slog.Entry, bool) {
			l := gen.Pick(r, []slog.Level{slog.ErrorLevel, slog.WarnLevel, slog.InfoLevel, slog.DebugLevel, slog.TraceLevel, slog.AlwaysLevel, slog.FatalLevel, slog.Level(1<<31 + 20), slog.Level(1 << 40), slog.Level(-(1 << 35)), lvlFgOnly, lvlFgBg, lvlNoClr})
			ent := t.e.SetLevel(l)
			t.level = l
			return nil, ent, true
		}},
		{"SetAttrs", func(e *c10env, t *mnode) (*mnode, *slog.Entry, bool) {
			as := attrsFor("set")
			var ent *slog.Entry
			switch r.Intn(3) {
			case 0:
				ent = t.e.SetAttrs(toAttrs(as)...)
			case 1:
				ent = t.e.SetAttrs1(slog.Attrs(toAttrs(as)))
			default:
				ent = t.e.Set(toArgs(as)...)
			}
			t.attrs = append(t.attrs, as...)
			return nil, ent, true
		}},
		{"SetAttrs(key of a shared Attr)", func(e *c10env, t *mnode) (*mnode, *slog.Entry, bool) {
			// the receiver refreshes an attribute under a key that it (and other loggers) may hold as one SHARED Attr
			// object: the other holders keep the value they were given
			sh := e.sharedAttrs(r)
			kv := sh.kvs[r.Intn(len(sh.kvs))]
			e.seq++
			own := srcKV{key: kv.key, src: fmt.Sprintf("refreshed#%d", e.seq)}
			var ent *slog.Entry
			switch r.Intn(3) {
			case 0:
				ent = t.e.SetAttrs(own.attr())
			case 1:
				ent = t.e.Set(own.key, own.src)
			default:
				ent = t.e.SetAttrs1(slog.Attrs{own.attr()})
			}
			t.attrs = append(t.attrs, own)
			return nil, ent, true
		}},
		{"SetAttrs(shared Attr objects)", func(e *c10env, t *mnode) (*mnode, *slog.Entry, bool) {
			sh := e.sharedAttrs(r)
			ent := t.e.SetAttrs(sh.attrs...)
			t.attrs = append(t.attrs, sh.kvs...)
			return nil, ent, true
		}},
		{"SetContextKeys", func(e *c10env, t *mnode) (*mnode, *slog.Entry, bool) {
			k := fmt.Sprintf("ck%d", r.Intn(4))
			ent := t.e.SetContextKeys(ctxKeyFor(k))
			t.ctxKeys = append(t.ctxKeys, k)
			return nil, ent, true
		}},
		{"SetWriter", func(e *c10env, t *mnode) (*mnode, *slog.Entry, bool) {
			w, id := pickW()
			ent := t.e.SetWriter(w)
			t.normal = []string{id}
			if t.errs == nil {
				t.errs = []string{wSTDERR}
			}
			return nil, ent, true
		}},
		{"AddWriter", func(e *c10env, t *mnode) (*mnode, *slog.Entry, bool) {
			w, id := pickW()
			ent := t.e.AddWriter(w)
			if t.normal == nil {
				t.normal = []string{wSTDOUT}
			}
			t.normal = append(t.normal, id)
			if t.errs == nil {
				t.errs = []string{wSTDERR}
			}
			return nil, ent, true
		}},
		{"SetSkip", func(e *c10env, t *mnode) (*mnode, *slog.Entry, bool) {
			k := r.Intn(4)
			t.e.SetSkip(k)
			t.skip = k
			return nil, t.e, true
		}},
	}
}

// tfArgs spells "the layout l" as an argument list of the time-format calls: the list may hold several layouts and
// empty strings; the last non-empty one is the layout (an empty string never is).
func tfArgs(r *gen.R, l string, layouts []string) []string {
	switch r.Intn(6) {
	case 0:
		return []string{gen.Pick(r, layouts), l}
	case 1:
		return []string{l, ""}
	case 2:
		return []string{"", l}
	case 3:
		return []string{gen.Pick(r, layouts), "", l, ""}
	}
	return []string{l}
}

func (n *mnode) expTime() string {
	layout := n.layout
	if layout == "" {
		layout = slog.TimeNano
	}
	t := c10ts
	// "unset" follows the LlocalTime flag (which some cases clear); an explicit mode is the logger's own
	if n.utc == 2 || (n.utc == 0 && !slog.IsAnyBitsSet(slog.LlocalTime)) {
		t = t.UTC()
	}
	return t.Format(layout)
}

// checkNode compares getters and the decoded probe of one logger with the model.
func (e *c10env) checkNode(n *mnode) (clause, detail string) {
	if n.e.Name() != n.name {
		return "getter-name", fmt.Sprintf("Name()=%q, model %q", n.e.Name(), n.name)
	}
	if n.e.Level() != n.level {
		return "getter-level", fmt.Sprintf("logger %s: Level()=%v, model %v", n.name, n.e.Level(), n.level)
	}
	if n.e.JSONMode() != (n.format == FJSON) || n.e.ColorMode() != (n.format == FColor) {
		return "getter-format", fmt.Sprintf("logger %s: JSONMode()=%v ColorMode()=%v, model %v", n.name, n.e.JSONMode(), n.e.ColorMode(), n.format)
	}
	if n.e.Skip() != n.skip {
		return "getter-skip", fmt.Sprintf("logger %s: Skip()=%d, model %d", n.name, n.e.Skip(), n.skip)
	}
	var wantParent *slog.Entry
	if n.parent != nil {
		wantParent = n.parent.e
	}
	if n.e.Parent() != wantParent {
		return "parent", fmt.Sprintf("logger %s: Parent() is not the logger it was created from", n.name)
	}
	if n.e.Root() != n.root().e {
		return "root", fmt.Sprintf("logger %s: Root() is not the root of its creation history", n.name)
	}
	dst, data := e.probe(n)
	wantDst := append([]string(nil), n.normal...)
	if n.normal == nil {
		wantDst = []string{wSTDOUT}
	}
	sort.Strings(wantDst)
	if dst != strings.Join(wantDst, ",") {
		return "writers", fmt.Sprintf("logger %s: probe went to [%s], model says [%s]", n.name, dst, strings.Join(wantDst, ","))
	}
	// with several destinations the payload is repeated; decode the first copy
	one := data
	if len(wantDst) > 1 {
		one = data[:len(data)/len(wantDst)]
	}
	d, err := decodeRecord(n.format, []byte(one), n.name != "", false)
	if err != nil {
		return "probe-format", fmt.Sprintf("logger %s: probe does not decode as %v: %v: %s", n.name, n.format, err, q(clip(one, 300)))
	}
	if n.name != "" && d.Logger != n.name {
		return "probe-name", fmt.Sprintf("logger %s: record names logger %q", n.name, d.Logger)
	}
	if d.Time != n.expTime() {
		return "probe-time", fmt.Sprintf("logger %s (utc mode %d, layout %q): timestamp %q, model %q", n.name, n.utc, n.layout, d.Time, n.expTime())
	}
	return "", ""
}

// attrsOfLogger returns the decoded attribute list of a PrintContext record (logger attributes + context keys).
func (e *c10env) attrsOfLogger(n *mnode) string {
	_, _, d := e.ctxRecord(n)
	if d == nil {
		return "<undecodable>"
	}
	var sb strings.Builder
	for _, a := range d.Attrs {
		sb.WriteString(a.Key + "=" + a.Text + " ")
	}
	return sb.String()
}

func (e *c10env) ctxRecord(n *mnode) (clause, detail string, d *decoded) {
	ctx := context.Background()
	for i := 0; i < 4; i++ {
		ctx = context.WithValue(ctx, ctxKeyFor(fmt.Sprintf("ck%d", i)), fmt.Sprintf("ctx#%d", i)) //nolint:staticcheck // string keys are what the library supports
	}
	e.log.Reset()
	m1, m2 := e.fds.mark()
	n.e.PrintContext(ctx, "ctxprobe")
	var data []byte
	for _, ev := range e.log.Events() {
		if ev.Kind == mon.EvWrite && len(data) == 0 {
			data = ev.Data
		}
	}
	b1, _ := e.fds.since(m1, m2)
	if len(data) == 0 {
		data = b1
	}
	if len(data) == 0 {
		return "ctx-probe", fmt.Sprintf("logger %s: PrintContext produced no output", n.name), nil
	}
	// with several destinations keep the first record only
	if i := bytes.IndexByte(data, '\n'); i >= 0 {
		data = data[:i+1]
	}
	d, err := decodeRecord(n.format, data, n.name != "", false)
	if err != nil {
		return "ctx-probe", fmt.Sprintf("logger %s: %v", n.name, err), nil
	}
	return "", "", d
}

func (e *c10env) ctxProbe(n *mnode) (clause, detail string) {
	if n.level == slog.OffLevel {
		return "", ""
	}
	cl, dt, d := e.ctxRecord(n)
	if cl != "" {
		return cl, dt
	}
	var all []srcKV
	seen := map[string]bool{}
	for _, k := range n.ctxKeys {
		if !seen[k] {
			seen[k] = true
		}
		all = append(all, srcKV{key: k, src: "ctx#" + k[2:]})
	}
	all = append(all, n.attrs...)
	var want []flatKV
	flattenRef("", mergeRef(all), &want)
	if vs := c07compare(d.Attrs, want, nil); len(vs) > 0 {
		return "ctx-keys", fmt.Sprintf("logger %s (context keys %v): %s", n.name, n.ctxKeys, vs[0].detail)
	}
	return "", ""
}

func c10tree(c *Ctx) {
	registerCustomLevels() // severities of the application, some with a treated-as entry: as thresholds they are numbers like any other
	fds, err := captureFds()
	if err != nil {
		c.R.Violation(-1, "harness", "C10/harness", err.Error(), nil)
		return
	}
	slog.RemoveFlags(slog.Lcaller)
	slog.AddFlags(slog.LnoInterrupt)
	log := mon.NewLog()
	var pool []io.Writer
	for i := 0; i < 4; i++ {
		pool = append(pool, mon.New(log, fmt.Sprintf("W%d", i), mon.Shape(i%4)))
	}
	c.Each(func(idx int, r *gen.R) {
		e := &c10env{log: log, pool: pool, fds: fds, r: r}
		is.SetDebugMode(false)
		// the LlocalTime flag is cleared in a third of the cases: a zone mode set on a logger is that logger's own
		if r.P(33) {
			slog.RemoveFlags(slog.LlocalTime)
			defer slog.AddFlags(slog.LlocalTime)
			c.R.Add("cases_with_LlocalTime_cleared", 1)
		}
		// roots: two detached loggers and a fresh default logger
		pkgLevel := slog.GetLevel()
		defer func(l slog.Level) { slog.SetLevel(l) }(pkgLevel) // what a history did to the package level ends with the case
		r1name := "r1"
		if r.P(40) {
			r1name = "github.com/example/project/cmd/server-with-a-rather-long-name"
		}
		r1 := slog.New(r1name)
		n1 := e.add(nil, r1.Root())
		r2 := slog.New()
		n2 := e.add(nil, r2.Root())
		var n3 *mnode
		if idx == c.From && c.Only < 0 {
			// the first case of every child works on the library's own built-in default logger (whatever it
			// shares with the package-level state shows here); its level is the package default
			n3 = e.add(nil, slog.Default().Root())
			n3.level = slog.Default().Level()
			c.R.Add("cases_on_the_builtin_default_logger", 1)
		} else {
			def := slog.New("def")
			slog.SetDefault(def)
			n3 = e.add(nil, slog.Default().Root())
		}
		e.def = n3
		for _, n := range []*mnode{n1, n2, n3} {
			if n.level != pkgLevel || n.format != FColor || n.parent != nil {
				c.R.Violation(idx, "package-new", "C10/package-new", "model construction", nil)
			}
		}
		ops := e.ops()
		// (the Close of a writer-less logger of the tree is an everyday operation: it is drawn three times as often)
		for _, o := range ops {
			if o.name == "Close() on a logger of the tree that owns no writers" {
				ops = append(ops, o, o)
				break
			}
		}
		nops := r.Range(5, 60)
		var history []string
		snapshot := func() map[*mnode][2]string {
			m := map[*mnode][2]string{}
			for _, n := range e.nodes {
				d, b := e.probe(n)
				m[n] = [2]string{d, b + "\nattrs: " + e.attrsOfLogger(n)}
			}
			return m
		}
		before := snapshot()
		fail := func(clause, detail string) {
			h := history
			if len(h) > 25 {
				h = append([]string{"…"}, h[len(h)-25:]...)
			}
			c.R.Violation(idx, clause, "C10/"+clause+"/"+strings.SplitN(history[len(history)-1], "@", 2)[0], detail, map[string]any{"history": h, "loggers": len(e.nodes)})
		}
		for k := 0; k < nops; k++ {
			t := e.nodes[r.Intn(len(e.nodes))]
			op := ops[r.Intn(len(ops))]
			history = append(history, fmt.Sprintf("%s@%s", op.name, t.name))
			c.R.JournalNote(history[len(history)-1])
			created, ret, mutates := op.apply(e, t)
			c.R.Add("operations", 1)
			if op.name == "Close() on a logger of the tree that owns no writers" {
				c.R.Max("Close_calls_on_loggers_of_the_tree_that_own_no_writers", int64(c10closedInTree))
				c.R.Max("New_calls_handed_the_one_WithWriter_option_value_of_the_application", int64(c10optOnce))
			}
			if op.name == "Close() a throwaway logger that never got writers" {
				c.R.Add("Close_calls_on_a_logger_that_never_got_writers", 1)
			}
			if strings.HasPrefix(e.skipClash, "WithWriter(nil) New(") {
				fail("new-lookup", strings.TrimPrefix(e.skipClash, "WithWriter(nil) "))
				return
			}
			if strings.HasPrefix(e.skipClash, "WithWriter(nil)") {
				fail("with-creates-child-of-receiver", e.skipClash)
				return
			}
			if e.skipClash != "" {
				fail("withskip-one-child-per-n", e.skipClash)
				return
			}
			c.R.Distinct("operation_kinds", op.name)
			// return value
			if mutates && ret != t.e {
				fail("set-returns-receiver", fmt.Sprintf("%s did not return its receiver", op.name))
				return
			}
			if created != nil {
				if created.e.Parent() != t.e {
					fail("with-creates-child-of-receiver", fmt.Sprintf("%s on %s returned a logger whose parent is not the receiver", op.name, t.name))
					return
				}
				if created.name == "" {
					fail("child-name", fmt.Sprintf("%s created a child without a name", op.name))
					return
				}
			} else if !mutates && strings.HasPrefix(op.name, "New(name)") {
				// lookup of an existing child: must be that very child
				if c2 := t.child(ret.Name()); c2 == nil || c2.e != ret {
					fail("new-lookup", fmt.Sprintf("New(%q) on %s did not return the existing direct child", ret.Name(), t.name))
					return
				}
			}
			// isolation: every logger that is neither the receiver of a Set nor newly created emits the same bytes to the same place
			after := snapshot()
			for n, b := range before {
				if mutates && n == t {
					continue
				}
				if a := after[n]; a != b {
					fail("isolation", fmt.Sprintf("%s on %s changed what logger %s emits:\n before: [%s] %s\n after:  [%s] %s", op.name, t.name, n.name, b[0], q(clip(b[1], 300)), a[0], q(clip(a[1], 300))))
					return
				}
			}
			c.R.Add("isolation_comparisons", int64(len(before)))
			// the touched / created logger agrees with the model
			for _, n := range e.nodes {
				if cl, d := e.checkNode(n); cl != "" {
					fail(cl, d)
					return
				}
			}
			target := t
			if created != nil {
				target = created
			}
			if cl, d := e.ctxProbe(target); cl != "" {
				fail(cl, d)
				return
			}
			c.R.Add("model_comparisons", int64(len(e.nodes)))
			// lookups
			if r.P(40) {
				root := t.root()
				var sub []*mnode
				root.subtree(&sub)
				visited := map[*slog.Entry]int{}
				depthOK := true
				byEntry := map[*slog.Entry]*mnode{}
				for _, n := range sub {
					byEntry[n.e] = n
				}
				root.e.Each(func(l *slog.Entry, depth int) {
					visited[l]++
					if n := byEntry[l]; n == nil || n.depth-root.depth != depth {
						depthOK = false
					}
				})
				if len(visited) != len(sub) || !depthOK {
					fail("each", fmt.Sprintf("Each on %s visited %d loggers (model subtree has %d), depths ok=%v", root.name, len(visited), len(sub), depthOK))
					return
				}
				for _, cnt := range visited {
					if cnt != 1 {
						fail("each", "Each visited a logger more than once")
						return
					}
				}
				want := sub[r.Intn(len(sub))]
				got := root.e.Sublogger(want.name)
				if got == nil || got.Name() != want.name || byEntry[got] == nil {
					fail("sublogger", fmt.Sprintf("Sublogger(%q) on %s did not return a logger of that name inside the subtree", want.name, root.name))
					return
				}
				if root.e.Sublogger("no-such-logger-name") != nil {
					fail("sublogger", "Sublogger of an unknown name is not nil")
					return
				}
				// a name that differs from an existing logger's name in the CASE of its letters only was never created
				for _, alt := range []string{strings.ToUpper(want.name), strings.ToLower(want.name)} {
					exists := false
					for _, n := range sub {
						exists = exists || n.name == alt
					}
					if alt != want.name && !exists {
						c.R.Add("lookups_of_a_case_variant_of_an_existing_name", 1)
						if got := root.e.Sublogger(alt); got != nil {
							fail("sublogger", fmt.Sprintf("Sublogger(%q) on %s returned the logger %q: no logger of the name asked for was ever created", alt, root.name, got.Name()))
							return
						}
					}
				}
				// a name that is looked up BEFORE it exists, from every ancestor, then created, then looked up again
				lateOK := func() bool {
					late := fmt.Sprintf("late-%d-%d", idx, k)
					under := sub[r.Intn(len(sub))]
					for a := under; a != nil; a = a.parent {
						if a.e.Sublogger(late) != nil {
							fail("sublogger", fmt.Sprintf("Sublogger(%q) on %s found a logger that was never created", late, a.name))
							return false
						}
					}
					history = append(history, fmt.Sprintf("New(name)-after-lookup-miss@%s", under.name))
					made := under.e.New(late)
					mn := e.withChild(under, made)
					for a := under; a != nil; a = a.parent {
						if got := a.e.Sublogger(late); got != made {
							fail("sublogger", fmt.Sprintf("Sublogger(%q) on %s (an ancestor %d level(s) up) returns %v after the logger was created under %s; it answered nil before the creation", late, a.name, mn.depth-a.depth, got != nil, under.name))
							return false
						}
					}
					after = snapshot()
					c.R.Add("lookups_before_and_after_creation", 1)
					return true
				}
				if r.P(25) && !lateOK() {
					return
				}
				c.R.Add("lookups", 1)
			}
			before = after
			if created != nil {
				d, b := e.probe(created)
				before[created] = [2]string{d, b + "\nattrs: " + e.attrsOfLogger(created)}
			}
			if mutates {
				d, b := e.probe(t)
				before[t] = [2]string{d, b + "\nattrs: " + e.attrsOfLogger(t)}
			}
		}
		c.R.Max("max_tree_size", int64(len(e.nodes)))
		c.R.NonTrivial(strings.Join(history, ";"))
		if c.R.WantSample() {
			c.R.Sample(idx, map[string]any{"history": history}, map[string]any{"loggers_at_end": len(e.nodes)})
		}
	})
}

// c10defaultLevel runs in a pristine process: a logger from the package-level New starts colored,
// parentless and at the package default level (Warn in production, Debug under go test) until SetLevel changes it.
func c10defaultLevel(c *Ctx) {
	c.Each(func(idx int, r *gen.R) {
		want := slog.WarnLevel
		if c.Testing {
			want = slog.DebugLevel
		}
		if v, ok := os.LookupEnv("DEBUG"); ok {
			c.R.Distinct("DEBUG_values_in_the_environment", q(v)) // the driver only passes values that say "no"
		}
		if c.X("nocolormode", "") == "1" {
			// the application's process-wide "--no-color" switch (hedzr/is) is on: it strips escape sequences, it is no
			// mode call on anybody's logger - a logger made by the package-level New still STARTS in colored format
			is.SetNoColorMode(true)
			c.R.Add("default_level_processes_with_the_no_color_switch_on", 1)
		}
		check := func(stage string, want slog.Level) bool {
			l := slog.New("fresh" + stage)
			e := l.Root()
			c.R.Add("default_level_checks", 1)
			if l.Level() != want || slog.GetLevel() != want {
				c.R.Violation(idx, "package-default-level", "C10/package-default-level/"+stage, fmt.Sprintf("%s: New(...).Level()=%v GetLevel()=%v, expected %v (testing mode %v)", stage, l.Level(), slog.GetLevel(), want, c.Testing), nil)
				return false
			}
			if e.Parent() != nil || e.Root() != e || !l.ColorMode() || l.JSONMode() {
				c.R.Violation(idx, "package-new", "C10/package-new/"+stage, fmt.Sprintf("%s: package New: parent nil=%v root self=%v color=%v json=%v", stage, e.Parent() == nil, e.Root() == e, l.ColorMode(), l.JSONMode()), nil)
				return false
			}
			return true
		}
		if !check("initial", want) {
			return
		}
		seq := []slog.Level{slog.ErrorLevel, slog.InfoLevel, slog.TraceLevel, slog.WarnLevel, slog.AlwaysLevel}
		r.Shuffle(len(seq), func(i, j int) { seq[i], seq[j] = seq[j], seq[i] })
		var hist []string
		for _, x := range seq {
			old := slog.New("before" + x.String())
			oldLevel := old.Level()
			// the default logger's own level may already be x (set on the logger itself, or a new default logger
			// configured before it was installed): that is a Set on one logger and leaves the package default alone
			switch r.Intn(4) {
			case 0:
				cur := slog.GetLevel()
				slog.Default().SetLevel(x)
				hist = append(hist, "Default().SetLevel("+x.String()+")")
				if !check("after-Default().SetLevel("+x.String()+")", cur) {
					return
				}
			case 1:
				cur := slog.GetLevel()
				slog.SetDefault(slog.New("app" + x.String()).SetLevel(x))
				hist = append(hist, "SetDefault(New.SetLevel("+x.String()+"))")
				if !check("after-SetDefault(New().SetLevel("+x.String()+"))", cur) {
					return
				}
			}
			if r.P(40) {
				// some logger somewhere gets the Debug level (which switches the process-wide debug mode on): the package
				// default level is not that logger's business
				cur := slog.GetLevel()
				tmp := slog.New("debugged" + x.String())
				if r.Bool() {
					tmp.SetLevel(slog.DebugLevel)
				} else {
					_ = tmp.WithLevel(slog.DebugLevel)
				}
				hist = append(hist, "some logger set to Debug")
				if !check("after-some-logger-was-set-to-Debug", cur) {
					return
				}
				is.SetDebugMode(false)
			}
			slog.SetLevel(x)
			hist = append(hist, x.String())
			if !check("after-SetLevel("+x.String()+")", x) {
				return
			}
			if r.P(60) {
				// a window opened with SaveLevelAndSet (the `defer SaveLevelAndSet(y)()` idiom): inside it the level is y - or
				// what a plain SetLevel made of it meanwhile - and its restore closure brings back the level saved at its start
				y := gen.Pick(r, []slog.Level{slog.ErrorLevel, slog.InfoLevel, slog.TraceLevel, slog.PanicLevel})
				restoreLevel := slog.SaveLevelAndSet(y)
				hist = append(hist, "SaveLevelAndSet("+y.String()+")")
				if !check("inside-SaveLevelAndSet("+y.String()+")", y) {
					return
				}
				if r.Bool() {
					z := gen.Pick(r, []slog.Level{slog.WarnLevel, slog.DebugLevel, slog.AlwaysLevel})
					slog.SetLevel(z)
					is.SetDebugMode(false)
					hist = append(hist, "SetLevel("+z.String()+") inside the window")
					if !check("after-SetLevel-inside-the-window", z) {
						return
					}
				}
				restoreLevel()
				hist = append(hist, "restore")
				c.R.Add("SaveLevelAndSet_windows", 1)
				if !check("after-the-restore-closure-of-SaveLevelAndSet", x) {
					return
				}
			}
			if old.Level() != oldLevel {
				c.R.Violation(idx, "isolation", "C10/isolation/package-SetLevel", fmt.Sprintf("package SetLevel(%v) changed the level of an existing detached logger from %v to %v", x, oldLevel, old.Level()), nil)
				return
			}
		}
		c.R.NonTrivial(strings.Join(hist, ","), c.Testing)
		c.R.Sample(idx, map[string]any{"testing_mode": c.Testing, "setlevel_sequence": hist}, "package default level followed every SetLevel")
	})
}
