package main

import (
	"context"
	"fmt"
	"hash/fnv"
	"io"
	"runtime"
	"sort"
	"strconv"
	"strings"
	"time"

	"github.com/hedzr/logg/slog"

	"verifharness/gen"
	"verifharness/mon"
	"verifharness/oracle"
)

type Format int

const (
	FJSON Format = iota
	FLogfmt
	FColor
)

func (f Format) String() string { return [...]string{"json", "logfmt", "color"}[f] }

func setFormat(l *slog.Entry, f Format) {
	switch f {
	case FJSON:
		l.SetJSONMode(true)
	case FLogfmt:
		l.SetColorMode(false)
	case FColor:
		l.SetColorMode(true)
	}
}

// newRoot makes a detached logger that writes everything to w.
func newRoot(name string, f Format, w io.Writer, lvl slog.Level) *slog.Entry {
	var l slog.Logger
	if name == "" {
		l = slog.New()
	} else {
		l = slog.New(name)
	}
	e := rawEntry(l)
	e.SetWriter(w).SetErrorWriter(w)
	e.SetLevel(lvl)
	setFormat(e, f)
	return e
}

// rawEntry gets the *Entry of a detached logger without touching any state.
func rawEntry(l slog.Logger) *slog.Entry { return l.Root() }

// levels an application registered under titles that are not plain identifiers (the title is printed as the level
// name of every record of that severity; a title is free text like any other string the library prints)
var hostileTitles = map[slog.Level]string{
	slog.Level(90): `we"ird`, slog.Level(91): `back\slash`, slog.Level(92): "two\nlines\r", slog.Level(93): `x" user="root`, slog.Level(94): "tab\there",
	slog.Level(95): "ctl\x01\x7f", slog.Level(96): "caf\u00e9 \u00fc", slog.Level(97): "bad\xffutf8", slog.Level(98): `</b>&amp;`, slog.Level(99): "\x1b[31mred",
	// titles with capital letters (the title is printed as it was registered), and a severity that is gated like Always
	slog.Level(100): "NOTICE", slog.Level(101): "SeedHint", slog.Level(102): "\u00c4RGER", lvlLikeAlways: "audit-always",
}

// lvlLikeAlways is registered as "treated as Always": that is how it is GATED; its records are records like any other
const lvlLikeAlways = slog.Level(103)

var hostileTitleLevels []slog.Level

// registerHostileTitles registers them once per process (a refused registration is left out of the pool).
func registerHostileTitles() {
	if hostileTitleLevels != nil {
		return
	}
	for l := slog.Level(90); l <= 103; l++ {
		var opts []slog.RegOpt
		if l == lvlLikeAlways {
			opts = append(opts, slog.RegWithTreatedAsLevel(slog.AlwaysLevel))
		}
		if err := slog.RegisterLevel(l, hostileTitles[l], opts...); err == nil {
			hostileTitleLevels = append(hostileTitleLevels, l) // (accepted: from now on the severity carries THAT title)
		}
	}
	gen.ExtraLevels = hostileTitleLevels // a Level handed over as an attribute VALUE prints its title: a string like any other
}

// titleOf is the name a record of that severity carries.
func titleOf(l slog.Level) string {
	if t, ok := hostileTitles[l]; ok {
		return t
	}
	return l.String()
}

// severities nobody registered: a record of such a severity still names it (the name holds the number)
var unregisteredLevels = []slog.Level{slog.Level(17), slog.Level(40), slog.Level(-3), slog.MaxLevel, slog.Level(1 << 20)}

func isUnregistered(l slog.Level) bool {
	for _, u := range unregisteredLevels {
		if u == l {
			return true
		}
	}
	return false
}

// levelNameProblem judges the level name a decoded record carries.
func levelNameProblem(got string, l slog.Level) string {
	if isUnregistered(l) {
		if !strings.Contains(got, strconv.Itoa(int(l))) {
			return fmt.Sprintf("level name %q of an unregistered severity does not hold its number %d", got, int(l))
		}
		return ""
	}
	if got != titleOf(l) {
		return fmt.Sprintf("level name %q, want %q", got, titleOf(l))
	}
	return ""
}

var nonTerminating = []slog.Level{slog.ErrorLevel, slog.WarnLevel, slog.InfoLevel, slog.DebugLevel, slog.TraceLevel, slog.AlwaysLevel, slog.OKLevel, slog.SuccessLevel, slog.FailLevel}

// fixedPC is a stable program counter inside this binary used with WriteThru.
func fixedPC() uintptr {
	var pcs [1]uintptr
	runtime.Callers(1, pcs[:])
	return pcs[0]
}

var thePC = fixedPC()

func attrsOf(kvs []gen.KV) slog.Attrs {
	as := make(slog.Attrs, 0, len(kvs))
	for _, kv := range kvs {
		as = append(as, kv.Attr())
	}
	return as
}

func anyAttrs(kvs []gen.KV) []any {
	as := make([]any, 0, len(kvs))
	for _, kv := range kvs {
		as = append(as, kv.Attr())
	}
	return as
}

// mixedArgs passes about half of the attributes as plain "key", value pairs (also when the value is itself an Attr) and
// the rest as Attr objects; the choice depends on the key only, so that re-runs of a sub-case pass it the same way.
func mixedArgs(kvs []gen.KV) []any {
	as := make([]any, 0, len(kvs)*2)
	for _, kv := range kvs {
		h := fnv.New32a()
		h.Write([]byte(kv.Key))
		plainGroup := kv.Val.Kind == "group" && kv.Val.Go == nil
		pair := h.Sum32()%2 == 0
		if kv.Key == "" {
			pair = currentCase%2 == 0 // the empty key too is given in both forms
		}
		if pair && !plainGroup {
			as = append(as, kv.Key, kv.Val.Go)
		} else if h.Sum32()%5 == 1 && currentCase%3 == 1 {
			// ... or inside a plain []slog.Attr (the unnamed slice type; slog.Attrs is the named one) or an Attrs value
			if h.Sum32()%2 == 1 {
				as = append(as, []slog.Attr{kv.Attr()})
			} else {
				as = append(as, slog.Attrs{kv.Attr()})
			}
		} else {
			as = append(as, kv.Attr())
		}
	}
	return as
}

// withFlags sets the library's global flags for the duration of a case.
func withFlags(add, del slog.Flags) func() {
	saved := slog.GetFlags()
	slog.SetFlags((saved | add) &^ del)
	return func() { slog.SetFlags(saved) }
}

func kindsOf(kvs []gen.KV) []string {
	m := map[string]bool{}
	var walk func(v gen.V)
	walk = func(v gen.V) {
		m[v.Kind] = true
		for _, it := range v.Items {
			walk(it.Val)
		}
	}
	for _, kv := range kvs {
		walk(kv.Val)
	}
	var out []string
	for k := range m {
		out = append(out, k)
	}
	sort.Strings(out)
	return out
}

// strClass classifies a string by the hardest feature it contains (for signatures).
func strClass(s string) string {
	has := func(f func(byte) bool) bool {
		for i := 0; i < len(s); i++ {
			if f(s[i]) {
				return true
			}
		}
		return false
	}
	switch {
	case has(func(b byte) bool { return b == 0x1b }):
		return "esc"
	case has(func(b byte) bool { return b < 0x20 && b != '\n' && b != '\r' && b != '\t' || b == 0x7f }):
		return "ctl"
	case !validUTF8(s):
		return "badutf8"
	case has(func(b byte) bool { return b == '\n' || b == '\r' }):
		return "crlf"
	case has(func(b byte) bool { return b == '"' || b == '\\' }):
		return "quote"
	case has(func(b byte) bool { return b >= 0x80 }):
		return "nonascii"
	case has(func(b byte) bool { return b == ' ' }):
		return "space"
	}
	return "plain"
}

func validUTF8(s string) bool {
	for _, r := range s {
		if r == 0xfffd {
			// could be a genuine U+FFFD; check bytes
			return strings.ToValidUTF8(s, "") == s
		}
	}
	return true
}

func q(s string) string { return strconv.Quote(s) }

func clip(s string, n int) string {
	if len(s) > n {
		return s[:n] + "…"
	}
	return s
}

// capture logs through fn and returns the write events it produced.
func capture(log *mon.Log, fn func()) []mon.Event {
	log.Reset()
	fn()
	return log.Events()
}

var bg = context.Background()

func ts0() time.Time {
	return time.Date(2024, 2, 29, 13, 4, 5, 123456789, time.FixedZone("X", 5*3600+1800))
}

// jsonRecord is the decoded envelope of a JSON record.
func reservedJSON(named bool) map[string]bool {
	m := map[string]bool{"time": true, "level": true, "msg": true, "caller": true}
	if named {
		m["logger"] = true
	}
	return m
}

func describe(f Format, name, msg string, lvl slog.Level, caller bool, kvs []gen.KV) map[string]any {
	return map[string]any{"format": f.String(), "logger_name": q(name), "msg": q(clip(msg, 400)), "level": lvl.String(), "caller": caller, "attrs": gen.DescKVs(kvs)}
}

func fmtEvents(evs []mon.Event) string {
	var sb strings.Builder
	for _, e := range evs {
		switch e.Kind {
		case mon.EvWrite:
			fmt.Fprintf(&sb, "[%s write %s]", e.W, q(clip(string(e.Data), 300)))
		case mon.EvSetLevel:
			fmt.Fprintf(&sb, "[%s setlevel %v]", e.W, e.Lvl)
		default:
			fmt.Fprintf(&sb, "[%s close]", e.W)
		}
	}
	return sb.String()
}

var _ = oracle.ParseLogfmt

// explain attributes the violations of a record to its parts (a cheap delta-debugging
// step that keeps known-finding signatures narrow): every attribute is logged alone;
// those that fail alone are culprits, named by their value class. The record is then
// logged again without the culprits; whatever still fails is the residual, reported
// under its own clause. If nothing fails alone the original violations are the residual.
type culprit struct{ class, detail string }

func explain(cs recCase, run func(recCase) ([]byte, []tv)) (culprits []culprit, residual []tv) {
	seen := map[string]bool{}
	var keep []gen.KV
	for _, kv := range cs.kvs {
		alone := recCase{msg: "m", lvl: slog.InfoLevel, caller: cs.caller, kvs: []gen.KV{kv}}
		if p, v := run(alone); len(v) > 0 {
			cl := culpritClass(kv.Val)
			if !seen[cl] {
				seen[cl] = true
				culprits = append(culprits, culprit{cl, fmt.Sprintf("%s/%s: %s\nrecord with only this attribute: %s", v[0].clause, v[0].feature, v[0].detail, q(clip(string(p), 600)))})
			}
			continue
		}
		keep = append(keep, kv)
	}
	rest := cs
	rest.kvs = keep
	_, residual = run(rest)
	return
}

// culpritClass names an attribute value that fails on its own.
func culpritClass(v gen.V) string {
	if v.Kind == "strs" {
		for _, e := range v.Elems {
			if strings.Contains(e.Text, " ") {
				return "strs-element-with-space"
			}
		}
	}
	if v.Kind == "group" {
		// name the member classes inside
		var walk func(v gen.V) string
		walk = func(v gen.V) string {
			for _, it := range v.Items {
				if it.Val.Kind == "group" {
					if s := walk(it.Val); s != "" {
						return s
					}
				} else if it.Val.Kind == "strs" {
					for _, e := range it.Val.Elems {
						if strings.Contains(e.Text, " ") {
							return "strs-element-with-space"
						}
					}
				}
			}
			return ""
		}
		if s := walk(v); s != "" {
			return s
		}
	}
	return valueClass(v)
}

// randomOtherFlags sets a random combination of the presentation flags that a format property does not
// mention (line number, package name in the caller, date/time parts, local time, privacy, inherit) and
// returns their names. The caller restores the flags (withFlags).
func randomOtherFlags(r *gen.R, keep ...slog.Flags) []string {
	var names []string
	var skip slog.Flags
	for _, k := range keep {
		skip |= k
	}
	for _, f := range []struct {
		b slog.Flags
		n string
	}{{slog.Llineno, "Llineno"}, {slog.Lcallerpackagename, "Lcallerpackagename"}, {slog.Ldate, "Ldate"}, {slog.Ltime, "Ltime"}, {slog.Lmicroseconds, "Lmicroseconds"},
		{slog.LlocalTime, "LlocalTime"}, {slog.Lprivacypath, "Lprivacypath"}, {slog.Lprivacypathregexp, "Lprivacypathregexp"}, {slog.LattrsR, "LattrsR"}} {
		if skip&f.b != 0 {
			continue
		}
		if r.Bool() {
			slog.AddFlags(f.b)
			names = append(names, "+"+f.n)
		} else {
			slog.RemoveFlags(f.b)
			names = append(names, "-"+f.n)
		}
	}
	return names
}

// doomedRecord logs, through a logger of its own, a record one of whose values (inside a group) panics while it is
// being formatted; the application recovers, as a service with a recover middleware does. Nothing of that record may
// show in any later one.
//
// Every other call issues, instead, a record whose LAST attribute (in key order) is a top-level attribute named
// "time" that holds a time.Time - the library's documented special case, printed with the timestamp layout. Nothing of
// that record may show in a later one either.
func doomedRecord(f Format, w io.Writer) {
	lg := newRoot("doomed", f, w, slog.AlwaysLevel)
	if (currentCase/3)%2 == 0 {
		// every other time: a record whose LAST attribute (in key order) is a top-level attribute named "time" that holds a
		// time.Time - the library's documented special case, printed with the timestamp layout
		lg.Info("a record with a top-level time attribute", "a", 1, "time", time.Unix(1700000000, 0))
		return
	}
	defer func() { _ = recover() }()
	lg.Info("doomed", "aa-doomed", 1, "req-doomed", slog.NewGroupedAttrEasy("inner", "user", &panicOnce{}), "zz-doomed", 2)
}

// panicOnce panics the first time it is formatted and prints normally afterwards.
type panicOnce struct{ n int }

func (p *panicOnce) String() string {
	if p.n++; p.n == 1 {
		panic("value that panics while being formatted")
	}
	return "second-time"
}

// randomTimestampOptions gives the logger, in about a third of the cases, a timestamp layout of its own and/or a zone
// mode. These options concern the record's timestamp only (C16); attribute values are rendered as before.
func randomTimestampOptions(r *gen.R, lg *slog.Entry) string {
	d := ""
	if r.P(20) {
		l := gen.Pick(r, []string{time.RFC1123, time.Kitchen, "2006-01-02", time.RFC3339, "15:04:05.000", time.RFC850, "Jan _2 15:04"})
		lg.SetTimeFormat(l)
		d += "layout=" + l
	}
	if r.P(20) {
		u := r.Bool()
		lg.SetUTCMode(u)
		d += fmt.Sprintf(" utc=%v", u)
	}
	if d == "" {
		return "-"
	}
	return d
}
