//go:build verbose

package main

// builtVerbose: this workload (and with it the library) was built with the tag "verbose".
const builtVerbose = true
