package main

import (
	stdslog "log/slog"
	"fmt"
	"os"
	"path/filepath"
	"regexp"
	"runtime"
	"strings"

	"github.com/hedzr/logg/slog"

	"verifharness/gen"
	"verifharness/mon"
)

func init() { reg("C18", "paths", c18paths) }

type rxMap struct {
	expr string
	re   *regexp.Regexp
	repl string
}

func c18paths(c *Ctx) {
	home, _ := os.UserHomeDir()
	cwd, _ := os.Getwd()
	_, thisFile, _, _ := runtime.Caller(0)
	srcDir := filepath.Dir(thisFile)
	log := mon.NewLog()
	w := mon.New(log, "W", mon.ShapePlain)
	// the table the process starts with
	baseMap := map[string]string{home: "~", cwd: "."}
	prefixPool := []string{"/srv/data", "/srv/data/projects", "/srv", "/opt/build/agent-7/work", "/mnt/vol1/users/alice", "/var/lib/ci", "/srv/data/projects/deep/er", home + "/go/src", home + "/work", "/tmp/x y", "/ünï/cödé",
		// directory names are literal text, also when they look like shell variables (one of them is set in this process)
		"/srv/$Recycle.Bin", "/data/ws$BUILD_7781_X/src", "/opt/$STAGE/app", "/var/${HOME}/x",
		// a mapping whose short form is empty (the prefix is dropped altogether)
		"/build/strip-this-prefix", "/mnt/vol1/users/alice/empty",
		// prefixes that are not absolute (file names of a -trimpath build, a checkout next to the working directory, a
		// drive-letter path seen on another system)
		"github.com/acme/private", "../private-checkout", "C:/work/src",
		// long directory names (a CI workspace, a content-addressed store): 63, 64, 65, 128 and 300 bytes
		// a mapping whose replacement is itself a path under ANOTHER registered directory (an alias, a bind mount)
		"/w",
		// a relative prefix (module path of a -trimpath build) whose short form is an absolute path
		"github.com/acme-internal/billing",
		// the directory the Go distribution itself is installed under (a toolchain below $HOME/sdk, a registered tools
		// directory): source files of the standard library are files under a protected prefix like any other
		filepath.Dir(runtime.GOROOT()),
		// directories written with a trailing separator
		"/srv/vault/", "/opt/keys and certs/",
		// directories in a spelling that is not the canonical one (a doubled separator, a dot segment: joined from
		// configuration values) - paths are spelled the same way
		"/srv//ci/builds", "/srv/ci/./cache",
		"/ci/" + strings.Repeat("w", 59), "/ci/" + strings.Repeat("x", 60), "/ci/" + strings.Repeat("y", 61), "/store/" + strings.Repeat("0123456789abcdef", 7) + "/objects", "/deep/" + strings.Repeat("segment-of-a-long-path/", 12) + "end"}
	replPool := []string{"~d", "~p", "$SRV", "~w", "~alice", "CI:", "~deep", "~gosrc", "~work", "~tmp", "~u", "~bin", "~ws", "~stage", "~brace", "", "", "GH:acme", "~pc", "W:", "/srv/data/projects/work", "/billing", "~sdk", "@vault/", "K:", "~dbl", "~dot", "~L63", "~L64", "~L65", "~store", "~long"}
	if len(prefixPool) != len(replPool) {
		panic("harness: prefixPool and replPool differ in length")
	}
	_ = os.Setenv("STAGE", "prod")
	_ = os.Setenv("BUILD_7781_X", "")
	rxPool := []rxMap{{expr: `^/mnt/vol[0-9]+/`, repl: "~vol/"}, {expr: `^/net/[a-z]+/export/`, repl: "~net/"}, {expr: `^/Users/[^/]+/`, repl: "~/"},
		// rules that are not anchored: they also match further down a path that a plain mapping (or the home directory) already shortened
		{expr: `/releases/v[0-9.]+/`, repl: "/rel/"}, {expr: `/node_modules/`, repl: "/nm/"}}
	for i := range rxPool {
		rxPool[i].re = regexp.MustCompile(rxPool[i].expr)
	}
	startCwd := cwd
	emptying := c.X("emptying", "") == "1"
	c.Each(func(idx int, r *gen.R) {
		restore := withFlags(0, 0)
		defer restore()
		// the process may have changed its working directory since start-up: a relative result is relative to where the
		// process is NOW
		cwd := startCwd
		if r.P(8) {
			// the working directory has been removed under the process (os.Getwd fails): hardening does not depend on it
			if d, err := os.MkdirTemp("", "c18-gone-*"); err == nil && os.Chdir(d) == nil {
				_ = os.Remove(d)
				defer func() { _ = os.Chdir(startCwd) }()
				cwd = "/no-working-directory-any-more"
				c.R.Add("cases_with_the_working_directory_removed", 1)
			}
		} else if r.P(30) {
			to := gen.Pick(r, []string{"/usr/lib", "/", filepath.Dir(startCwd), "/tmp", filepath.Dir(filepath.Dir(startCwd))})
			if os.Chdir(to) == nil {
				defer func() { _ = os.Chdir(startCwd) }()
				if d, err := os.Getwd(); err == nil {
					cwd = d
				}
				c.R.Add("cases_after_a_chdir", 1)
			}
		}
		// a log/slog handler and a std log bridge that were built while the privacy flag was OFF (an application that
		// builds its front ends first and reads its configuration afterwards): the flags at the time of a record count
		slog.RemoveFlags(slog.Lprivacypath)
		fFront := Format(r.Intn(3))
		frontLg := newRoot("p18front", fFront, w, slog.AlwaysLevel)
		frontH := slog.NewSlogHandler(frontLg, &slog.HandlerOptions{NoColor: fFront != FColor, JSON: fFront == FJSON, Level: slog.PanicLevel})
		frontBridge := slog.NewLogLogger(frontLg, slog.InfoLevel)
		privacy, rxFlag := r.P(80), r.Bool()
		if privacy {
			slog.AddFlags(slog.Lprivacypath)
		} else {
			slog.RemoveFlags(slog.Lprivacypath)
		}
		if rxFlag {
			slog.AddFlags(slog.Lprivacypathregexp)
		} else {
			slog.RemoveFlags(slog.Lprivacypathregexp)
		}
		// history of add/remove operations in random order (this also changes the map's slot layout)
		table := map[string]string{}
		for k, v := range baseMap {
			table[k] = v
		}
		var rxs []rxMap
		var hist []string
		nops := r.Intn(12)
		added := map[string]bool{}
		emptied := false
		builtinGone := false // the built-in /Volumes/<name>/ rule was taken out of the regexp table
		idxOf := func(k string) int {
			for i, x := range prefixPool {
				if x == k {
					return i
				}
			}
			return 0
		}
		for i := 0; i < nops; i++ {
			opk := r.Intn(12) // (10 and 11: the regexp removals below)
			if opk == 6 && !emptying {
				// (histories that empty the plain table are put back from what the HARNESS knows about the start-up entries; to
				// keep the library's own start-up table in place everywhere else, they run in processes of their own)
				opk = 0
			}
			switch opk {
			case 9:
				// a directory is registered while one of its parents is, then the parent's registration is removed: the inner
				// directory is still a registered one
				pair := gen.Pick(r, [][2]string{{"/srv", "/srv/data"}, {"/srv/data", "/srv/data/projects"}, {"/srv/data/projects", "/srv/data/projects/deep/er"}, {"/mnt/vol1/users/alice", "/mnt/vol1/users/alice/empty"}})
				for _, k := range pair {
					slog.AddKnownPathMapping(k, replPool[idxOf(k)])
					table[k] = replPool[idxOf(k)]
					added[k] = true
				}
				slog.RemoveKnownPathMapping(pair[0])
				delete(table, pair[0])
				hist = append(hist, "add "+pair[0], "add "+pair[1], "remove "+pair[0])
				c.R.Add("histories_that_remove_the_parent_of_a_registered_directory", 1)
			case 6:
				// the plain table is emptied altogether (ResetKnownPathMapping, or both start-up entries removed one by one):
				// the regexp rules and the built-in volume rule are tables of their own and apply as before
				if r.Bool() {
					slog.ResetKnownPathMapping()
					hist = append(hist, "ResetKnownPathMapping()")
				} else {
					for k := range table {
						slog.RemoveKnownPathMapping(k)
					}
					hist = append(hist, "remove every plain mapping")
				}
				for k := range table {
					delete(table, k)
				}
				emptied = true
				c.R.Add("histories_that_empty_the_plain_table", 1)
			case 8:
				// two registered directories whose names differ in letter case only (or by a Unicode case-fold pair): two
				// directories; removing one leaves the other registered
				pair := gen.Pick(r, [][2]string{{"/srv/ci/build", "/srv/ci/Build"}, {"/opt/Work", "/opt/work"}, {"/data/\u212aelvin", "/data/kelvin"}, {"/MNT/share", "/mnt/share"}})
				slog.AddKnownPathMapping(pair[0], "~first")
				slog.AddKnownPathMapping(pair[1], "~second")
				added[pair[0]], added[pair[1]] = true, true
				slog.RemoveKnownPathMapping(pair[0])
				delete(table, pair[0])
				table[pair[1]] = "~second"
				hist = append(hist, "add "+pair[0], "add "+pair[1], "remove "+pair[0])
				c.R.Add("histories_with_two_directories_that_differ_in_letter_case", 1)
			case 0, 1, 2:
				k := r.Intn(len(prefixPool))
				slog.AddKnownPathMapping(prefixPool[k], replPool[k])
				table[prefixPool[k]] = replPool[k]
				added[prefixPool[k]] = true
				hist = append(hist, "add "+prefixPool[k])
			case 3:
				k := prefixPool[r.Intn(len(prefixPool))]
				slog.RemoveKnownPathMapping(k)
				delete(table, k)
				hist = append(hist, "remove "+k)
			case 4:
				x := rxPool[r.Intn(len(rxPool))]
				dup := false
				for _, y := range rxs {
					if y.expr == x.expr {
						dup = true
					}
				}
				if !dup {
					slog.AddKnownPathRegexpMapping(x.expr, x.repl)
					rxs = append(rxs, x)
					hist = append(hist, "addrx "+x.expr)
				}
			case 7:
				// the package-level Reset() restores level and flags; the path tables are not its business
				saved := slog.GetFlags()
				slog.Reset()
				slog.SetFlags(saved)
				hist = append(hist, "Reset()")
				c.R.Add("histories_with_a_package_Reset", 1)
			case 5:
				// a pattern that does not compile: whatever the registration does with it (today it panics, which the
				// caller recovers), it is not a rule, and later queries work as before
				func() {
					defer func() { _ = recover() }()
					slog.AddKnownPathRegexpMapping(gen.Pick(r, []string{"(unclosed", "[a-", "*star", "a{2,1}", "\\"}), "~bad")
				}()
				hist = append(hist, "addrx <invalid pattern>")
				c.R.Add("invalid_patterns_registered", 1)
			default:
				if r.P(25) {
					// the application takes the built-in volume rule out of the regexp table (by its pattern, or by resetting
					// the table): with the regexp flag on, /Volumes/... paths are then paths like any other
					if r.Bool() {
						slog.RemoveKnownPathRegexpMapping(`/Volumes/[^/]+/`)
						hist = append(hist, "removerx <the built-in volume rule>")
					} else {
						slog.ResetKnownPathRegexpMapping()
						rxs = nil
						hist = append(hist, "ResetKnownPathRegexpMapping()")
					}
					builtinGone = true
					c.R.Add("histories_that_remove_the_built_in_volume_rule", 1)
				} else if len(rxs) > 0 {
					k := r.Intn(len(rxs))
					slog.RemoveKnownPathRegexpMapping(rxs[k].expr)
					hist = append(hist, "removerx "+rxs[k].expr)
					rxs = append(rxs[:k], rxs[k+1:]...)
				}
			}
		}
		cleanup := func() {
			for k := range added {
				slog.RemoveKnownPathMapping(k)
			}
			if emptied {
				for k, v := range baseMap { // the table the process started with
					slog.AddKnownPathMapping(k, v)
				}
			}
			for _, x := range rxs {
				slog.RemoveKnownPathRegexpMapping(x.expr)
			}
			if builtinGone {
				slog.AddKnownPathRegexpMapping(`/Volumes/[^/]+/`, "~") // as the package registers it at start-up
			}
		}
		defer cleanup()
		allRx := append([]rxMap{{expr: `/Volumes/[^/]+/`, re: regexp.MustCompile(`/Volumes/[^/]+/`), repl: "~"}}, rxs...)
		if builtinGone {
			allRx = rxs
		}
		// queries
		var keys []string
		for k := range table {
			keys = append(keys, k)
		}
		if len(keys) == 0 {
			keys = []string{"/nothing/is/registered/any/more"} // (the plain table was emptied: such a path is outside every plain mapping)
		}
		nq := 12
		c.R.AddEvals(int64(nq) - 1) // every query is judged on its own
		for qi := 0; qi < nq; qi++ {
			var p string
			switch r.Intn(12) {
			case 10: // outside every mapping but close to the start-up directory / the current directory
				p = gen.Pick(r, []string{filepath.Join(filepath.Dir(startCwd), "sibling", "x.go"), filepath.Join(filepath.Dir(filepath.Dir(startCwd)), "y.go"), filepath.Join(filepath.Dir(cwd), "sib2", "z.go"), filepath.Join(cwd, "below", "w.go")})
			case 11: // under a protected prefix AND matched further down by a rule that is not anchored
				k := gen.Pick(r, keys)
				p = k + gen.Pick(r, []string{"/mnt/Volumes/ext1/proj/main.go", "/releases/v1.2.3/cmd/x.go", "/web/node_modules/left-pad/index.go", "/a/releases/v2/Volumes/v/b.go"})
			case 0, 1, 2, 3: // under a protected prefix
				k := gen.Pick(r, keys)
				p = strings.TrimSuffix(k, "/") + "/" + gen.Pick(r, []string{"main.go", "pkg/util/x.go", "a b/c.go", "ünï/file.go", "deep/er/and/deeper/f.go", ".hidden/z.go",
					// entries whose names START with two dots (the ..data / ..<timestamp> directories of projected volumes, ..tmp of editors)
					"..data/app/main.go", "...tmp/main.go", "..2024_05_01_12_00_00.123456789/hook.go", "..data",
					// (under the directory of the Go distribution this is a source file of the standard library)
					filepath.Base(runtime.GOROOT()) + "/src/sync/once.go", filepath.Base(runtime.GOROOT()) + "/src/net/http/server.go"})
			case 4: // the prefix itself
				p = gen.Pick(r, keys)
			case 5: // near miss
				p = gen.Pick(r, keys) + "x/main.go"
			case 6: // regexp territory
				p = gen.Pick(r, []string{"/mnt/vol12/src/a.go", "/net/fs/export/proj/b.go", "/Users/bob/code/c.go", "/Volumes/Work/repo/d.go", "/Volumes/", "/Volumes/x",
					// paths that SEVERAL rules match (an anchored directory rule and one or two rules for segments further down)
					"/mnt/vol3/web/node_modules/left-pad/i.go", "/Users/bob/releases/v1.2/x.go", "/net/fs/export/releases/v2.0/node_modules/y.go", "/mnt/vol1/releases/v3/z.go",
					// paths that BEGIN with what a rule without an anchor matches (rules that may be registered, removed again, or
					// switched off with the regexp flag by then)
					"/node_modules/left-pad/index.go", "/releases/v1.2.3/cmd/x.go", "/node_modules/", "/Volumes/Work/releases/v2/node_modules/z.go"})
			case 7: // outside everything
				p = gen.Pick(r, []string{"/usr/lib/go/src/fmt/print.go", "/etc/hosts", "/", "/a", "/usr/../usr/lib/x.go", "/usr/lib/", "//double//slash.go"})
			case 8: // relative and odd
				p = gen.Pick(r, []string{"", ".", "..", "rel/file.go", "./rel.go", "../up.go", "~/tilde.go", " ", "a/../b.go", strings.Repeat("long/", 200) + "f.go"})
			default: // below the working directory
				p = filepath.Join(cwd, gen.Pick(r, []string{"x.go", "sub/y.go"}))
			}
			outs := map[string]int{}
			for rep := 0; rep < 32; rep++ {
				var got string
				if rep%8 == 7 {
					got = slog.SafetyFiles([]string{p})[0]
				} else {
					got = slog.Safety(p)
				}
				outs[got]++
				c.R.Add("queries", 1)
			}
			c.R.Max("max_distinct_outputs_for_one_query", int64(len(outs)))
			if len(outs) > 1 {
				c.R.Add("queries_with_order_dependent_output", 1)
			}
			desc := map[string]any{"path": p, "privacy_flag": privacy, "regexp_flag": rxFlag, "table": table, "regexps": rxNames(rxs), "history": hist, "cwd": cwd, "start_up_cwd": startCwd, "home": home}
			for got := range outs {
				if cl, feat, why := c18judge(p, got, privacy, rxFlag, table, allRx, cwd); cl != "" {
					c.R.Violation(idx, cl, "C18/"+cl+"/"+feat, fmt.Sprintf("Safety(%q) = %q: %s (distinct outputs over 32 calls: %v)", p, got, why, outs), desc)
					return
				}
			}
			c.R.NonTrivial(p, fmt.Sprint(table), fmt.Sprint(rxNames(rxs)), privacy, rxFlag)
			if c.R.WantSample() && len(table) > 2 {
				c.R.Sample(idx, desc, map[string]any{"outputs": outs})
			}
		}
		// the caller field of a record when the harness's own source directory is a protected prefix
		if privacy && r.P(50) {
			slog.AddKnownPathMapping(srcDir, "~harness")
			slog.AddFlags(slog.Lcaller)
			f := Format(r.Intn(3))
			lg := newRoot("p18", f, w, slog.AlwaysLevel)
			site := func() { lg.Info("caller-path-probe") } // ONE call site, used several times
			if r.Bool() {
				// first from inside a window in which the privacy flag is temporarily off (SaveFlagsAndMod and its
				// restore closure), then - flag restored - from the same statement again
				restoreWindow := slog.SaveFlagsAndMod(slog.Lempty, slog.Lprivacypath)
				_ = capture(log, site)
				restoreWindow()
				c.R.Add("caller_fields_checked_after_a_flag_window", 1)
			}
			evs := capture(log, site)
			judgeCaller := func(how string, f Format, evs []mon.Event) bool {
				if len(evs) != 1 {
					return true
				}
				d, err := decodeRecord(f, evs[0].Data, true, true)
				if err != nil {
					return true
				}
				file := d.Caller["file"]
				c.R.Add("caller_fields_checked", 1)
				if file == srcDir || strings.HasPrefix(file, srcDir+"/") || !(strings.HasPrefix(file, "~harness") || !filepath.IsAbs(file)) {
					c.R.Violation(idx, "caller-field", "C18/caller-field/prefix-leak/"+how, fmt.Sprintf("%s: caller.file = %q although %q is registered as a protected prefix and the privacy flag is on", how, file, srcDir), map[string]any{"format": f.String()})
					return false
				}
				return true
			}
			ok := judgeCaller("native call", f, evs)
			if ok {
				// ... from a function small enough to be inlined into this one (the frame of the record is an inlined one)
				ok = judgeCaller("native call from an inlined function", f, capture(log, func() { c18inlined(lg) }))
			}
			if ok {
				sl := stdslog.New(frontH)
				ok = judgeCaller("log/slog handler built before the flag was switched on", fFront, capture(log, func() { sl.Info("caller-path-probe") }))
				c.R.Add("caller_fields_checked_through_front_ends_built_earlier", 1)
			}
			if ok {
				judgeCaller("std log bridge built before the flag was switched on", fFront, capture(log, func() { frontBridge.Print("caller-path-probe") }))
			}
			slog.RemoveKnownPathMapping(srcDir)
		}
	})
}

// c18inlined is small enough for the compiler to inline it into its caller.
func c18inlined(lg *slog.Entry) { lg.Info("caller-path-probe") }

func rxNames(rxs []rxMap) []string {
	var s []string
	for _, x := range rxs {
		s = append(s, x.expr+"=>"+x.repl)
	}
	return s
}

// under: p is the registered directory k or lies below it (a key written with a trailing separator covers what lies
// below it).
func under(p, k string) bool {
	if strings.HasSuffix(k, "/") {
		return strings.HasPrefix(p, k)
	}
	return p == k || strings.HasPrefix(p, k+"/")
}

func c18judge(p, got string, privacy, rxFlag bool, table map[string]string, rxs []rxMap, cwd string) (clause, feature, why string) {
	stringPrefixed := false
	var applicable []string // short forms of the mappings the path lies under
	var shortForms []string
	protected := ""
	if privacy {
		for k, v := range table {
			if k == "" {
				continue
			}
			if strings.HasPrefix(p, k) {
				stringPrefixed = true
				shortForms = append(shortForms, v) // the library matches by string prefix; the short form of any such mapping may lead the result
			}
			if under(p, k) {
				applicable = append(applicable, v)
				if under(got, k) {
					protected = k
				}
			}
		}
		// a short form may itself lie under another registered directory: then that mapping's short form may lead the
		// result as well (whether it does depends on the order in which the table is walked)
		frontier := []string{p}
		for depth := 0; depth < 3; depth++ {
			var next []string
			for _, cur := range frontier {
				for k, v := range table {
					if k != "" && strings.HasPrefix(cur, k) {
						shortForms = append(shortForms, v)
						next = append(next, v+cur[len(k):])
					}
				}
			}
			frontier = next
		}
	}
	if protected != "" {
		return "prefix-leak", "string-mapping", fmt.Sprintf("the path lies under the protected prefix %q and is reported with it", protected)
	}
	rxMatched := false
	if privacy {
		for _, x := range rxs {
			if !rxFlag {
				continue
			}
			if loc := x.re.FindStringIndex(p); loc != nil {
				rxMatched = true
				if loc[0] == 0 && strings.HasPrefix(got, p[:loc[1]]) {
					return "prefix-leak", "regexp-mapping", fmt.Sprintf("the path starts with %q, which the regexp mapping %s protects, and is reported with it", p[:loc[1]], x.expr)
				}
			}
		}
		if !rxFlag && strings.HasPrefix(p, "/Volumes/") {
			rxMatched = true // the built-in volume rule applies without the regexp flag
		}
	}
	if len(applicable) > 0 {
		ok := false
		for _, v := range shortForms {
			if strings.HasPrefix(got, v) {
				ok = true
			}
		}
		// a relative path that is shorter and resolves to the same file is as good as a short form
		if !ok && !filepath.IsAbs(got) && got != "" && filepath.Clean(filepath.Join(cwd, got)) == filepath.Clean(p) {
			ok = true
		}
		if !ok && !rxMatched {
			return "short-form", "missing", fmt.Sprintf("the path lies under a mapping with short form(s) %v but the result starts with none of them", applicable)
		}
		return "", "", ""
	}
	if !stringPrefixed && !rxMatched {
		if got == p {
			return "", "", ""
		}
		if len(got) < len(p) && !filepath.IsAbs(got) && filepath.Clean(filepath.Join(cwd, got)) == filepath.Clean(p) {
			return "", "", ""
		}
		return "outside-mappings", "changed", "no mapping applies to this path, yet the result is neither the input nor a shorter relative path to the same file"
	}
	return "", "", ""
}
