package main

import (
	"errors"
	"bytes"
	"context"
	"encoding/json"
	"fmt"
	"io"
	stdslog "log/slog"
	"os"
	"runtime"
	"os/exec"
	"strings"
	"syscall"
	"time"

	"github.com/hedzr/is/term/color"
	"github.com/hedzr/logg/slog"

	"verifharness/gen"
)

func init() {
	reg("C12", "matrix", c12matrix)
	reg("C12", "negative", c12negative)
}

type c12case struct {
	Entry   string `json:"entry"`
	Sev     string `json:"severity"` // panic | fatal
	NoInt   bool   `json:"no_interrupt_flag"`
	Always  bool   `json:"interrupt_always_flag"`
	Testing bool   `json:"under_go_test"`
	Admit   bool   `json:"admitted"`
	Deny    string `json:"denied_by,omitempty"` // off | level (logger one step more severe than the record; only possible for Fatal)
	Format  string `json:"format"`
	Kind    string `json:"logger"`                       // root | child | default
	Huge    bool   `json:"huge_argument_list,omitempty"` // 1100 arguments instead of 4
	Bench   bool   `json:"production_process_with_a_-bench_argument,omitempty"`
	// how the two flags got their values: "" = AddFlags/RemoveFlags; "set" = SetFlags; "window-restored" = set, then the
	// opposite values inside a SaveFlagsAndMod window whose restore closure ran; "window-active" = the opposite values
	// first, then the wanted ones inside a SaveFlagsAndMod window that is still open
	FlagHist string `json:"flag_history,omitempty"`
	// the destination stores the record and then reports an error (a disk that fills up, a sync that fails): the
	// termination rule does not depend on the writer's verdict
	FailingWriter bool `json:"destination_reports_an_error,omitempty"`
	// context keys are registered on the logger and the call passes a nil context (where the entry point takes one)
	NilCtxKeys bool `json:"nil_context_and_registered_context_keys,omitempty"`
	// the package level was set to Off (slog.SetLevel) BEFORE this logger became the default one: the default logger's
	// own level decides for the package-level functions
	PkgLevelOff bool `json:"package_level_off_before_setdefault,omitempty"`
	// a go test process that rewrites os.Args at run time (CLI tests do) is still a go test process
	RewriteArgs bool `json:"os_args_rewritten_at_run_time,omitempty"`
	// a per-level writer for the severity was added and removed again: the class device applies
	LevelWriterGone bool `json:"level_writer_added_and_removed,omitempty"`
	// the message ends in line breaks (the panic value is the message, byte for byte)
	TrailingBreaks bool `json:"message_ends_in_line_breaks,omitempty"`
	// an earlier Panic on the same logger was recovered by the application before this call
	AfterRecoveredPanic bool `json:"after_an_earlier_recovered_panic,omitempty"`
	// the application took the colours of the severity away: SetLevelColors(severity, NoColor, NoColor)
	NoColours bool `json:"severity_colours_set_to_none,omitempty"`
	// the message holds markup (a closing tag, a character entity): the panic value is the message as passed
	MarkupMsg bool `json:"message_holds_markup,omitempty"`
	// while the call is made, another goroutine's record on the SAME logger sits inside a destination that does not
	// return (the Panic / Fatal record itself goes to another, healthy destination of that logger)
	BusyLogger bool `json:"another_record_of_the_logger_is_inside_a_blocked_write,omitempty"`
	// where the logger's error device leads: "" = an unbuffered file of the harness; "file-writer" = a log file made by
	// slog.NewFileWriter (the record is there when the process is gone); "dead-first" = two destinations, the first of
	// which reports an error for every write (a closed stderr, a dead sink) - the record reaches the other one;
	// "discard" = io.Discard; "none" = the only destination was removed again. The termination rule is the same.
	Dest string `json:"error_device,omitempty"`
	// the caller flag and the flag that keeps the package path in the caller's function name are set (the call site lies
	// in package main, whose functions have no slash in their names): presentation, no input of the termination rule
	CallerPkg bool `json:"caller_with_package_name_flags,omitempty"`
	// the logger was Closed (end of a phase, a deferred Close in a helper) before the call: its writers are what they were
	AfterClose bool `json:"logger_closed_before_the_call,omitempty"`
	// a nil writer was handed to SetWriter / SetErrorWriter after the real ones (an optional sink that is not configured)
	NilWriter bool `json:"nil_writer_set_after_the_real_ones,omitempty"`
	// package entry points: the default logger is a CHILD whose level is the one of the cell while its root sits at the
	// opposite end (Off when the child admits, Always when it does not)
	DefChild bool `json:"default_logger_is_a_child_of_a_root_at_the_opposite_level,omitempty"`
	// the logger is an ordinary child of a logger that was made with a log/slog handler among the arguments of New
	HandlerParent bool `json:"child_of_a_logger_made_with_a_handler_argument,omitempty"`
	// the call carries two attributes of an application type that implements the Attr interface by VALUE and cannot be
	// compared with == (a func field); their keys sort next to each other
	UserAttrs bool `json:"two_uncomparable_user_attrs_with_adjacent_keys,omitempty"`
	// the logger has registered context keys, the context holds values for them and is already cancelled (the shutdown path)
	DoneCtxKeys bool `json:"context_keys_and_a_cancelled_context,omitempty"`
	// the destination reported "file already closed" (wrapped) for ONE earlier record - a log file in the middle of its
	// rotation - and works again since
	ClosedOnce bool `json:"destination_reported_closed_for_one_earlier_record,omitempty"`
	// the message begins with a line break
	LeadingBreak bool `json:"message_begins_with_a_line_break,omitempty"`
	// the inherit flag is on and the logger is the last of a chain root (one attribute) -> middle (none) -> logger (one):
	// the record carries the root's attribute too
	InheritChain bool `json:"inherit_flag_and_a_bare_logger_in_the_middle_of_the_chain,omitempty"`
	// the message has three lines, the second of them 64 KiB long or longer: the record is complete all the same
	LongLine bool `json:"message_with_a_continuation_line_of_64KiB_or_more,omitempty"`
	// the caller flag was taken away (records without the caller column): presentation, the record is as complete as before
	NoCaller bool `json:"caller_flag_removed,omitempty"`
	// the application gave the source file of the call site a short name (AddKnownPathMapping with the FILE as the path,
	// as one does for a generated or vendored file): presentation
	KnownFile bool `json:"known_path_mapping_for_the_source_file_of_the_call_site,omitempty"`
}

// c12longTail is what follows the base text in the LongLine cells
var c12longTail = "\n" + strings.Repeat("0123456789abcdef", 4097) + "\nc12-last-line"

// closedOnceW reports a wrapped os.ErrClosed for its first Write and stores what it is handed ever after.
type closedOnceW struct {
	f    *os.File
	seen bool
}

func (w *closedOnceW) Write(p []byte) (int, error) {
	if !w.seen {
		w.seen = true
		return 0, fmt.Errorf("write app.log (rotating): %w", os.ErrClosed)
	}
	return w.f.Write(p)
}

// muteW takes nothing and reports no error either.
type muteW struct{}

func (muteW) Write(p []byte) (int, error) { return 0, nil }

// selfRemovingW fails and takes itself out of the logger's error device from inside that very Write (a sink that
// unregisters itself when its connection is gone).
type selfRemovingW struct{ lg *slog.Entry }

func (w *selfRemovingW) Write(p []byte) (int, error) {
	w.lg.RemoveErrorWriter(w)
	w.lg.RemoveWriter(w)
	return 0, errors.New("write: connection reset by peer (injected; the sink has unregistered itself)")
}


// deadW takes nothing and says so.
type deadW struct{}

func (deadW) Write(p []byte) (int, error) { return 0, errors.New("write: broken pipe (injected)") }

// failAfterStore writes the payload through and reports an error all the same.
// blockingW signals that a Write has begun and never returns from it.
type blockingW struct{ entered chan struct{} }

func (w blockingW) Write(p []byte) (int, error) {
	close(w.entered)
	select {}
}

type failAfterStore struct{ f *os.File }

func (w failAfterStore) Write(p []byte) (int, error) {
	n, _ := w.f.Write(p)
	return n, errors.New("write: no space left on device (injected after the bytes were stored)")
}

var c12entries = []string{"verb", "ctxverb", "LogAttrs", "Logit", "Log(std)", "pkg.verb", "pkg.ctxverb"}

func c12enumerate() []c12case {
	var out []c12case
	for _, e := range c12entries {
		for _, sev := range []string{"panic", "fatal"} {
			for _, noint := range []bool{false, true} {
				for _, always := range []bool{false, true} {
					for _, testing := range []bool{false, true} {
						for _, admit := range []string{"yes", "off", "level"} {
							if admit == "level" && sev == "panic" {
								continue // nothing is more severe than Panic
							}
							for _, f := range []string{"json", "logfmt", "color"} {
								for _, k := range []string{"root", "child", "default"} {
									if strings.HasPrefix(e, "pkg.") != (k == "default") {
										continue
									}
									deny := ""
									if admit != "yes" {
										deny = admit
									}
									out = append(out, c12case{Entry: e, Sev: sev, NoInt: noint, Always: always, Testing: testing, Admit: admit == "yes", Deny: deny, Format: f, Kind: k})
								}
							}
						}
					}
				}
			}
		}
	}
	// extra cells, appended so that the base matrix keeps its indices
	base := append([]c12case(nil), out...)
	for _, b := range base {
		if b.Format == "logfmt" && b.Admit {
			h := b
			h.Huge = true // the same cell with a very long argument list (above the pooled size hints)
			out = append(out, h)
		}
	}
	for _, b := range base {
		if !b.Testing && b.Format == "json" {
			x := b
			x.Bench = true // a production process that happens to carry an argument starting with -bench is still a production process
			out = append(out, x)
		}
	}
	// a destination that reports an error, and a nil context on a logger with registered context keys
	m := 0
	for _, b := range base {
		if b.Format == "json" && b.Admit {
			x := b
			x.FailingWriter = true
			y := b
			y.NilCtxKeys = true
			if m%2 == 0 {
				out = append(out, x, y)
			} else {
				out = append(out, y, x)
			}
			m++
		}
	}
	// package level Off before SetDefault (package entry points), os.Args rewritten (go test processes), a level writer
	// added and removed (all)
	k := 0
	for _, b := range base {
		if b.Format != "logfmt" || !b.Admit {
			continue
		}
		var xs []c12case
		if strings.HasPrefix(b.Entry, "pkg.") {
			x := b
			x.PkgLevelOff = true
			xs = append(xs, x)
		}
		if b.Testing {
			x := b
			x.RewriteArgs = true
			xs = append(xs, x)
		}
		x := b
		x.LevelWriterGone = true
		xs = append(xs, x)
		if b.Sev == "panic" {
			y := b
			y.TrailingBreaks = true
			xs = append(xs, y)
		}
		z := b
		z.AfterRecoveredPanic = true
		xs = append(xs, z)
		if k%2 == 1 && len(xs) > 1 {
			xs[0], xs[len(xs)-1] = xs[len(xs)-1], xs[0]
		}
		out = append(out, xs...)
		k++
	}
	// the flag values are what counts, not the idiom that produced them
	n := 0
	for _, b := range base {
		if b.Format == "color" && b.Admit {
			x := b
			x.FlagHist = "window-restored"
			y := b
			y.FlagHist = []string{"set", "window-active"}[n%2]
			if n%4 < 2 { // the quick tier takes every second cell: both parities see all three idioms
				out = append(out, x, y)
			} else {
				out = append(out, y, x)
			}
			n++
		}
	}
	// the colours of a severity are presentation: a Panic / Fatal severity without any colour terminates like any other
	for _, b := range base {
		if b.Format == "color" && b.Admit {
			x := b
			x.NoColours = true
			out = append(out, x)
		}
	}
	for _, b := range base {
		if b.Format == "color" && b.Admit && b.Sev == "panic" {
			x := b
			x.MarkupMsg = true
			out = append(out, x)
		}
	}
	for _, b := range base {
		if b.Format == "json" && b.Admit {
			x := b
			x.BusyLogger = true
			out = append(out, x)
		}
	}
	// where the error device leads: two of the four variants per cell, rotating (both parities see all four)
	d := 0
	for _, b := range base {
		if b.Format == "logfmt" && b.Admit {
			dests := []string{"file-writer", "dead-first", "discard", "none"}
			x, y := b, b
			x.Dest, y.Dest = dests[(d/2+d)%4], dests[(d/2+d+2)%4]
			out = append(out, x, y)
			d++
		}
	}
	// round 10: a first destination that takes nothing without saying so, one that unregisters itself from inside its
	// failing Write (the record reaches the healthy one behind it in both cases); caller + package-name flags
	d = 0
	for _, b := range base {
		if b.Format == "color" && b.Admit {
			x, y := b, b
			x.Dest = []string{"mute-first", "self-removing-first"}[d%2]
			y.CallerPkg = true
			if d%4 < 2 {
				out = append(out, x, y)
			} else {
				out = append(out, y, x)
			}
			d++
		}
	}
	// round 11: a logger that was Closed before the call, a nil writer set after the real ones; package entry points with a
	// child as the default logger
	d = 0
	for _, b := range base {
		if b.Format == "logfmt" && b.Admit {
			x, y := b, b
			x.AfterClose, y.NilWriter = true, true
			if d%2 == 0 { // the quick tier takes every second cell: both parities see both kinds
				out = append(out, x, y)
			} else {
				out = append(out, y, x)
			}
			d++
		}
	}
	for _, b := range base {
		if b.Format == "json" && strings.HasPrefix(b.Entry, "pkg.") {
			x := b
			x.DefChild = true
			out = append(out, x)
		}
	}
	// round 12: a child of a handler-made logger, application-defined attributes that cannot be compared, registered
	// context keys with a cancelled context (rotating: both parities of the quick sample see all three kinds)
	d = 0
	for _, b := range base {
		if b.Format == "json" && b.Admit {
			xs := []c12case{b, b, b}
			xs[d%3].HandlerParent, xs[(d+1)%3].UserAttrs, xs[(d+2)%3].DoneCtxKeys = true, true, true
			out = append(out, xs...)
			d++
		}
	}
	// round 13: a destination that said "closed" once, a message that begins with a line break, the inherit flag with a
	// bare logger in the middle of the chain
	d = 0
	for _, b := range base {
		if b.Format == "color" && b.Admit {
			xs := []c12case{b, b, b}
			xs[d%3].ClosedOnce, xs[(d+1)%3].LeadingBreak, xs[(d+2)%3].InheritChain = true, true, true
			out = append(out, xs...)
			d++
		}
	}
	// round 14: a message whose second line is 64 KiB or longer (colored cells)
	for _, b := range base {
		if b.Format == "color" && b.Admit {
			x := b
			x.LongLine = true
			out = append(out, x)
		}
	}
	// round 16: the same three-line message without the caller column; a known-path mapping that names the very file of
	// the call site (every format)
	d = 0
	for _, b := range base {
		if b.Format == "color" && b.Admit {
			x := b
			x.LongLine, x.NoCaller = true, true
			out = append(out, x)
		}
		if b.Admit && d%2 == 0 {
			x := b
			x.KnownFile = true
			out = append(out, x)
		}
		if b.Admit {
			d++
		}
	}
	return out
}

// c12userAttrs: the call of this probe process carries two application-defined attributes
var c12userAttrs bool

type c12result struct {
	Returned bool   `json:"returned"`
	Panicked bool   `json:"panicked"`
	Value    string `json:"panic_value"`
	ValueT   string `json:"panic_type"`
}

const c12msgBase = "c12-terminating-message #id42#"

// c12markup: what the colored format treats as markup; a panic value is not a colored record
const c12markup = " <b>bold</b> &amp; done"

// c12msg is the message of the current probe process (the base text, or the base text with trailing line breaks).
var c12msg = c12msgBase

// c12exec is the probe process: it performs exactly one call and reports what it could observe itself.
func c12exec(c *Ctx, out string) {
	var cs c12case
	if err := json.Unmarshal([]byte(c.X("case", "")), &cs); err != nil {
		fmt.Fprintln(os.Stderr, "harness usage error: bad case", err)
		os.Exit(3)
	}
	f, err := os.OpenFile(out+".rec", os.O_CREATE|os.O_WRONLY|os.O_TRUNC, 0o644) // unbuffered: what is in the file was written before the process died
	if err != nil {
		fmt.Fprintln(os.Stderr, "harness usage error:", err)
		os.Exit(3)
	}
	var add, rem slog.Flags
	if cs.NoInt {
		add |= slog.LnoInterrupt
	} else {
		rem |= slog.LnoInterrupt
	}
	if cs.Always {
		add |= slog.Linterruptalways
	} else {
		rem |= slog.Linterruptalways
	}
	direct := func(add, rem slog.Flags) {
		slog.AddFlags(add)
		slog.RemoveFlags(rem)
	}
	switch cs.FlagHist {
	case "set":
		slog.SetFlags((slog.GetFlags() | add) &^ rem)
	case "window-restored":
		direct(add, rem)
		restore := slog.SaveFlagsAndMod(rem, add) // the opposite values, temporarily
		quiet := slog.New("inside-window").Root()
		quiet.SetWriter(io.Discard).SetErrorWriter(io.Discard).SetLevel(slog.AlwaysLevel)
		quiet.Info("a record inside the window")
		restore()
	case "window-active":
		direct(rem, add)
		_ = slog.SaveFlagsAndMod(add, rem) // still open when the call is made
	default:
		direct(add, rem)
	}
	if got := slog.GetFlags(); (got&slog.LnoInterrupt != 0) != cs.NoInt || (got&slog.Linterruptalways != 0) != cs.Always {
		fmt.Fprintln(os.Stderr, "harness usage error: flags not established", got)
		os.Exit(3)
	}
	if cs.CallerPkg {
		slog.AddFlags(slog.Lcaller | slog.Lcallerpackagename)
	}
	if cs.TrailingBreaks {
		c12msg = c12msgBase + "\r\n\n"
	}
	if cs.MarkupMsg {
		c12msg = c12msgBase + c12markup
	}
	if cs.LeadingBreak {
		c12msg = "\n" + c12msgBase
	}
	if cs.NoCaller {
		slog.RemoveFlags(slog.Lcaller)
	}
	if cs.KnownFile {
		_, file, _, _ := runtime.Caller(0) // (the calls of this probe process are made in this file)
		slog.AddKnownPathMapping(file, "c12-call-site.go")
	}
	if cs.LongLine {
		c12msg = c12msgBase + c12longTail
	}
	if cs.InheritChain {
		slog.AddFlags(slog.LattrsR)
	}
	if cs.PkgLevelOff {
		slog.SetLevel(slog.OffLevel)
	}
	if cs.RewriteArgs {
		os.Args = []string{"myapp", "serve", "--port", "8080"}
	}
	var lgL slog.Logger = slog.New("c12")
	lg := lgL.Root()
	if cs.HandlerParent {
		lg = slog.New("made-with-a-handler", stdslog.NewTextHandler(io.Discard, nil)).Root().New("c12")
		lgL = lg
	}
	if cs.InheritChain {
		lg.Set("top", "inherited-from-the-root")
		lg = lg.New("bare-middle")
		lgL = lg
	}
	if cs.Kind == "child" || cs.InheritChain {
		lg = lg.New("kid")
		if cs.InheritChain {
			lg.Set("own", "of-the-logger")
			lgL = lg
		}
	}
	var defRoot *slog.Entry
	if cs.DefChild {
		defRoot = lg
		lg = lg.New("default-child")
		lgL = lg
	}
	lg.SetWriter(f).SetErrorWriter(f)
	if cs.FailingWriter {
		lg.SetWriter(failAfterStore{f}).SetErrorWriter(failAfterStore{f})
	}
	if cs.ClosedOnce {
		cw := &closedOnceW{f: f}
		lg.SetWriter(cw).SetErrorWriter(cw)
		lg.SetLevel(slog.AlwaysLevel)
		lg.Error("an earlier record, while the log file was being rotated") // (error class, like the call under test) the destination says "closed" for this one
	}
	switch cs.Dest {
	case "file-writer":
		fw := slog.NewFileWriter(out + ".rec") // the same (still empty) file, opened by the library
		lg.SetWriter(fw).SetErrorWriter(fw)
	case "dead-first":
		lg.SetWriter(deadW{}).SetErrorWriter(deadW{})
		lg.AddWriter(f).AddErrorWriter(f)
	case "mute-first":
		lg.SetWriter(muteW{}).SetErrorWriter(muteW{})
		lg.AddWriter(f).AddErrorWriter(f)
	case "self-removing-first":
		sr := &selfRemovingW{lg}
		lg.SetWriter(sr).SetErrorWriter(sr)
		lg.AddWriter(f).AddErrorWriter(f)
	case "discard":
		lg.SetErrorWriter(io.Discard)
	case "none":
		lg.SetErrorWriter(f)
		lg.RemoveErrorWriter(f)
	}
	if cs.NilCtxKeys || cs.DoneCtxKeys {
		lg.SetContextKeys("rid", "uid")
	}
	switch cs.Format {
	case "json":
		lg.SetJSONMode(true)
	case "logfmt":
		lg.SetColorMode(false)
	default:
		lg.SetColorMode(true)
	}
	switch {
	case cs.Admit:
		lg.SetLevel(slog.InfoLevel)
	case cs.Deny == "level":
		lg.SetLevel(slog.PanicLevel) // admits Panic only: a Fatal record is below the threshold
	default:
		lg.SetLevel(slog.OffLevel)
	}
	if defRoot != nil {
		if cs.Admit {
			defRoot.SetLevel(slog.OffLevel)
		} else {
			defRoot.SetLevel(slog.AlwaysLevel)
		}
		defRoot.SetWriter(f).SetErrorWriter(f)
	}
	if cs.NilWriter {
		lg.SetWriter(nil).SetErrorWriter(nil)
	}
	if cs.AfterClose {
		// the logger keeps the standard devices and owns one more destination (a file of its own); then it is Closed.
		// Whatever Close releases, the standard devices are not its to take away: the record is on the process's stderr
		aux, _ := os.OpenFile(out+".aux", os.O_CREATE|os.O_WRONLY|os.O_TRUNC, 0o644)
		lg.ResetWriters()
		lg.AddWriter(aux).AddErrorWriter(aux)
		lg.Close()
	}
	if cs.LevelWriterGone {
		decoy := failAfterStore{f} // never written to: it is removed again
		for _, l := range []slog.Level{slog.PanicLevel, slog.FatalLevel} {
			lg.AddLevelWriter(l, decoy)
			lg.RemoveLevelWriter(l, decoy)
		}
	}
	if cs.Kind == "default" {
		slog.SetDefault(lgL)
	}
	sev := slog.PanicLevel
	std := slog.LevelPanic
	if cs.Sev == "fatal" {
		sev, std = slog.FatalLevel, slog.LevelFatal
	}
	ctx := context.Background()
	if cs.NilCtxKeys {
		ctx = nil
	}
	if cs.DoneCtxKeys {
		cctx, cancel := context.WithCancel(context.WithValue(context.WithValue(ctx, "rid", "r-1"), "uid", "u-7")) //nolint:staticcheck // string keys are what the library documents
		cancel()
		ctx = cctx
	}
	c12userAttrs = cs.UserAttrs
	if cs.NoColours {
		slog.SetLevelColors(sev, color.NoColor, color.NoColor)
	}
	if cs.BusyLogger {
		// an Info record of the same logger is inside its normal destination, which does not return
		entered := make(chan struct{})
		lg.SetWriter(blockingW{entered})
		go lg.Info("a record whose destination does not return")
		<-entered
	}
	if cs.AfterRecoveredPanic {
		// the application survived an earlier Panic of this logger (it recovered); the next one is like the first
		func() {
			defer func() { _ = recover() }()
			lg.Panic("an earlier panic that the application recovered from", "k", 0)
		}()
	}
	var res c12result
	func() {
		defer func() {
			if e := recover(); e != nil {
				res.Panicked = true
				res.Value = fmt.Sprint(e)
				res.ValueT = fmt.Sprintf("%T", e)
			}
		}()
		c12call(lg, cs.Entry, sev, std, ctx, cs.Huge)
		res.Returned = true
	}()
	b, _ := json.Marshal(res)
	_ = os.WriteFile(out+".res", b, 0o644)
	os.Exit(0)
}

func c12call(lg *slog.Entry, entry string, sev slog.Level, std stdslog.Level, ctx context.Context, huge bool) {
	args := []any{"k", 1, "why", "because"}
	if c12userAttrs {
		args = append(args, c07lazyAttr{"tags.a", func() any { return "x" }}, c07lazyAttr{"tags.b", func() any { return "y" }})
	}
	if huge {
		for i := 0; i < 548; i++ {
			args = append(args, fmt.Sprintf("k%03d", i), i)
		}
	}
	switch entry {
	case "verb":
		if sev == slog.PanicLevel {
			lg.Panic(c12msg, args...)
		} else {
			lg.Fatal(c12msg, args...)
		}
	case "ctxverb":
		if sev == slog.PanicLevel {
			lg.PanicContext(ctx, c12msg, args...)
		} else {
			lg.FatalContext(ctx, c12msg, args...)
		}
	case "LogAttrs":
		lg.LogAttrs(ctx, sev, c12msg, args...)
	case "Logit":
		lg.Logit(ctx, sev, c12msg, args...)
	case "Log(std)":
		lg.Log(ctx, std, c12msg, args...)
	case "pkg.verb":
		if sev == slog.PanicLevel {
			slog.Panic(c12msg, args...)
		} else {
			slog.Fatal(c12msg, args...)
		}
	case "pkg.ctxverb":
		if sev == slog.PanicLevel {
			slog.PanicContext(ctx, c12msg, args...)
		} else {
			slog.FatalContext(ctx, c12msg, args...)
		}
	default:
		fmt.Fprintln(os.Stderr, "harness usage error: unknown entry", entry)
		os.Exit(3)
	}
}

func runProbe(c *Ctx, testing bool, base string, extra string) (exit int, timedOut bool, stderr string) {
	return runProbeFor(c, "C12", testing, base, extra)
}

// probeHome, when set, is the home directory the next probe process is started with.
var probeHome string

func runProbeFor(c *Ctx, prop string, testing bool, base string, extra string, more ...string) (exit int, timedOut bool, stderr string) {
	bin := c.Self
	var args []string
	if testing {
		bin += ".test"
		args = append(args, "-test.vf=1")
	}
	args = append(args, "-prop", prop, "-sub", "exec", "-out", base, "-x", extra)
	args = append(args, more...)
	cmd := exec.Command(bin, args...)
	cmd.Env = []string{"PATH=" + os.Getenv("PATH"), "HOME=" + os.Getenv("HOME")}
	if probeHome != "" {
		cmd.Env[1] = "HOME=" + probeHome
	}
	var eb bytes.Buffer
	cmd.Stderr = &eb
	cmd.Stdout = &eb
	if err := cmd.Start(); err != nil {
		return -1, false, err.Error()
	}
	done := make(chan error, 1)
	go func() { done <- cmd.Wait() }()
	select {
	case err := <-done:
		if err == nil {
			return 0, false, eb.String()
		}
		if ee, ok := err.(*exec.ExitError); ok {
			if ws, ok := ee.Sys().(syscall.WaitStatus); ok {
				if ws.Signaled() {
					return 128 + int(ws.Signal()), false, eb.String()
				}
				return ws.ExitStatus(), false, eb.String()
			}
		}
		return -1, false, eb.String()
	case <-time.After(60 * time.Second):
		_ = cmd.Process.Kill()
		<-done
		return -2, true, eb.String()
	}
}

func c12matrix(c *Ctx) {
	all := c12enumerate()
	c.R.Max("matrix_size", int64(len(all)))
	if c.To > len(all) {
		c.To = len(all)
	}
	c.Each(func(idx int, r *gen.R) {
		if idx >= len(all) {
			return
		}
		cs := all[idx]
		cj, _ := json.Marshal(cs)
		base := fmt.Sprintf("c12-%d", idx)
		os.Remove(base + ".rec")
		os.Remove(base + ".res")
		// commas would split the -x list: hex-free trick — the JSON has commas, so pass it base64-free via a file
		_ = os.WriteFile(base+".case", cj, 0o644)
		extra := "casefile=" + base + ".case"
		var exit int
		var to bool
		var se string
		if cs.Bench {
			exit, to, se = runProbeFor(c, "C12", false, base, extra, "-benchlabel=nightly")
		} else {
			exit, to, se = runProbe(c, cs.Testing, base, extra)
		}
		c.R.Add("probe_processes", 1)
		if to {
			c.R.Add("watchdog_timeouts", 1)
			return
		}
		rec, _ := os.ReadFile(base + ".rec")
		var res *c12result
		if b, err := os.ReadFile(base + ".res"); err == nil {
			res = &c12result{}
			_ = json.Unmarshal(b, res)
		}
		if cs.AfterClose {
			// the record is looked for on the process's own stderr / stdout (the standard devices of the closed logger)
			rec = nil
			for _, ln := range strings.SplitAfter(se, "\n") {
				if strings.Contains(ln, "#id42#") && !strings.HasPrefix(ln, "panic:") && !strings.Contains(ln, "goroutine ") {
					rec = append(rec, ln...)
				}
			}
			os.Remove(base + ".aux")
		}
		terminate := cs.Admit && !cs.NoInt && (!cs.Testing || cs.Always)
		whole := len(rec) > 0 && rec[len(rec)-1] == '\n' && bytes.Contains(rec, []byte("#id42#")) && bytes.Count(rec, []byte("#id42#")) == 1
		desc := map[string]any{"case": cs, "exit_status": exit, "record_bytes": len(rec), "result_file": res, "stderr": clip(se, 300)}
		sigTail := fmt.Sprintf("%s/%s", cs.Sev, cs.Entry)
		fail := func(clause, detail string) {
			c.R.Violation(idx, clause, "C12/"+clause+"/"+sigTail, detail+fmt.Sprintf(" [exit %d, record %q, result %+v]", exit, clip(string(rec), 200), res), desc)
		}
		c.R.Distinct("exit_codes", fmt.Sprint(exit))
		c.R.Distinct("error_devices", cs.Dest)
		// no destination to look at: the termination rule is all there is to judge
		noDest := cs.Dest == "discard" || cs.Dest == "none"
		switch {
		case cs.LongLine && cs.Admit && !bytes.Contains(rec, []byte("c12-last-line")):
			fail("record-first", "admitted call: the record lacks the last line of the message (it stands behind a line of 64 KiB)")
		case cs.InheritChain && cs.Admit && !(bytes.Contains(rec, []byte("inherited-from-the-root")) && bytes.Contains(rec, []byte("of-the-logger"))):
			fail("record-first", "admitted call with the inherit flag on: the record does not carry the attributes of the logger chain (root: top, logger: own)")
		case noDest && len(rec) != 0:
			fail("record-first", "the Panic / Fatal record went to the normal destination although the error device leads elsewhere")
		case cs.Admit && !whole && !noDest:
			fail("record-first", "admitted call: the destination does not hold exactly one complete record")
		case !cs.Admit && len(rec) != 0:
			fail("not-admitted-writes", "call not admitted but the destination was written to")
		case terminate && cs.Sev == "panic":
			if exit != 0 || res == nil || !res.Panicked {
				fail("panic-expected", "admitted Panic without no-interrupt flag must panic")
			} else if wantMsg := map[bool]string{true: "\n"}[cs.LeadingBreak] + c12msgBase + map[bool]string{true: "\r\n\n"}[cs.TrailingBreaks] + map[bool]string{true: c12markup}[cs.MarkupMsg] + map[bool]string{true: c12longTail}[cs.LongLine]; res.Value != wantMsg || res.ValueT != "string" {
				fail("panic-value", fmt.Sprintf("panic value is %q (%s), expected the message", clip(res.Value, 300), res.ValueT))
			} else {
				c.R.Add("panics_observed", 1)
			}
		case terminate && cs.Sev == "fatal":
			if exit != 253 || res != nil {
				fail("fatal-exit-status", "admitted Fatal without no-interrupt flag must exit the process with status 253")
			} else {
				c.R.Add("fatal_exits_observed", 1)
			}
		default:
			if exit != 0 || res == nil || res.Panicked || !res.Returned {
				fail("unexpected-termination", "the call must return normally (not admitted, no-interrupt flag set, or under go test without interrupt-always)")
			} else {
				c.R.Add("normal_returns_observed", 1)
			}
		}
		c.R.NonTrivial(string(cj))
		if c.R.WantSample() && terminate {
			c.R.Sample(idx, cs, map[string]any{"exit_status": exit, "record": string(rec), "result": res})
		}
	})
}

// c12negative: every other severity through every entry point, all four flag combinations, in one probe
// process per (mode, flags): nothing may panic or exit.
func c12negative(c *Ctx) {
	c.Each(func(idx int, r *gen.R) {
		testing := idx&1 == 1
		noint := idx&2 != 0
		always := idx&4 != 0
		base := fmt.Sprintf("c12neg-%d", idx)
		os.Remove(base + ".res")
		os.Remove(base + ".rec")
		cs := map[string]any{"under_go_test": testing, "no_interrupt_flag": noint, "interrupt_always_flag": always}
		exit, to, se := runProbe(c, testing, base, fmt.Sprintf("neg=1,noint=%v,always=%v", noint, always))
		c.R.Add("probe_processes", 1)
		if to {
			c.R.Add("watchdog_timeouts", 1)
			return
		}
		b, err := os.ReadFile(base + ".res")
		var res struct {
			Calls    int    `json:"calls"`
			Panicked string `json:"panicked"`
		}
		if err == nil {
			_ = json.Unmarshal(b, &res)
		}
		if exit != 0 || err != nil || res.Panicked != "" {
			c.R.Violation(idx, "unexpected-termination", "C12/unexpected-termination/other-severity", fmt.Sprintf("a non-Panic/Fatal severity terminated: exit %d, result %s, panicked at %q; stderr %s", exit, string(b), res.Panicked, clip(se, 400)), cs)
			return
		}
		c.R.Add("non_terminating_calls_observed", int64(res.Calls))
		c.R.NonTrivial(fmt.Sprint(cs))
		c.R.Sample(idx, cs, map[string]any{"calls_returned_normally": res.Calls, "exit_status": exit})
	})
}

func c12execNegative(c *Ctx, out string) {
	if c.X("noint", "") == "true" {
		slog.AddFlags(slog.LnoInterrupt)
	} else {
		slog.RemoveFlags(slog.LnoInterrupt)
	}
	if c.X("always", "") == "true" {
		slog.AddFlags(slog.Linterruptalways)
	} else {
		slog.RemoveFlags(slog.Linterruptalways)
	}
	f, _ := os.OpenFile(out+".rec", os.O_CREATE|os.O_WRONLY|os.O_TRUNC, 0o644)
	calls := 0
	at := ""
	func() {
		defer func() {
			if e := recover(); e != nil {
				at = fmt.Sprintf("%s: %v", at, e)
			} else {
				at = ""
			}
		}()
		// severities an application registered as "treated as" Fatal / Panic: that is how they are GATED; they are not
		// the Fatal / Panic severities
		_ = slog.RegisterLevel(slog.Level(50), "audit-fatal", slog.RegWithTreatedAsLevel(slog.FatalLevel))
		_ = slog.RegisterLevel(slog.Level(51), "audit-panic", slog.RegWithTreatedAsLevel(slog.PanicLevel), slog.RegWithPrintToErrorDevice(true))
		_ = slog.RegisterLevel(slog.Level(52), "\u6ce8\u610f") // (two characters, six bytes: shorter than the level tag in characters, longer in bytes)
		negSevs := []slog.Level{slog.Level(52), slog.Level(50), slog.Level(51), slog.ErrorLevel, slog.WarnLevel, slog.InfoLevel, slog.DebugLevel, slog.TraceLevel, slog.OffLevel, slog.AlwaysLevel, slog.OKLevel, slog.SuccessLevel, slog.FailLevel, slog.Level(40), slog.Level(-3)}
		for pass, format := range []string{"default", "json", "logfmt", "color", "color-without-colours"} {
			if format == "color-without-colours" {
				// the application took the colours of every severity away
				for _, sv := range negSevs {
					slog.SetLevelColors(sv, color.NoColor, color.NoColor)
				}
			}
			for _, kind := range []string{"root", "child", "default"} {
				lgL := slog.New(fmt.Sprintf("neg%d", pass))
				lg := lgL.Root()
				if kind == "child" {
					lg = lg.New("kid")
				}
				lg.SetWriter(f).SetErrorWriter(f).SetLevel(slog.AlwaysLevel)
				switch format {
				case "json":
					lg.SetJSONMode(true)
				case "logfmt":
					lg.SetColorMode(false)
				case "color", "color-without-colours":
					lg.SetColorMode(true)
				}
				if kind == "default" {
					slog.SetDefault(lgL)
				}
				for _, e := range entryPoints() {
					if e.pkg != (kind == "default") {
						continue
					}
					sevs := []slog.Level{e.sev}
					if !e.fixed {
						sevs = negSevs
					}
					for _, s := range sevs {
						if s == slog.PanicLevel || s == slog.FatalLevel {
							continue
						}
						at = fmt.Sprintf("%s on %s (%s) severity %v", e.name, kind, format, s)
						e.call(lg, context.Background(), s)
						calls++
					}
				}
				// log/slog levels that are not named constants (between, above and far from the named ones): Log maps them to
				// some severity, never to a terminating one
				for _, n := range []int{-100, -9, -5, 1, 5, 9, 12, 13, 14, 15, 18, 19, 20, 21, 100, 1 << 20, -(1 << 20)} {
					at = fmt.Sprintf("Log(log/slog level %d) on %s (%s)", n, kind, format)
					lg.Log(context.Background(), stdslog.Level(n), "odd log/slog level", "n", n)
					calls++
				}
			}
		}
	}()
	b, _ := json.Marshal(map[string]any{"calls": calls, "panicked": at})
	_ = os.WriteFile(out+".res", b, 0o644)
	os.Exit(0)
}
