package main

import (
	"bytes"
	"fmt"
	stdslog "log/slog"
	"os"
	"path/filepath"
	"runtime"
	"strconv"
	"sync"
	"time"

	"github.com/hedzr/logg/slog"

	"verifharness/gen"
	"verifharness/mon"
)

func init() { reg("C09", "chdir", c09chdir); reg("C09", "parallel", c09parallel) }

// c09chdir: the same call after two histories that differ in ONE earlier record, in processes that change their working
// directory the way a daemon does. Everything the library may latch per process (a directory, a table built on first
// use) is invisible to probes that share a process with their reference, so here the reference is another process:
//
//	reference process: chdir(A),                         chdir(B), probe
//	test process:      chdir(A), the history records,    chdir(B), probe
//
// Both processes are started alike (same directory, same environment, same flags); the probe is a WriteThru call with an
// explicit timestamp and an explicit frame, caller information switched on. Oracle: the two payloads are equal.
func c09chdir(c *Ctx) {
	libFile, _ := runtime.FuncForPC(c09libPC).FileLine(c09libPC)
	ownFile, _ := runtime.FuncForPC(thePC).FileLine(thePC)
	libDir, ownDir := filepath.Dir(libFile), filepath.Dir(ownFile)
	here, _ := os.Getwd()
	kinds := []string{"caller-record", "caller-record-on-a-goroutine", "several-records", "record-without-caller-info"}
	c.Each(func(idx int, r *gen.R) {
		kind := kinds[idx%len(kinds)]
		dirA := []string{"/", filepath.Dir(filepath.Dir(libDir)), os.TempDir(), filepath.Dir(ownDir)}[(idx/4)%4]
		dirB := []string{libDir, filepath.Dir(libDir), ownDir, "/usr"}[(idx/16+idx)%4]
		f := Format(idx % 3)
		privacy := (idx/3)%2 == 1
		frame := []string{"lib", "own"}[(idx/2)%2]
		// what the application does between the history and the probe, besides changing the directory: nothing; it applies
		// the time zone of its configuration (TZ; the probe's instant carries a zone of its own, the logger is in local-time
		// mode); it empties the table of known paths, or takes the home directory out of it (the frame lies under $HOME)
		mid := []string{"-", "set-TZ", "reset-known-paths", "remove-home-from-known-paths", "set-TZ"}[(idx/5)%5]
		home := os.Getenv("HOME")
		if mid == "reset-known-paths" || mid == "remove-home-from-known-paths" {
			privacy = true
			home = map[string]string{"lib": filepath.Dir(libDir), "own": filepath.Dir(filepath.Dir(ownDir))}[frame]
		}
		desc := map[string]any{"history": kind, "dir_before": dirA, "dir_at_the_probe": dirB, "format": f.String(), "privacy_flag": privacy, "frame": frame, "between_history_and_probe": mid, "HOME": home}
		c.R.Distinct("actions_between_history_and_probe", mid)
		c.R.Distinct("chdir_history_kinds", kind)
		c.R.Distinct("chdir_directories", dirA+" -> "+dirB)
		run := func(hist string) ([]byte, bool) {
			base := filepath.Join(here, fmt.Sprintf("c09chdir-%d-%s", idx, hist))
			os.Remove(base + ".rec")
			x := fmt.Sprintf("hist=%s,a=%s,b=%s,fmt=%d,privacy=%v,frame=%s,n=%d,mid=%s", hist, dirA, dirB, int(f), privacy, frame, idx, mid)
			probeHome = home
			exit, to, se := runProbeFor(c, "C09", false, base, x)
			probeHome = ""
			c.R.Add("probe_processes", 1)
			if to {
				c.R.Add("watchdog_timeouts", 1)
				return nil, false
			}
			b, err := os.ReadFile(base + ".rec")
			os.Remove(base + ".rec")
			if exit != 0 || err != nil || len(b) == 0 {
				c.R.Violation(idx, "bytes-differ", "C09/chdir/probe-process", fmt.Sprintf("the probe process (history %s) ended with status %d and left no payload: %s", hist, exit, clip(se, 400)), desc)
				return nil, false
			}
			return b, true
		}
		ref, ok := run("none")
		if !ok {
			return
		}
		got, ok := run(kind)
		if !ok {
			return
		}
		c.R.Add("probe_pairs_compared", 1)
		if !bytes.Equal(ref, got) {
			c.R.Violation(idx, "bytes-differ", "C09/bytes-differ/after-chdir/"+f.String(),
				fmt.Sprintf("the same WriteThru call (caller information on) in two processes that both went chdir(%s), [between: "+mid+"], chdir(%s): one of them had logged (%s) while in the first directory, and the payloads differ:\n without that history: %s\n with it:              %s", dirA, dirB, kind, q(clip(string(ref), 400)), q(clip(string(got), 400))), desc)
			return
		}
		c.R.NonTrivial("chdir", kind, string(ref))
		if c.R.WantSample() {
			c.R.Sample(idx, desc, map[string]any{"bytes": string(clipB(ref, 300))})
		}
	})
}

// c09exec is the probe process of c09chdir.
func c09exec(c *Ctx, out string) {
	f, _ := os.OpenFile(out+".rec", os.O_CREATE|os.O_WRONLY|os.O_TRUNC, 0o644)
	n, _ := strconv.Atoi(c.X("n", "0"))
	fi, _ := strconv.Atoi(c.X("fmt", "0"))
	flags := slog.Lcaller
	if c.X("privacy", "false") == "true" {
		flags |= slog.Lprivacypath
	}
	mid := c.X("mid", "-")
	if mid == "set-TZ" {
		flags |= slog.LlocalTime
	}
	slog.SetFlags(flags)
	pc := thePC
	if c.X("frame", "lib") == "lib" {
		pc = c09libPC
	}
	if err := os.Chdir(c.X("a", "/")); err != nil {
		fmt.Fprintln(os.Stderr, "chdir:", err)
		os.Exit(3)
	}
	ts := time.Date(2024, 3, 9, 8, 7, 6, 5000, time.UTC)
	boot := newRoot("boot", Format((fi+1)%3), discardW{}, slog.AlwaysLevel)
	switch c.X("hist", "none") {
	case "caller-record":
		boot.WriteThru(bg, slog.InfoLevel, ts, thePC, "starting", slog.Attrs{slog.NewAttr("n", n)})
	case "caller-record-on-a-goroutine":
		var wg sync.WaitGroup
		wg.Add(1)
		go func() { defer wg.Done(); boot.Warn("starting", "n", n) }()
		wg.Wait()
	case "several-records":
		for i := 0; i < 5; i++ {
			setFormat(boot, Format(i%3))
			boot.Info("starting", "i", i)
			boot.WriteThru(bg, slog.WarnLevel, ts, c09libPC, "starting", nil)
		}
	case "record-without-caller-info":
		slog.RemoveFlags(slog.Lcaller)
		boot.Info("starting", "n", n)
		slog.SetFlags(flags)
	}
	switch mid {
	case "set-TZ":
		os.Setenv("TZ", []string{"Asia/Tokyo", "America/New_York", "UTC-3"}[n%3])
		if n%2 == 1 {
			ts = ts.In(time.FixedZone("svc", 5*3600+1800))
		}
	case "reset-known-paths":
		slog.ResetKnownPathMapping()
	case "remove-home-from-known-paths":
		slog.RemoveKnownPathMapping(os.Getenv("HOME"))
	}
	if err := os.Chdir(c.X("b", "/")); err != nil {
		fmt.Fprintln(os.Stderr, "chdir:", err)
		os.Exit(3)
	}
	lg := newRoot("probe", Format(fi), f, slog.AlwaysLevel)
	lg.WriteThru(bg, slog.InfoLevel, ts, pc, "the probe", slog.Attrs{slog.NewAttr("n", n), slog.NewAttr("s", "v")})
	_ = f.Close()
	os.Exit(0)
}

// c09parallel: "by which logger or goroutine" under real parallelism. Every goroutine owns a logger, a destination and
// a probe call of its own (nothing shared but the library); each probe is formatted once while the process is quiet and
// then replayed while all the others replay theirs. Oracle: every replay equals the quiet payload of the same call. The
// race children run the same under the race detector.
func c09parallel(c *Ctx) {
	registerCustomLevels()
	c.Each(func(idx int, r *gen.R) {
		restore := withFlags(0, 0)
		defer restore()
		if idx%2 == 0 {
			slog.AddFlags(slog.Lcaller)
		} else {
			slog.RemoveFlags(slog.Lcaller)
		}
		G := []int{3, 7, 16, 33}[idx%4]
		N := []int{400, 1500, 150}[idx%3]
		if c.X("race", "") != "" {
			N /= 4
		}
		old := runtime.GOMAXPROCS([]int{4, 16, 2}[(idx/4)%3])
		defer runtime.GOMAXPROCS(old)
		so := gen.StrOpt{HostilePc: 20}
		o := gen.Options{Str: so, MaxDepth: 2}
		type one struct {
			lg  *slog.Entry
			w   *keepW
			lvl slog.Level
			ts  time.Time
			msg string
			as  slog.Attrs
			ref []byte
		}
		ps := make([]*one, G)
		for g := range ps {
			f := FColor
			if g%5 == 4 {
				f = Format(r.Intn(3))
			}
			w := &keepW{}
			p := &one{lg: newRoot(fmt.Sprintf("par%d", g), f, w, slog.AlwaysLevel), w: w, lvl: colorLevels[(idx+g)%len(colorLevels)], ts: r.Time(), msg: r.Str(gen.StrOpt{NoESC: true})}
			p.as = attrsOf(genTextCase(r, so, o).kvs)
			p.lg.WriteThru(bg, p.lvl, p.ts, thePC, p.msg, p.as)
			p.ref = append([]byte(nil), w.b...)
			ps[g] = p
		}
		var wg sync.WaitGroup
		start := make(chan struct{})
		bad := make([]string, G)
		for g, p := range ps {
			g, p := g, p
			wg.Add(1)
			go func() {
				defer wg.Done()
				<-start
				for k := 0; k < N; k++ {
					p.w.b = p.w.b[:0]
					p.lg.WriteThru(bg, p.lvl, p.ts, thePC, p.msg, p.as)
					if !bytes.Equal(p.w.b, p.ref) && bad[g] == "" {
						bad[g] = fmt.Sprintf("goroutine %d of %d, replay %d of its own WriteThru call (level %v) while the others replayed theirs on their own loggers:\n quiet:   %s\n replay:  %s", g, G, k, p.lvl, q(clip(string(p.ref), 500)), q(clip(string(p.w.b), 500)))
					}
				}
			}()
		}
		close(start)
		wg.Wait()
		c.R.Add("parallel_replays", int64(G*N))
		c.R.Max("goroutines_replaying_in_parallel", int64(G))
		for _, b := range bad {
			if b != "" {
				c.R.Violation(idx, "bytes-differ", "C09/bytes-differ/in-parallel", b, map[string]any{"goroutines": G, "replays_each": N})
				return
			}
		}
		c.R.NonTrivial("parallel", G, N, string(ps[0].ref))
		if c.R.WantSample() {
			c.R.Sample(idx, map[string]any{"goroutines": G, "replays_each": N}, map[string]any{"bytes": string(clipB(ps[0].ref, 200))})
		}
	})
}

// keepW keeps what one goroutine's logger wrote (one owner, no locking needed).
type keepW struct{ b []byte }

func (w *keepW) Write(p []byte) (int, error) { w.b = append(w.b, p...); return len(p), nil }

func init() { reg("C09", "sharedhandler", c09sharedHandler) }

// c09sharedHandler: ONE log/slog handler family (a base handler derived with WithGroup / WithAttrs steps) shared by all
// goroutines, as an application's request handlers share theirs. Every goroutine owns one hand-built record (its own
// instant, message and attributes); it is formatted once while the process is quiet and then replayed while the others
// replay theirs through the same handler. Oracle: every payload at the (shared, thread-safe) destination equals the quiet
// payload of the record it carries. The race children run the same under the race detector.
func c09sharedHandler(c *Ctx) {
	c.Each(func(idx int, r *gen.R) {
		restore := withFlags(0, slog.Lcaller)
		defer restore()
		G := []int{2, 4, 8, 16}[idx%4]
		N := []int{300, 1000, 100}[idx%3]
		if c.X("race", "") != "" {
			N /= 4
		}
		old := runtime.GOMAXPROCS([]int{4, 16, 2}[(idx/4)%3])
		defer runtime.GOMAXPROCS(old)
		f := Format(idx % 3)
		log := mon.NewLog()
		w := mon.New(log, "W", mon.ShapePlain)
		lg := newRoot("shared", f, w, slog.AlwaysLevel)
		var h stdslog.Handler = slog.NewSlogHandler(lg, &slog.HandlerOptions{NoColor: f != FColor, JSON: f == FJSON, NoSource: true, Level: slog.PanicLevel})
		var steps []string
		for i, k := range []int{idx % 5, (idx / 5) % 5, (idx / 25) % 5} {
			switch k {
			case 1, 2:
				h = h.WithGroup(fmt.Sprintf("g%d", i))
				steps = append(steps, "WithGroup")
			case 3:
				h = h.WithAttrs([]stdslog.Attr{stdslog.Int(fmt.Sprintf("a%d", i), i)})
				steps = append(steps, "WithAttrs")
			}
		}
		desc := map[string]any{"goroutines": G, "replays_each": N, "format": f.String(), "derivation": steps}
		recs := make([]stdslog.Record, G)
		refs := make([][]byte, G)
		for g := range recs {
			rec := stdslog.NewRecord(r.Time(), stdslog.LevelInfo, fmt.Sprintf("rec-of-goroutine-%d.", g), 0)
			rec.AddAttrs(stdslog.Int("id", g), stdslog.String("who", fmt.Sprintf("g%d", g)), stdslog.Group("in", stdslog.Int("n", g*7)))
			recs[g] = rec
			log.Reset()
			_ = h.Handle(bg, rec)
			ws := log.Writes("W")
			if len(ws) != 1 {
				c.R.Violation(idx, "bytes-differ", "C09/shared-handler/quiet", fmt.Sprintf("the quiet call produced %d payloads", len(ws)), desc)
				return
			}
			refs[g] = ws[0].Data
		}
		log.Reset()
		var wg sync.WaitGroup
		start := make(chan struct{})
		for g := 0; g < G; g++ {
			g := g
			wg.Add(1)
			go func() {
				defer wg.Done()
				<-start
				for k := 0; k < N; k++ {
					_ = h.Handle(bg, recs[g].Clone())
				}
			}()
		}
		close(start)
		wg.Wait()
		c.R.Add("shared_handler_replays", int64(G*N))
		seen := 0
		for _, e := range log.Writes("W") {
			seen++
			g := -1
			for i := range refs {
				if bytes.Contains(e.Data, []byte(fmt.Sprintf("rec-of-goroutine-%d.", i))) {
					g = i
					break
				}
			}
			if g < 0 || !bytes.Equal(e.Data, refs[g]) {
				ref := ""
				if g >= 0 {
					ref = q(clip(string(refs[g]), 500))
				}
				c.R.Violation(idx, "bytes-differ", "C09/bytes-differ/shared-handler", fmt.Sprintf("a record replayed through a handler that %d goroutines share (each with a record of its own) differs from what the same call printed while the process was quiet:\n quiet:   %s\n replay:  %s", G, ref, q(clip(string(e.Data), 500))), desc)
				return
			}
		}
		if seen != G*N {
			c.R.Violation(idx, "bytes-differ", "C09/shared-handler/count", fmt.Sprintf("%d replays, %d payloads", G*N, seen), desc)
			return
		}
		c.R.NonTrivial("sharedhandler", idx, G, N)
		if c.R.WantSample() {
			c.R.Sample(idx, desc, map[string]any{"bytes": string(clipB(refs[0], 200))})
		}
	})
}
