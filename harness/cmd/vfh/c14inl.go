package main

import (
	"reflect"
	"runtime"

	"github.com/hedzr/logg/slog"
)

// A logging helper kept in ANOTHER source file than the statements that call it, small enough for the compiler to
// inline it into them (one call, nothing else; the whole function sits on one line, so the line of the function is the
// line of its statement). A record it issues belongs to this file; with a skip count of 1 it belongs to the caller's.
func c14inlInfo(l slog.Logger) { l.Info(cm, "a", 1) }

// c14inlSite is the statement of c14inlInfo, from the Go runtime's own tables.
func c14inlSite() site {
	pc := reflect.ValueOf(c14inlInfo).Pointer()
	f := runtime.FuncForPC(pc)
	file, line := f.FileLine(pc)
	return site{file, line, f.Name()}
}
