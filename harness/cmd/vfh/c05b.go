package main

import (
	"fmt"
	stdslog "log/slog"
	"strings"

	"github.com/hedzr/logg/slog"

	"verifharness/gen"
	"verifharness/mon"
)

func init() { reg("C05", "handler", c05handler) }

// c05handler: logfmt records that reach the library through its log/slog handler (HandlerOptions{NoColor: true}). The
// handler is derived step by step (WithGroup opens a group for everything given later, WithAttrs binds attributes under
// the groups open so far); from the last step two or three siblings are derived, and the record goes through the FIRST
// of them after the others exist. Oracle: the line parses as logfmt and holds every attribute under its own dotted key
// (c05check with the tree that log/slog's rules give: groups opened earlier enclose what is given later, a group that
// stays empty is omitted, a key given twice at one level shows the later value).
func c05handler(c *Ctx) {
	log := mon.NewLog()
	w := mon.New(log, "W", mon.ShapePlain)
	c.Each(func(idx int, r *gen.R) {
		restore := withFlags(0, 0)
		defer restore()
		slog.RemoveFlags(slog.Lcaller)
		randomOtherFlags(r)
		lg := newRoot("", FLogfmt, w, slog.AlwaysLevel)
		h := slog.NewSlogHandler(lg, &slog.HandlerOptions{NoColor: true, NoSource: true, Level: slog.PanicLevel})
		type layer struct {
			group string
			kvs   []gen.KV
		}
		var chain []layer
		var cdesc []string
		cur := h
		kc := 0
		step := func(cur stdslog.Handler, tag string, group bool) (stdslog.Handler, layer) {
			kc++
			if group {
				g := fmt.Sprintf("%sg%d", tag, kc)
				cdesc = append(cdesc, "WithGroup("+g+")")
				return cur.WithGroup(g), layer{group: g}
			}
			n := r.Range(1, 3)
			var as []stdslog.Attr
			var kvs []gen.KV
			for j := 0; j < n; j++ {
				a, kv := c15attr(r, fmt.Sprintf("%sd%d.%d~", tag, kc, j), 1)
				as, kvs = append(as, a), append(kvs, kv)
			}
			cdesc = append(cdesc, fmt.Sprintf("WithAttrs(%d)", n))
			return cur.WithAttrs(as), layer{kvs: kvs}
		}
		nDer := gen.Pick(r, []int{0, 1, 2, 3, 3, 4, 5, 5, 6, 7, 7, 8, 9, 11, 15})
		for i := 0; i < nDer; i++ {
			var l layer
			cur, l = step(cur, "", r.P(45))
			chain = append(chain, l)
		}
		// siblings
		if nsib := r.Intn(4); nsib > 0 {
			first, l := step(cur, "first", r.Bool())
			for i := 1; i < nsib+1; i++ {
				_, _ = step(cur, fmt.Sprintf("later%d", i), r.Bool())
			}
			cur = first
			chain = append(chain, l)
			c.R.Add("records_through_the_first_of_several_sibling_handlers", 1)
			// the first sibling may be derived further after the others exist
			for r.P(30) {
				cur, l = step(cur, "", r.P(45))
				chain = append(chain, l)
			}
		}
		c.R.Max("handler_derivation_steps", int64(len(chain)))
		c.R.Distinct("handler_derivation_depths", fmt.Sprint(len(chain)))
		nrec := r.Intn(5)
		var recAttrs []stdslog.Attr
		var recKVs []gen.KV
		for j := 0; j < nrec; j++ {
			a, kv := c15attr(r, fmt.Sprintf("r%d~", j), 0)
			recAttrs, recKVs = append(recAttrs, a), append(recKVs, kv)
		}
		exp := recKVs
		groupsBeforeAttrs := false
		open := false
		for _, l := range chain {
			if l.group != "" {
				open = true
			} else if open {
				groupsBeforeAttrs = true
			}
		}
		for i := len(chain) - 1; i >= 0; i-- {
			if chain[i].group != "" {
				exp = []gen.KV{{Key: chain[i].group, Val: gen.V{Kind: "group", Items: exp}}}
			} else {
				exp = lastWins(append(append([]gen.KV(nil), chain[i].kvs...), exp...))
			}
		}
		exp = pruneEmptyGroups(exp)
		if groupsBeforeAttrs && nrec > 0 {
			c.R.Add("records_with_own_attributes_through_a_handler_that_bound_attributes_inside_a_group", 1)
		}
		std := gen.Pick(r, []stdslog.Level{stdslog.LevelDebug, stdslog.LevelInfo, stdslog.LevelWarn, stdslog.LevelError})
		msg := "h" + r.Str(gen.StrOpt{HostilePc: 30, NoESC: true, NoMarkup: true})
		rec := stdslog.NewRecord(r.Time(), std, msg, 0)
		rec.AddAttrs(recAttrs...)
		cs := recCase{msg: msg, lvl: stdNames[std], kvs: exp}
		desc := cs.desc(FLogfmt)
		desc["derivation"], desc["record_attributes"] = strings.Join(cdesc, " "), gen.DescKVs(recKVs)
		evs := capture(log, func() { _ = cur.Handle(bg, rec) })
		c.R.Add("write_events", int64(len(evs)))
		if len(evs) != 1 || evs[0].Kind != mon.EvWrite {
			c.R.Violation(idx, "one-write", "C05/one-write/handler", fmt.Sprintf("expected exactly one Write, saw %s", fmtEvents(evs)), desc)
			return
		}
		if vs := c05check(evs[0].Data, cs); len(vs) > 0 {
			c.R.Violation(idx, vs[0].clause, "C05/"+vs[0].clause+"/through-a-derived-log-slog-handler", vs[0].detail+"\npayload: "+q(clip(string(evs[0].Data), 1500)), desc)
			return
		}
		c.R.Add("records_decoded", 1)
		c.R.Add("handler_records_decoded", 1)
		c.R.NonTrivial(string(evs[0].Data))
		if c.R.WantSample() && len(exp) > 1 {
			c.R.Sample(idx, desc, map[string]any{"payload": string(evs[0].Data)})
		}
	})
}
