package main

import (
	"bytes"
	"fmt"
	stdslog "log/slog"
	"strings"
	"time"
	_ "time/tzdata"

	"github.com/hedzr/logg/slog"

	"verifharness/gen"
	"verifharness/mon"
	"verifharness/oracle"
)

func init() { reg("C16", "ts", c16ts) }

var c16layouts = []string{time.RFC3339, time.RFC3339Nano, time.RFC1123Z, time.RFC822Z, time.Kitchen, time.StampMicro, "2006-01-02 15:04:05.000 -0700", "02/01/06 15h04", slog.DateTime,
	"15:04:05.999999999Z07:00", time.ANSIC, "Mon Jan _2 2006", "2006-01-02T15:04:05.000000000Z07:00", "20060102-150405.000000-0700",
	// layouts that print the zone ABBREVIATION: in UTC mode that is "UTC", whatever the instant's own zone is called
	time.RFC1123, time.RFC850, time.RFC822, time.UnixDate, "2006-01-02 15:04:05.000 MST", "15:04 MST -0700",
	// layouts that begin or end with white space (a column-aligned log, a layout read from a configuration file): the
	// layout is used as given (layouts that hold quotation marks or control characters are not in the list: the formats
	// print the timestamp text without an escaping pass, see DESIGN section 6)
	"15:04:05.000 ", " 2006-01-02 15:04:05 -0700", "15:04:05\u00a0", "  2006-01-02T15:04:05Z07:00  ",
	// the package's OWN layouts given explicitly (a logger that pins one of them has a layout of its own, whatever the
	// flags select), and layouts that end in a LITERAL Z (no zone element: a letter like any other - the zone rule decides
	// which wall clock is shown)
	slog.TimeNano, slog.TimeNoNano, slog.RFC3339Nano, slog.RFC3339NanoOrig, "2006-01-02T15:04:05Z", "15:04:05.000Z", "Jan _2 15:04Z"}

var c16flagTable = map[slog.Flags]string{
	slog.Ldate:                                   "2006-01-02",
	slog.Ltime:                                   slog.TimeNoNano,
	slog.Ltime | slog.Lmicroseconds:              slog.TimeNano,
	slog.Ldate | slog.Ltime:                      slog.DateTime,
	slog.Ldate | slog.Lmicroseconds:              slog.RFC3339Nano,
	slog.Ldate | slog.Ltime | slog.Lmicroseconds: slog.RFC3339Nano,
}

var exportedLayouts = []string{slog.TimeNoNano, slog.TimeNano, slog.DateTime, slog.RFC3339Nano, slog.RFC3339NanoOrig}

func c16instant(r *gen.R, zones []*time.Location) time.Time {
	loc := gen.Pick(r, zones)
	if r.P(4) {
		// instants inside (and at the edges of) the wall-clock hour that a named zone shows twice when daylight saving ends,
		// and inside the hour it skips when it starts: the instant is what counts, not the wall-clock reading
		type dst struct {
			zone string
			utc  time.Time
		}
		pool := []dst{
			{"America/New_York", time.Date(2021, 11, 7, 5, 30, 0, 0, time.UTC)}, {"America/New_York", time.Date(2021, 11, 7, 6, 30, 0, 0, time.UTC)}, {"America/New_York", time.Date(2021, 3, 14, 7, 0, 0, 0, time.UTC)},
			{"Europe/Berlin", time.Date(2021, 10, 31, 0, 30, 0, 0, time.UTC)}, {"Europe/Berlin", time.Date(2021, 10, 31, 1, 30, 0, 0, time.UTC)}, {"Europe/Berlin", time.Date(2022, 3, 27, 1, 0, 0, 0, time.UTC)},
			{"Australia/Lord_Howe", time.Date(2021, 4, 3, 14, 45, 0, 0, time.UTC)}, {"Australia/Lord_Howe", time.Date(2021, 4, 3, 15, 15, 0, 0, time.UTC)},
			{"Europe/London", time.Date(2023, 10, 29, 0, 59, 59, 999999999, time.UTC)}, {"Europe/London", time.Date(2023, 10, 29, 1, 0, 0, 0, time.UTC)},
			{"Pacific/Chatham", time.Date(2022, 4, 2, 13, 50, 0, 0, time.UTC)}, {"Europe/Lisbon", time.Date(2022, 10, 30, 0, 30, 0, 0, time.UTC)},
		}
		x := gen.Pick(r, pool)
		if l, err := time.LoadLocation(x.zone); err == nil {
			return x.utc.Add(time.Duration(r.Intn(3)-1) * time.Duration(r.Intn(1800)) * time.Second).In(l)
		}
	}
	if r.P(3) { // the zero instant (and its neighbours): a record's own instant like any other
		return gen.Pick(r, []time.Time{{}, time.Time{}.In(loc), time.Time{}.Add(1), time.Time{}.Add(time.Second), time.Date(1, 1, 1, 0, 0, 0, 0, loc), time.Unix(0, 0).In(loc)})
	}
	ns := 0
	switch r.Intn(6) {
	case 0:
		ns = 0
	case 1:
		ns = r.Intn(1000) * 1000000
	case 2:
		ns = r.Intn(1000000) * 1000
	case 3:
		ns = 999999999
	case 4:
		ns = 1
	default:
		ns = r.Intn(1000000000)
	}
	year := r.Range(1, 9999)
	if r.P(60) {
		year = r.Range(1900, 2100)
	}
	return time.Date(year, time.Month(r.Range(1, 12)), r.Range(1, 28), r.Intn(24), r.Intn(60), r.Intn(60), ns, loc)
}

// precisionOf returns the truncation unit of a layout, and whether it carries full date, time and a numeric zone.
func layoutInfo(layout string) (prec time.Duration, invertible bool) {
	prec = time.Second
	for _, f := range []struct {
		s string
		d time.Duration
	}{{".000000000", 1}, {".999999999", 1}, {".000000", time.Microsecond}, {".999999", time.Microsecond}, {".000", time.Millisecond}, {".999", time.Millisecond}} {
		if strings.Contains(layout, f.s) {
			prec = f.d
			break
		}
	}
	has := func(ss ...string) bool {
		for _, s := range ss {
			if strings.Contains(layout, s) {
				return true
			}
		}
		return false
	}
	invertible = has("2006") && has("01", "Jan") && has("02", "_2") && has("15") && has("04") && has("05") && has("Z07:00", "-0700", "-07:00")
	return
}

func c16ts(c *Ctx) {
	// the process's own zone is not UTC (containers usually run in UTC, users' machines do not): a record's instant is
	// shown in ITS zone or in UTC, never in the process's
	time.Local = time.FixedZone("PROC", 9*3600)
	log := mon.NewLog()
	w := mon.New(log, "W", mon.ShapePlain)
	zones := append([]*time.Location(nil), gen.Zones...)
	// zones that sit at offset zero without being UTC
	zones = append(zones, time.FixedZone("GMT", 0), time.FixedZone("WET", 0), time.FixedZone("Z", 0))
	// and zones that are CALLED UTC without being it (a fixed zone is named by whoever builds it)
	zones = append(zones, time.FixedZone("UTC", 2*3600), time.FixedZone("UTC", -5*3600-1800), time.FixedZone("", 3*3600), time.FixedZone("Local", -7*3600))
	for _, n := range []string{"America/New_York", "Asia/Kolkata", "Australia/Lord_Howe", "Europe/Berlin", "Pacific/Chatham", "Europe/London", "Europe/Lisbon", "Africa/Abidjan", "Atlantic/Reykjavik"} {
		if l, err := time.LoadLocation(n); err == nil {
			zones = append(zones, l)
		}
	}
	c.R.Max("zones", int64(len(zones)))
	c.Each(func(idx int, r *gen.R) {
		restore := withFlags(0, slog.Lcaller)
		defer restore()
		var fl slog.Flags
		for _, b := range []slog.Flags{slog.Ldate, slog.Ltime, slog.Lmicroseconds, slog.LlocalTime} {
			if r.Bool() {
				slog.AddFlags(b)
				fl |= b
			} else {
				slog.RemoveFlags(b)
			}
		}
		// a temporary window opened with SaveFlagsAndMod (other date/time bits, a record inside) and closed with
		// its restore closure - the usual `defer SaveFlagsAndMod(...)()` idiom: afterwards the flags above apply again
		window := r.P(35)
		if window {
			var add, del slog.Flags
			for _, b := range []slog.Flags{slog.Ldate, slog.Ltime, slog.Lmicroseconds, slog.LlocalTime} {
				if r.Bool() {
					add |= b
				} else {
					del |= b
				}
			}
			restoreWindow := slog.SaveFlagsAndMod(add, del)
			wl := newRoot("window", Format(r.Intn(3)), w, slog.AlwaysLevel)
			wl.WriteThru(bg, slog.InfoLevel, c16instant(r, zones), thePC, "inside the window", nil)
			restoreWindow()
			c.R.Add("cases_after_a_saveflags_window", 1)
		}
		// the application's DEFAULT logger may have time settings of its own: they are that logger's, not the process's
		if r.P(15) {
			saved := slog.Default()
			d := slog.New("default16")
			d.SetTimeFormat(gen.Pick(r, c16layouts))
			d.SetUTCMode(r.Bool())
			slog.SetDefault(d)
			defer slog.SetDefault(saved)
			c.R.Add("cases_with_a_default_logger_that_has_time_settings", 1)
		}
		f := Format(r.Intn(3))
		lg := newRoot(gen.Pick(r, []string{"", "t16"}), f, w, slog.AlwaysLevel)
		utc := r.Intn(3) // 0 unset, 1 SetUTCMode(false), 2 SetUTCMode(true)
		layout := ""
		if r.P(55) {
			layout = gen.Pick(r, c16layouts)
		}
		// the logger may have printed a record under OTHER settings of its own before it got the ones under test
		earlier := "-"
		if r.P(30) && (utc != 0 || layout != "") {
			if utc != 0 {
				lg.SetUTCMode(utc != 2)
				earlier = fmt.Sprintf("utc=%v ", utc != 2)
			}
			if layout != "" {
				o := gen.Pick(r, c16layouts)
				lg.SetTimeFormat(o)
				earlier += "layout=" + o
			}
			lg.WriteThru(bg, slog.InfoLevel, c16instant(r, zones), thePC, "an earlier record of the same logger", nil)
			c.R.Add("cases_after_an_earlier_record_under_other_logger_settings", 1)
		}
		switch utc {
		case 1:
			if r.P(30) {
				lg.SetUTCMode(true, false) // (several values: the last one is the mode, as in every setter of the package)
			} else {
				lg.SetUTCMode(false)
			}
		case 2:
			switch r.Intn(3) {
			case 0:
				lg.SetUTCMode(true)
			case 1:
				lg.SetUTCMode(false, true)
			default:
				lg.SetUTCMode()
			}
		}
		setForm := "-"
		if layout != "" {
			// the setter takes several layouts: the last non-empty one is the logger's layout
			switch r.Intn(6) {
			case 0:
				o := gen.Pick(r, c16layouts)
				lg.SetTimeFormat(o, layout)
				setForm = "SetTimeFormat(other, layout)"
			case 1:
				lg.SetTimeFormat(layout, "")
				setForm = "SetTimeFormat(layout, \"\")"
			case 2:
				lg.SetTimeFormat("", layout)
				setForm = "SetTimeFormat(\"\", layout)"
			default:
				lg.SetTimeFormat(layout)
				setForm = "SetTimeFormat(layout)"
			}
			c.R.Distinct("set_time_format_forms", setForm)
		}
		// the same settings reached through a derived logger instead: parent.WithTimeFormat(..) / parent.WithUTCMode(..),
		// and a SIBLING derived from the same parent with other arguments before the first one is used
		derived := "-"
		if r.P(35) && (layout != "" || utc != 0) {
			parent := newRoot(gen.Pick(r, []string{"", "t16"}), f, w, slog.AlwaysLevel)
			var child *slog.Entry
			if layout != "" && (utc == 0 || r.Bool()) {
				child = parent.WithTimeFormat(layout)
				other := gen.Pick(r, c16layouts)
				_ = parent.WithTimeFormat(other)
				derived = "WithTimeFormat, then a sibling WithTimeFormat(" + other + ")"
				switch utc {
				case 1:
					child.SetUTCMode(false)
				case 2:
					child.SetUTCMode(true)
				}
			} else {
				child = parent.WithUTCMode(utc == 2)
				_ = parent.WithUTCMode(utc != 2)
				derived = "WithUTCMode, then a sibling WithUTCMode with the opposite argument"
				if layout != "" {
					child.SetTimeFormat(layout)
				}
			}
			child.SetWriter(w).SetErrorWriter(w)
			lg = child
			c.R.Add("cases_through_a_derived_logger_with_a_sibling", 1)
			if r.Bool() {
				// ... and AFTER the child exists its parent chooses a mode (the opposite one) and a layout for ITSELF
				parent.SetUTCMode(utc != 2)
				if r.Bool() {
					parent.SetTimeFormat(gen.Pick(r, c16layouts))
				}
				derived += "; then the parent set its own mode"
				c.R.Add("cases_whose_parent_set_its_own_time_options_after_the_child_existed", 1)
			}
		}
		// the same settings given as options of New, each preceded by a conflicting one (the later option wins)
		if derived == "-" && (layout != "" || utc != 0) && r.P(20) {
			var opts []any
			if layout != "" {
				opts = append(opts, slog.WithTimeFormat(gen.Pick(r, c16layouts)), slog.WithTimeFormat(layout))
			}
			if utc != 0 {
				opts = append(opts, slog.WithUTCMode(utc != 2), slog.WithUTCMode(utc == 2))
			}
			nl := slog.New(append([]any{"t16opt"}, opts...)...).Root()
			nl.SetWriter(w).SetErrorWriter(w).SetLevel(slog.AlwaysLevel)
			setFormat(nl, f)
			lg = nl
			derived = "New(name, conflicting option, option)"
			c.R.Add("cases_through_New_with_conflicting_options", 1)
		}
		// the logger is a WithSkip helper of an owner that has OTHER time settings of its own (or none): the helper's own
		// settings are the ones under test - given to it after it was derived - and the owner's WithSkip is evaluated
		// again before the helper is used (it keeps one child per count and leaves that child as it is)
		if derived == "-" && r.P(12) {
			owner := newRoot(gen.Pick(r, []string{"", "t16"}), f, w, slog.AlwaysLevel)
			if r.P(70) {
				owner.SetTimeFormat(gen.Pick(r, c16layouts))
			}
			if r.P(50) {
				owner.SetUTCMode(r.Bool())
			}
			helper := owner.WithSkip(1)
			helper.SetWriter(w).SetErrorWriter(w)
			if layout != "" {
				helper.SetTimeFormat(layout)
			}
			switch utc {
			case 1:
				helper.SetUTCMode(false)
			case 2:
				helper.SetUTCMode(true)
			}
			_ = owner.WithSkip(1)
			_ = owner.WithSkip(2)
			lg = helper
			derived = "a WithSkip(1) helper of an owner with other time settings; owner.WithSkip(1) evaluated again"
			c.R.Add("cases_through_a_WithSkip_helper", 1)
		}
		// ... or a child made by parent.New(options...) WITHOUT a name, the time options first
		if derived == "-" && (layout != "" || utc != 0) && r.P(12) {
			parent := newRoot(gen.Pick(r, []string{"", "t16"}), f, w, slog.AlwaysLevel)
			var opts []any
			if layout != "" {
				opts = append(opts, slog.WithTimeFormat(layout))
			}
			if utc != 0 {
				opts = append(opts, slog.WithUTCMode(utc == 2))
			}
			if len(opts) == 2 && r.Bool() {
				opts[0], opts[1] = opts[1], opts[0]
			}
			child := parent.New(opts...)
			child.SetWriter(w).SetErrorWriter(w)
			lg = child
			derived = "parent.New(time options) without a name"
			c.R.Add("cases_through_an_anonymous_child_made_with_time_options", 1)
		}
		// ... or a child made by parent.WithJSONMode(..) / parent.WithColorMode(..) - "the same logger in another output
		// format" - of a parent that HAS a layout and a zone mode of its own: the child was given neither (it may get a
		// layout of its own afterwards), so the flags decide for it
		if derived == "-" && utc == 0 && r.P(20) {
			pf := Format(r.Intn(3))
			parent := newRoot(gen.Pick(r, []string{"", "t16"}), pf, w, slog.AlwaysLevel)
			parent.SetTimeFormat(gen.Pick(r, c16layouts))
			parent.SetUTCMode(r.Bool())
			var child *slog.Entry
			switch f {
			case FJSON:
				child = parent.WithJSONMode(true)
			case FColor:
				child = parent.WithColorMode(true)
			default:
				if pf == FJSON {
					child = parent.WithJSONMode(false)
				} else {
					child = parent.WithColorMode(false)
				}
				child.SetJSONMode(false).SetColorMode(false)
			}
			child.SetWriter(w).SetErrorWriter(w)
			if layout != "" {
				child.SetTimeFormat(layout)
			}
			lg = child
			derived = "a WithJSONMode / WithColorMode child of a parent that has a layout and a zone mode of its own"
			c.R.Add("cases_through_a_format_variant_child_of_a_parent_with_time_settings", 1)
		}
		// the logger may be the process's default logger while the application calls the package-level Reset() (which
		// restores the package's level and flags): the logger's own time options are no business of that call
		if r.P(10) {
			savedDef, savedFlags := slog.Default(), slog.GetFlags()
			slog.SetDefault(lg)
			slog.Reset()
			slog.SetFlags(savedFlags)
			slog.SetDefault(savedDef)
			lg.SetLevel(slog.AlwaysLevel)
			c.R.Add("cases_whose_logger_was_the_default_during_a_package_Reset", 1)
		}
		ts := c16instant(r, zones)
		if r.P(20) {
			// the record right before it on the same logger carries an instant a little LATER (records that were queued and
			// arrive out of order): every record shows its own instant
			lg.WriteThru(bg, slog.InfoLevel, ts.Add(time.Duration(r.Range(1, 999))*time.Millisecond), thePC, "the previous record of this logger, a few hundred milliseconds later", nil)
			c.R.Add("cases_right_after_a_record_with_a_slightly_later_instant", 1)
		}
		viaHandler := r.P(15)
		// the record may carry attributes that are instants themselves, one of them under a key called time: the
		// record's timestamp is still the record's instant
		var tsAttrs slog.Attrs
		if !viaHandler && r.P(12) {
			other := c16instant(r, zones)
			tsAttrs = slog.Attrs{slog.NewAttr("at", other), slog.NewAttr("time", other)}
			c.R.Add("records_with_an_attribute_called_time", 1)
		}
		// the record may have nothing to say (a blank message) at one of the levels no threshold silences: it is still a
		// record, with its timestamp
		plvl, pmsg, blank := slog.InfoLevel, "tsprobe", false
		if !viaHandler && r.P(12) {
			plvl = gen.Pick(r, []slog.Level{slog.OKLevel, slog.SuccessLevel, slog.FailLevel, slog.WarnLevel, slog.InfoLevel})
			pmsg = gen.Pick(r, []string{"", "  ", "\t"})
			blank = true
			c.R.Add("records_with_a_blank_message_at_a_level_other_than_the_print_level", 1)
		}
		evs := capture(log, func() {
			if viaHandler {
				// the same instant through the log/slog adapter built on this logger (options: keep format and level)
				h := slog.NewSlogHandler(lg, &slog.HandlerOptions{NoColor: f != FColor, JSON: f == FJSON, NoSource: true, Level: slog.PanicLevel})
				rec := stdslog.NewRecord(ts, stdslog.LevelInfo, "tsprobe", 0)
				_ = h.Handle(bg, rec)
				return
			}
			lg.WriteThru(bg, plvl, ts, thePC, pmsg, tsAttrs)
		})
		desc := map[string]any{"level": plvl.String(), "message": pmsg, "through_log_slog_handler": viaHandler, "set_form": setForm, "derived": derived, "earlier_record_under": earlier, "after_saveflags_window": window, "format": f.String(), "flags": flagNames(fl), "utc_mode": []string{"unset", "local (SetUTCMode(false))", "utc"}[utc], "logger_layout": layout, "instant": ts.Format(time.RFC3339Nano), "zone": ts.Location().String()}
		if len(evs) != 1 {
			c.R.Violation(idx, "one-write", "C16/one-write", fmtEvents(evs), desc)
			return
		}
		var d *decoded
		var err error
		if tsAttrs != nil || blank {
			// the record's own timestamp leads the record; it is read from there (an attribute called time follows later)
			lead, ok := leadingTimestamp(f, evs[0].Data)
			if !ok {
				c.R.Violation(idx, "timestamp", "C16/timestamp/leading/"+f.String(), "the record does not begin with its timestamp: "+q(clip(string(evs[0].Data), 200)), desc)
				return
			}
			d = &decoded{Time: lead}
		} else if d, err = decodeRecord(f, evs[0].Data, lg.Name() != "", false); err != nil {
			c.R.Violation(idx, "decode", "C16/decode/"+f.String(), err.Error()+": "+q(clip(string(evs[0].Data), 300)), desc)
			return
		}
		c.R.Add("timestamps_extracted", 1)
		inUTC := utc == 2 || (utc == 0 && fl&slog.LlocalTime == 0)
		t := ts
		if inUTC {
			t = ts.UTC()
		}
		var candidates []string
		if layout != "" {
			candidates = []string{layout}
		} else if l, ok := c16flagTable[fl&(slog.Ldate|slog.Ltime|slog.Lmicroseconds)]; ok {
			candidates = []string{l}
		} else {
			candidates = exportedLayouts // flag combination the table does not list: any exported layout
		}
		matched := ""
		for _, l := range candidates {
			if d.Time == t.Format(l) {
				matched = l
				break
			}
		}
		zoneFeat := "zone-ok"
		if matched == "" {
			// which part is wrong?
			other := ts.UTC()
			if inUTC {
				other = ts
			}
			feat := "layout"
			for _, l := range candidates {
				if d.Time == other.Format(l) {
					feat = "zone"
				}
			}
			src := "flags"
			if layout != "" {
				src = "logger-layout"
			}
			_ = zoneFeat
			c.R.Violation(idx, "timestamp", "C16/timestamp/"+feat+"/"+src, fmt.Sprintf("timestamp %q; expected %q (instant %s in %s, layout %q)", d.Time, t.Format(candidates[0]), ts.Format(time.RFC3339Nano), map[bool]string{true: "UTC", false: "its own zone"}[inUTC], candidates[0]), desc)
			return
		}
		if layout == "" {
			// a flag-selected layout must SHOW the parts its flags name: parsed with that very layout, they are the instant's
			if why := flagTimestampProblem(d.Time, matched, t, fl); why != "" {
				c.R.Violation(idx, "parse-back", "C16/parse-back/flag-layout", fmt.Sprintf("timestamp %q printed with the flag-selected layout %q (flags %s): %s", d.Time, matched, flagNames(fl), why), desc)
				return
			}
			c.R.Add("flag_layout_parts_confirmed", 1)
		}
		_, zoff := t.Zone()
		// a numeric zone in a layout has minute resolution: historical local-mean-time offsets (+00:53:28) cannot round-trip through any layout
		if prec, inv := layoutInfo(matched); inv && zoff%60 == 0 {
			p, err := time.Parse(matched, d.Time)
			if err != nil || !p.Equal(ts.Truncate(prec)) {
				// Truncate works on absolute time, fine for sub-second precisions
				c.R.Violation(idx, "parse-back", "C16/parse-back", fmt.Sprintf("parsing %q with layout %q gives %v (err %v), the instant to that precision is %v", d.Time, matched, p, err, ts.Truncate(prec)), desc)
				return
			}
			c.R.Add("parsed_back", 1)
		}
		c.R.Distinct("zone_rule", fmt.Sprintf("utcmode=%d localflag=%v -> utc=%v", utc, fl&slog.LlocalTime != 0, inUTC))
		c.R.Distinct("layout_sources", map[bool]string{true: "logger:" + layout, false: "flags:" + flagNames(fl&(slog.Ldate|slog.Ltime|slog.Lmicroseconds))}[layout != ""])
		c.R.NonTrivial(d.Time, matched, f.String())
		if c.R.WantSample() {
			c.R.Sample(idx, desc, map[string]any{"printed": d.Time, "layout_used": matched})
		}
	})
}

// flagTimestampProblem parses a timestamp printed with a flag-selected layout and compares the parts the flags ask for
// (date, time of day, microseconds, zone offset) with the instant as it should be shown. Empty string: fine.
func flagTimestampProblem(printed, layout string, t time.Time, fl slog.Flags) string {
	p, err := time.Parse(layout, printed)
	if err != nil {
		return fmt.Sprintf("%q does not parse with its own layout %q: %v", printed, layout, err)
	}
	needDate := fl&slog.Ldate != 0
	needTime := fl&(slog.Ltime|slog.Lmicroseconds) != 0 && !(fl&(slog.Ldate|slog.Ltime|slog.Lmicroseconds) == slog.Ldate)
	if fl&(slog.Ldate|slog.Ltime|slog.Lmicroseconds) == 0 {
		needTime = true // no flag at all: some exported layout with at least the time of day
	}
	if needDate {
		if y, m, d := p.Date(); y != t.Year() || m != t.Month() || d != t.Day() {
			return fmt.Sprintf("date part reads %04d-%02d-%02d, the instant's is %04d-%02d-%02d", y, m, d, t.Year(), t.Month(), t.Day())
		}
	}
	if needTime {
		if p.Hour() != t.Hour() || p.Minute() != t.Minute() || p.Second() != t.Second() {
			return fmt.Sprintf("time of day reads %02d:%02d:%02d, the instant's is %02d:%02d:%02d", p.Hour(), p.Minute(), p.Second(), t.Hour(), t.Minute(), t.Second())
		}
		if fl&slog.Lmicroseconds != 0 && p.Nanosecond()/1000 != t.Nanosecond()/1000 {
			return fmt.Sprintf("microseconds read %06d, the instant's are %06d", p.Nanosecond()/1000, t.Nanosecond()/1000)
		}
		_, po := p.Zone()
		_, to := t.Zone()
		if strings.Contains(layout, "Z07") || strings.Contains(layout, "-07") {
			if po != to-to%60 && po != to {
				return fmt.Sprintf("zone offset reads %d s, the instant's is %d s", po, to)
			}
		}
	}
	return ""
}

// leadingTimestamp reads the timestamp a record begins with: {"time":"…" / time="…" / <colour>…| in the three formats.
func leadingTimestamp(f Format, p []byte) (string, bool) {
	switch f {
	case FJSON:
		if !bytes.HasPrefix(p, []byte(`{"time":"`)) {
			return "", false
		}
		rest := p[len(`{"time":"`):]
		i := bytes.IndexByte(rest, '"')
		if i < 0 {
			return "", false
		}
		return string(rest[:i]), true
	case FLogfmt:
		if !bytes.HasPrefix(p, []byte(`time="`)) {
			return "", false
		}
		rest := p[len(`time="`):]
		i := bytes.IndexByte(rest, '"')
		if i < 0 {
			return "", false
		}
		return string(rest[:i]), true
	}
	text := oracle.StripANSI(p)
	i := strings.Index(text, "| ")
	if i < 0 {
		return "", false
	}
	return text[:i], true
}

func flagNames(f slog.Flags) string {
	var s []string
	for _, x := range []struct {
		b slog.Flags
		n string
	}{{slog.Ldate, "Ldate"}, {slog.Ltime, "Ltime"}, {slog.Lmicroseconds, "Lmicroseconds"}, {slog.LlocalTime, "LlocalTime"}} {
		if f&x.b != 0 {
			s = append(s, x.n)
		}
	}
	if len(s) == 0 {
		return "none"
	}
	return strings.Join(s, "|")
}
