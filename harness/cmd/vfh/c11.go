package main

import (
	"bytes"
	"encoding/json"
	"errors"
	"fmt"
	"io"
	stdslog "log/slog"
	"os"
	"strconv"
	"strings"

	"github.com/hedzr/is"
	"github.com/hedzr/is/term/color"
	"github.com/hedzr/logg/slog"

	"verifharness/gen"
	"verifharness/mon"
)

func init() {
	reg("C11", "exh", c11exhaustive)
	reg("C11", "rand", c11random)
}

var errProbe = errors.New("probe error")

// c11handlers: the log/slog handler last built on a logger of the current tree.
var c11handlers = map[*slog.Entry]stdslog.Handler{}

var c11noColours bool

// c11noColorSwitch: the process runs with is.SetNoColorMode(true)
var c11noColorSwitch bool

// failingW reports an error for everything it is handed.
type failingW struct{}

func (failingW) Write(p []byte) (int, error) { return 0, errors.New("destination is gone") }

// c11w is the monitored destination every logger of a C11 tree writes to.
var c11w io.Writer

// c11log is the event log behind c11w.
var c11log *mon.Log

type modeCall struct {
	name string
	// apply on the target; returns the logger whose state the call defines (target for Set, new child for With / New option)
	do func(t *slog.Entry, seq int) (affected *slog.Entry, created bool)
	// next state of the affected logger given its state at the time of the call
	next func(s Format) Format
}

func jsonNext(mode bool) func(Format) Format {
	return func(s Format) Format {
		if mode {
			return FJSON
		}
		if s == FJSON {
			return FLogfmt
		}
		return s
	}
}

func colorNext(mode bool) func(Format) Format {
	return func(Format) Format {
		if mode {
			return FColor
		}
		return FLogfmt
	}
}

func modeAlphabet(full bool) []modeCall {
	set := func(name string, f func(t *slog.Entry) *slog.Entry, nx func(Format) Format) modeCall {
		return modeCall{name, func(t *slog.Entry, _ int) (*slog.Entry, bool) { return f(t), false }, nx}
	}
	with := func(name string, f func(t *slog.Entry) *slog.Entry, nx func(Format) Format) modeCall {
		return modeCall{name, func(t *slog.Entry, _ int) (*slog.Entry, bool) { return f(t), true }, nx}
	}
	a := []modeCall{
		set("SetJSONMode()", func(t *slog.Entry) *slog.Entry { return t.SetJSONMode() }, jsonNext(true)),
		set("SetJSONMode(true)", func(t *slog.Entry) *slog.Entry { return t.SetJSONMode(true) }, jsonNext(true)),
		set("SetJSONMode(false)", func(t *slog.Entry) *slog.Entry { return t.SetJSONMode(false) }, jsonNext(false)),
		set("SetColorMode()", func(t *slog.Entry) *slog.Entry { return t.SetColorMode() }, colorNext(true)),
		set("SetColorMode(true)", func(t *slog.Entry) *slog.Entry { return t.SetColorMode(true) }, colorNext(true)),
		set("SetColorMode(false)", func(t *slog.Entry) *slog.Entry { return t.SetColorMode(false) }, colorNext(false)),
		with("WithJSONMode()", func(t *slog.Entry) *slog.Entry { return t.WithJSONMode() }, jsonNext(true)),
		with("WithJSONMode(false)", func(t *slog.Entry) *slog.Entry { return t.WithJSONMode(false) }, jsonNext(false)),
		with("WithColorMode()", func(t *slog.Entry) *slog.Entry { return t.WithColorMode() }, colorNext(true)),
		with("WithColorMode(false)", func(t *slog.Entry) *slog.Entry { return t.WithColorMode(false) }, colorNext(false)),
	}
	if full {
		a = append(a,
			set("SetJSONMode(false,true)", func(t *slog.Entry) *slog.Entry { return t.SetJSONMode(false, true) }, jsonNext(true)),
			set("SetJSONMode(true,false)", func(t *slog.Entry) *slog.Entry { return t.SetJSONMode(true, false) }, jsonNext(false)),
			set("SetColorMode(true,false)", func(t *slog.Entry) *slog.Entry { return t.SetColorMode(true, false) }, colorNext(false)),
			set("SetColorMode(false,true)", func(t *slog.Entry) *slog.Entry { return t.SetColorMode(false, true) }, colorNext(true)),
			// (the new child has a sibling whose name differs from its own in the case of the letters only)
			modeCall{"New(opt WithJSONMode(true))", func(t *slog.Entry, seq int) (*slog.Entry, bool) {
				_ = t.New(fmt.Sprintf("OptJ%d", seq))
				return t.New(fmt.Sprintf("optj%d", seq), slog.WithJSONMode(true)), true
			}, jsonNext(true)},
			modeCall{"New(opt WithColorMode(false))", func(t *slog.Entry, seq int) (*slog.Entry, bool) {
				_ = t.New(fmt.Sprintf("optc%d", seq))
				return t.New(fmt.Sprintf("OPTC%d", seq), slog.WithColorMode(false)), true
			}, colorNext(false)},
			modeCall{"New(opt WithJSONMode(false))", func(t *slog.Entry, seq int) (*slog.Entry, bool) {
				return t.New(fmt.Sprintf("optn%d", seq), slog.WithJSONMode(false)), true
			}, jsonNext(false)},
			// New on a logger with options only (no name), with an empty name, and with the mode option behind another option
			modeCall{"New(opt WithJSONMode(true)) without a name", func(t *slog.Entry, seq int) (*slog.Entry, bool) {
				return t.New(slog.WithJSONMode(true)), true
			}, jsonNext(true)},
			modeCall{"New(opts WithJSONMode(),WithJSONMode(false)) without a name", func(t *slog.Entry, seq int) (*slog.Entry, bool) {
				return t.New(slog.WithJSONMode(), slog.WithJSONMode(false)), true
			}, func(s Format) Format { return jsonNext(false)(jsonNext(true)(s)) }},
			modeCall{"New(opt WithColorMode(false)) without a name", func(t *slog.Entry, seq int) (*slog.Entry, bool) {
				return t.New(slog.WithColorMode(false)), true
			}, colorNext(false)},
			// an anonymous child; if its generated name ends in a NUMBER, a sibling named by the application in the same style
			// (two further on); then WithJSONMode(true): a NEW child in JSON, the named sibling keeps its format
			modeCall{"WithJSONMode(true) next to a sibling named like a generated name", func(t *slog.Entry, seq int) (*slog.Entry, bool) {
				a := t.New()
				nm := a.Name()
				i := len(nm)
				for i > 0 && nm[i-1] >= '0' && nm[i-1] <= '9' {
					i--
				}
				var sib *slog.Entry
				if i < len(nm) && len(nm)-i < 9 {
					k, _ := strconv.Atoi(nm[i:])
					sib = t.New(nm[:i] + strconv.Itoa(k+2))
				}
				b := t.WithJSONMode(true)
				if b == a || (sib != nil && b == sib) {
					c11clash = fmt.Sprintf("WithJSONMode(true) handed out an existing child (%q) instead of a new one: that child's format is no longer decided by its own mode calls (siblings: %q generated, %v named by the application)", b.Name(), nm, sib != nil)
				}
				return b, true
			}, jsonNext(true)},
			modeCall{"New(\"\",opt WithColorMode(true))", func(t *slog.Entry, seq int) (*slog.Entry, bool) {
				return t.New("", slog.WithColorMode(true)), true
			}, colorNext(true)},
			modeCall{"New(name,WithLevel,WithJSONMode(true))", func(t *slog.Entry, seq int) (*slog.Entry, bool) {
				return t.New(fmt.Sprintf("optl%d", seq), slog.WithLevel(slog.AlwaysLevel), slog.WithJSONMode(true)), true
			}, jsonNext(true)},
			// calls that are NOT mode calls leave the format alone: a destination that is a real file, a level, attributes
			set("SetWriter(*os.File) SetWriter(back)", func(t *slog.Entry) *slog.Entry {
				f, err := os.CreateTemp("", "c11-*.log")
				if err != nil {
					return t
				}
				defer os.Remove(f.Name())
				defer f.Close()
				t.SetWriter(f).SetErrorWriter(f)
				t.Info("a record into a real file")
				return t.SetWriter(c11w).SetErrorWriter(c11w)
			}, func(s Format) Format { return s }),
			set("a record into a log file made by NewFileWriter", func(t *slog.Entry) *slog.Entry {
				// the same record into a file made by the package's own constructor and into the recording destination:
				// where a record goes is no input of its format
				d, err := os.MkdirTemp("", "c11-fw-*")
				if err != nil {
					return t
				}
				defer os.RemoveAll(d)
				fw := slog.NewFileWriter(d + "/app.log")
				t.SetWriter(fw).SetErrorWriter(fw)
				t.Info("shape-probe", "k", 1)
				_ = fw.Close()
				inFile, _ := os.ReadFile(d + "/app.log")
				t.SetWriter(c11w).SetErrorWriter(c11w)
				var direct []byte
				for _, e := range capture(c11log, func() { t.Info("shape-probe", "k", 1) }) {
					direct = append(direct, e.Data...)
				}
				f1, ok1 := classify(inFile, false)
				f2, ok2 := classify(direct, false)
				if ok2 && (!ok1 || f1 != f2) {
					c11clash = fmt.Sprintf("the same record reads as %v in the recording destination and as %q in a log file made by NewFileWriter (%s)", f2, clip(string(inFile), 160), map[bool]string{true: "a whole " + f1.String() + " record", false: "not a whole record of any of the three formats"}[ok1])
				}
				return t
			}, func(s Format) Format { return s }),
			set("a record to a destination that fails", func(t *slog.Entry) *slog.Entry {
				t.SetWriter(failingW{}).SetErrorWriter(failingW{})
				t.Info("a record whose destination reports an error")
				t.Error("and an error-class one")
				return t.SetWriter(c11w).SetErrorWriter(c11w)
			}, func(s Format) Format { return s }),
			set("SetLevelColors(no colours at all)", func(t *slog.Entry) *slog.Entry {
				// the colours of the two probe severities are taken away (and given back by the next such call)
				c11noColours = !c11noColours
				if c11noColours {
					slog.SetLevelColors(slog.InfoLevel, color.NoColor, color.NoColor)
					slog.SetLevelColors(slog.WarnLevel, color.NoColor, color.NoColor)
				} else {
					slog.SetLevelColors(slog.InfoLevel, color.FgCyan, color.NoColor)
					slog.SetLevelColors(slog.WarnLevel, color.FgYellow, color.NoColor)
				}
				return t
			}, func(s Format) Format { return s }),
			// (... nor is fetching an existing child by its name, whatever options that call carries: the child is handed
			// out as it is and the receiver is left alone)
			set("SetLevel SetAttrs SetTimeFormat", func(t *slog.Entry) *slog.Entry {
				t.SetLevel(slog.AlwaysLevel).SetAttrs(slog.Int("x", 1)).SetTimeFormat("15:04:05")
				name := fmt.Sprintf("fetched-twice-%d", len(t.Name()))
				first := t.New(name)
				if again := t.New(name, slog.WithJSONMode(!t.JSONMode()), slog.WithColorMode(!t.ColorMode())); again != first {
					panic("harness: New(name) of an existing child created another logger (C10's subject)")
				}
				return t
			}, func(s Format) Format { return s }),
			// WithSkip(n) keeps one child per n: the second call returns the child made by the first, whose format is its
			// own by then (handing it out again is not a mode call)
			modeCall{"WithSkip(1)", func(t *slog.Entry, _ int) (*slog.Entry, bool) { return t.WithSkip(1), true }, func(s Format) Format { return s }},
			// a log/slog handler built on the logger applies its options (a mode call like any other) ...
			set("NewSlogHandler(JSON)", func(t *slog.Entry) *slog.Entry {
				c11handlers[t] = slog.NewSlogHandler(t, &slog.HandlerOptions{JSON: true, NoSource: true, Level: slog.PanicLevel})
				return t
			}, func(Format) Format { return FJSON }),
			set("NewSlogHandler(NoColor)", func(t *slog.Entry) *slog.Entry {
				c11handlers[t] = slog.NewSlogHandler(t, &slog.HandlerOptions{NoColor: true, NoSource: true, Level: slog.PanicLevel})
				return t
			}, func(Format) Format { return FLogfmt }),
			// ... once, when it is built: records that go through it later are not mode calls
			set("log through the handler built earlier", func(t *slog.Entry) *slog.Entry {
				if h := c11handlers[t]; h != nil {
					stdslog.New(h).Warn("through the log/slog handler", "k", 1)
				}
				return t
			}, func(s Format) Format { return s }),
			with("WithJSONMode(true,false)", func(t *slog.Entry) *slog.Entry { return t.WithJSONMode(true, false) }, jsonNext(false)),
			// children made by the attribute constructors got no mode call: they start in their parent's format
			with("With(k,v)", func(t *slog.Entry) *slog.Entry { return t.With("req", 7) }, func(s Format) Format { return s }),
			with("WithAttrs(attr)", func(t *slog.Entry) *slog.Entry { return t.WithAttrs(slog.String("peer", "10.0.0.1")) }, func(s Format) Format { return s }),
			with("WithAttrs1(attrs)", func(t *slog.Entry) *slog.Entry { return t.WithAttrs1(slog.NewAttrs("a1", 1, "a2", 2.5)) }, func(s Format) Format { return s }),
			// a mode call handed an EMPTY list of booleans (a slice the application filters its flags into: empty, not nil)
			// is a mode call without arguments
			set("SetJSONMode(empty list...)", func(t *slog.Entry) *slog.Entry { return t.SetJSONMode(make([]bool, 0, 1)...) }, jsonNext(true)),
			set("SetColorMode(empty list...)", func(t *slog.Entry) *slog.Entry { return t.SetColorMode([]bool{}...) }, colorNext(true)),
			with("WithJSONMode(empty list...)", func(t *slog.Entry) *slog.Entry { return t.WithJSONMode([]bool{}...) }, jsonNext(true)),
			// New(name, attributes..., mode option): options may follow attributes (the doc comment of New shows that order)
			modeCall{"New(name,k,v,Attr,WithJSONMode())", func(t *slog.Entry, seq int) (*slog.Entry, bool) {
				return t.New(fmt.Sprintf("opta%d", seq), "k", 1, slog.Int("n", 2), slog.WithJSONMode()), true
			}, jsonNext(true)},
			// a line that holds < and & through a std log bridge on the logger (not a mode call): a record of the logger's format
			set("a line with < and & through a std log bridge", func(t *slog.Entry) *slog.Entry {
				bl := slog.NewLogLogger(t, slog.InfoLevel)
				var got []byte
				for _, e := range capture(c11log, func() { bl.Print("shape-probe: a < b && c") }) {
					got = append(got, e.Data...)
				}
				want := FLogfmt
				if t.JSONMode() {
					want = FJSON
				} else if t.ColorMode() {
					want = FColor
				}
				if f, ok := classify(got, false); len(got) > 0 && (!ok || f != want) {
					c11clash = fmt.Sprintf("a line that holds < and & sent through a std log bridge on a %v logger came out as %q (%s)", want, clip(string(got), 160), map[bool]string{true: "a whole " + f.String() + " record", false: "not a whole record of any of the three formats"}[ok])
				}
				return t
			}, func(s Format) Format { return s }),
			// the New(...) option spelling with SEVERAL booleans: the last one is the mode, as in the setter and the method
			modeCall{"New(name,WithJSONMode(false,true))", func(t *slog.Entry, seq int) (*slog.Entry, bool) {
				return t.New(fmt.Sprintf("optft%d", seq), slog.WithJSONMode(false, true)), true
			}, jsonNext(true)},
			modeCall{"New(name,WithColorMode(true,false))", func(t *slog.Entry, seq int) (*slog.Entry, bool) {
				return t.New(fmt.Sprintf("opttf%d", seq), slog.WithColorMode(true, false)), true
			}, colorNext(false)},
			// the package-level Reset() ("clear user settings": flags and the default level) while THIS logger is the
			// process's default logger: no mode call, on nobody
			set("slog.Reset() while the logger is the default logger", func(t *slog.Entry) *slog.Entry {
				saved, fl, lv := slog.Default(), slog.GetFlags(), t.Level()
				slog.SetDefault(t)
				slog.Reset()
				slog.SetDefault(saved)
				slog.SetFlags(fl)
				t.SetLevel(lv)
				return t
			}, func(s Format) Format { return s }),
		)
	}
	return a
}

// classify names the format of a payload and says whether the payload is, as a whole, a record of that format: a JSON
// record is one line holding one valid object, a logfmt record one line of pairs (under go test a record that carries
// an error value is followed by the plain-text dump of that error), neither of them contains an escape byte; a colored
// record does.
func classify(p []byte, dumpAllowed bool) (Format, bool) {
	whole := len(p) > 0 && p[len(p)-1] == '\n'
	oneLine := whole && bytes.Count(p, []byte{'\n'}) == 1
	esc := bytes.IndexByte(p, 0x1b) >= 0
	switch {
	case len(p) > 0 && p[0] == '{':
		return FJSON, oneLine && !esc && json.Valid(p[:len(p)-1])
	case bytes.HasPrefix(p, []byte("time=")):
		return FLogfmt, whole && !esc && (oneLine || dumpAllowed)
	case esc:
		return FColor, whole && !c11noColorSwitch
	case c11noColorSwitch:
		// with the application's no-color switch on, the colored-text format is its LAYOUT without escape sequences:
		// "<timestamp>| [<logger> ]\[<TAG>\] <message> ..."
		i := bytes.Index(p, []byte("| "))
		j := bytes.Index(p, []byte("] "))
		return FColor, whole && i > 0 && j > i && bytes.IndexByte(p[i:j], '[') > 0
	}
	return 0, false
}

type c11step struct {
	call   int
	target int
}

// c11run executes one sequence on a fresh three-logger tree and checks getters and probe shapes of every logger after every call.
// c11clash: set by an alphabet call that compared the same record at two destinations
var c11clash string

func c11run(c *Ctx, idx int, log *mon.Log, w mon.W, alpha []modeCall, steps []c11step) bool {
	c11w = w
	c11log = log
	if c11noColours {
		c11noColours = false
		slog.SetLevelColors(slog.InfoLevel, color.FgCyan, color.NoColor)
		slog.SetLevelColors(slog.WarnLevel, color.FgYellow, color.NoColor)
	}
	c11handlers = map[*slog.Entry]stdslog.Handler{}
	if idx%7 == 3 {
		// a handle of the process's default logger is kept while the application installs ANOTHER logger (of another
		// format) as the default: the kept logger got no mode call, its format is what it was
		old := slog.Default()
		oj, oc := old.JSONMode(), old.ColorMode()
		other := slog.New("another-default")
		other.SetJSONMode(!oj)
		slog.SetDefault(other)
		nj, nc := old.JSONMode(), old.ColorMode()
		slog.SetDefault(old)
		c.R.Add("kept_handles_of_the_default_logger_checked_across_SetDefault", 1)
		if nj != oj || nc != oc {
			c.R.Violation(idx, "getters", "C11/getters/kept-default-handle", fmt.Sprintf("a logger obtained from Default() reported JSONMode=%v ColorMode=%v; after SetDefault(another logger) - no mode call on it - it reports JSONMode=%v ColorMode=%v", oj, oc, nj, nc), nil)
			return false
		}
	}
	root := newRoot("root", FColor, w, slog.AlwaysLevel)
	start := FColor
	if idx%5 == 2 {
		// the root is made while the flag LsmartJSONMode is set ("JSON when the output device is not a terminal" - a
		// documented flag that nothing reads today) and gets NO mode call of its own: it may start colored or as JSON,
		// but as exactly one of them; which one is read from its getters, and everything after follows the rule
		slog.AddFlags(slog.LsmartJSONMode)
		root = rawEntry(slog.New("root"))
		slog.RemoveFlags(slog.LsmartJSONMode)
		root.SetWriter(w).SetErrorWriter(w).SetLevel(slog.AlwaysLevel)
		c.R.Add("roots_created_under_the_smart_JSON_flag_without_a_mode_call", 1)
		switch j, cm := root.JSONMode(), root.ColorMode(); {
		case j && !cm:
			start = FJSON
		case cm && !j:
			start = FColor
		default:
			c.R.Violation(idx, "getters", "C11/getters/exactly-one-format", fmt.Sprintf("a logger made by the package-level New while the flag LsmartJSONMode was set reports JSONMode=%v ColorMode=%v: not exactly one of the three formats", j, cm), nil)
			return false
		}
	}
	a := root.New("a")
	b := a.New("b")
	for _, l := range []*slog.Entry{a, b} {
		l.SetWriter(w).SetErrorWriter(w).SetLevel(slog.AlwaysLevel)
	}
	loggers := []*slog.Entry{root, a, b}
	state := []Format{start, start, start}
	var hist []string
	for si, st := range steps {
		mc := alpha[st.call]
		t := loggers[st.target]
		hist = append(hist, fmt.Sprintf("%s@%d", mc.name, st.target))
		aff, created := mc.do(t, si)
		if c11clash != "" {
			why := c11clash
			c11clash = ""
			c.R.Violation(idx, "record-shape", "C11/observed-inside-a-call/"+strings.ReplaceAll(mc.name, " ", "_"), fmt.Sprintf("after %v: %s", hist, why), map[string]any{"sequence": hist})
			return false
		}
		known := false
		for _, l := range loggers {
			known = known || l == aff
		}
		if created && known && !strings.HasPrefix(mc.name, "WithSkip") {
			c.R.Violation(idx, "with-returns-new-child", "C11/with-returns-new-child/"+strings.ReplaceAll(mc.name, " ", "_"), fmt.Sprintf("after %v the call handed out a logger that existed already (its format is no longer decided by its own mode calls)", hist), map[string]any{"sequence": hist})
			return false
		}
		if created && known {
			// the call handed out a logger that exists already (WithSkip keeps one child per count): nothing changes
			created = false
		} else if created {
			aff.SetWriter(w).SetErrorWriter(w).SetLevel(slog.AlwaysLevel)
			loggers = append(loggers, aff)
			state = append(state, mc.next(state[st.target]))
		} else {
			if aff != t {
				c.R.Violation(idx, "set-returns-receiver", "C11/set-returns-receiver/"+strings.ReplaceAll(mc.name, " ", "_"), "a Set call did not return its receiver", map[string]any{"sequence": hist})
				return false
			}
			state[st.target] = mc.next(state[st.target])
		}
		for i, l := range loggers {
			want := state[i]
			if l.JSONMode() != (want == FJSON) || l.ColorMode() != (want == FColor) {
				c.R.Violation(idx, "getters", "C11/getters/"+strings.ReplaceAll(mc.name, " ", "_"), fmt.Sprintf("after %v logger #%d reports JSONMode=%v ColorMode=%v, the state machine says %v", hist, i, l.JSONMode(), l.ColorMode(), want), map[string]any{"sequence": hist})
				return false
			}
			// every other probe carries an error value (under go test the library appends a dump of it to the record:
			// that dump belongs to the record and has the record's format)
			// ... and every third one has a message of several lines
			msg := "shape-probe"
			if (si+2*i)%3 == 0 {
				msg = "shape-probe\nsecond line of the probe\nthird"
				c.R.Add("probes_with_a_message_of_several_lines", 1)
			}
			withErr := (si+i)%2 != 0
			// ... and now and then the message is empty or blank, on a call without arguments: a record like any other (only
			// Print / Println make a blank line of it)
			blank := (si+5*i)%6 == 2 && !withErr
			if blank {
				msg = []string{"", " ", "\t "}[(si+i)%3]
				c.R.Add("probes_with_a_blank_message_and_no_arguments", 1)
			}
			// ... and some carry a group of attributes in the middle of their arguments
			args := []any{"k", 1}
			if (si+i)%5 == 3 {
				// ... or a severity as an attribute VALUE (a value like any other: it is no input of the record's shape)
				args = []any{"k", 1, "lv", slog.WarnLevel, "lv2", slog.ErrorLevel}
				c.R.Add("probes_with_a_level_valued_attribute", 1)
			} else if (si+3*i)%4 == 1 {
				args = []any{"k", 1, slog.Group("req", "method", "GET", "status", 200), "z", true}
				c.R.Add("probes_with_a_group_attribute", 1)
			}
			evs := capture(log, func() {
				if blank {
					if si%2 == 0 {
						l.Info(msg)
					} else {
						l.Warn(msg)
					}
				} else if !withErr {
					l.Info(msg, args...)
				} else {
					l.Warn(msg, append(args, "err", errProbe)...)
				}
			})
			if len(evs) != 1 {
				c.R.Violation(idx, "probe", "C11/probe/count", fmt.Sprintf("probe produced %d events", len(evs)), map[string]any{"sequence": hist})
				return false
			}
			got, ok := classify(evs[0].Data, withErr && c.Testing)
			c.R.Add("probes_classified", 1)
			if !ok || got != want {
				who := "the-target"
				if i != st.target && !(created && i == len(loggers)-1) {
					who = "another-logger"
				}
				c.R.Violation(idx, "record-shape", "C11/record-shape/"+strings.ReplaceAll(mc.name, " ", "_")+"/"+who, fmt.Sprintf("after %v logger #%d emits %s (%s), the state machine says %v", hist, i, q(clip(string(evs[0].Data), 120)), map[bool]string{true: "a whole " + got.String() + " record", false: "not a whole record of any of the three formats; nearest: " + got.String()}[ok], want), map[string]any{"sequence": hist})
				return false
			}
		}
	}
	c.R.NonTrivial(strings.Join(hist, ";"))
	if c.R.WantSample() && len(steps) >= 2 {
		var fin []string
		for _, s := range state {
			fin = append(fin, s.String())
		}
		c.R.Sample(idx, map[string]any{"sequence": hist}, map[string]any{"final_states": fin})
	}
	return true
}

func c11exhaustive(c *Ctx) {
	log := mon.NewLog()
	w := mon.New(log, "W", mon.ShapePlain)
	slog.RemoveFlags(slog.Lcaller)
	alpha := modeAlphabet(c.X("full", "1") == "1")
	n := len(alpha) * 3
	c.R.Max("alphabet_calls_x_targets", int64(n))
	c.Each(func(idx int, r *gen.R) {
		k := idx
		length, block := 0, 1
		for k >= block {
			k -= block
			block *= n
			length++
		}
		var steps []c11step
		for i := 0; i < length; i++ {
			steps = append(steps, c11step{call: (k % n) / 3, target: (k % n) % 3})
			k /= n
		}
		c11run(c, idx, log, w, alpha, steps)
		c.R.Max("max_sequence_length", int64(length))
	})
}

func c11random(c *Ctx) {
	log := mon.NewLog()
	w := mon.New(log, "W", mon.ShapePlain)
	slog.RemoveFlags(slog.Lcaller)
	alpha := modeAlphabet(true)
	if c.X("nocolormode", "") == "1" {
		// the application's process-wide "--no-color" switch (hedzr/is) is on: the format is decided by mode calls
		is.SetNoColorMode(true)
		c11noColorSwitch = true
		c.R.Add("processes_with_the_no_color_switch_on", 1)
	}
	c.Each(func(idx int, r *gen.R) {
		n := r.Range(4, 15)
		var steps []c11step
		for i := 0; i < n; i++ {
			steps = append(steps, c11step{call: r.Intn(len(alpha)), target: r.Intn(3)})
		}
		c11run(c, idx, log, w, alpha, steps)
	})
}
