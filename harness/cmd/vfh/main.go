// vfh is the instrumented workload binary: one sub-command per property and
// sub-workload. It generates cases from (seed, property, sub, index), drives the
// real library, lets the monitors/oracles judge each execution and reports
// through package rep. Run as "vfh" the library sees a production process, run
// through the symlink "vfh.test -test.vf=1" it sees a process under go test.
package main

import (
	"runtime"
	"flag"
	"fmt"
	"os"
	"runtime/debug"
	"sort"
	"strings"

	"verifharness/gen"
	"verifharness/rep"
)

type Ctx struct {
	R       *rep.Reporter
	Prop    string
	Sub     string
	Seed    int64
	From    int
	To      int
	Only    int
	Tier    string
	Self    string // path of the production-mode binary (self + ".test" is the testing-mode name)
	Testing bool   // this process looks like "under go test" to the library
	Extra   map[string]string
}

type subFn func(c *Ctx)

var subs = map[string]subFn{}

func reg(prop, sub string, f subFn) { subs[prop+"/"+sub] = f }

func main() {
	var c Ctx
	var out string
	var vf string
	var extra string
	fs := flag.NewFlagSet("vfh", flag.ContinueOnError)
	fs.StringVar(&c.Prop, "prop", "", "")
	fs.StringVar(&c.Sub, "sub", "", "")
	fs.Int64Var(&c.Seed, "seed", 1, "")
	fs.IntVar(&c.From, "from", 0, "")
	fs.IntVar(&c.To, "to", 0, "")
	fs.IntVar(&c.Only, "only", -1, "")
	fs.StringVar(&c.Tier, "tier", "quick", "")
	fs.StringVar(&c.Self, "self", "", "")
	fs.StringVar(&out, "out", "", "")
	fs.StringVar(&vf, "test.vf", "", "")
	fs.StringVar(&extra, "x", "", "k=v,k=v extra parameters")
	var benchLabel string
	fs.StringVar(&benchLabel, "benchlabel", "", "ignored: lets a probe process carry an argument that starts with -bench")
	if err := fs.Parse(os.Args[1:]); err != nil {
		fmt.Fprintln(os.Stderr, "harness usage error:", err)
		os.Exit(3)
	}
	c.Extra = map[string]string{}
	for _, kv := range strings.Split(extra, ",") {
		if i := strings.Index(kv, "="); i > 0 {
			c.Extra[kv[:i]] = kv[i+1:]
		}
	}
	c.Testing = strings.HasSuffix(os.Args[0], ".test") && vf != ""
	if c.Prop == "C12" && c.Sub == "exec" { // the probe process of C12: one call, reports through files of its own
		if cf := c.X("casefile", ""); cf != "" {
			b, _ := os.ReadFile(cf)
			c.Extra["case"] = string(b)
			c12exec(&c, out)
		}
		c12execNegative(&c, out)
	}
	if c.Prop == "C15" && c.Sub == "exec" {
		c15exec(&c, out)
	}
	if c.Prop == "C09" && c.Sub == "exec" {
		c09exec(&c, out)
	}
	f := subs[c.Prop+"/"+c.Sub]
	if f == nil {
		var ks []string
		for k := range subs {
			ks = append(ks, k)
		}
		sort.Strings(ks)
		fmt.Fprintf(os.Stderr, "harness usage error: unknown workload %s/%s (have %v)\n", c.Prop, c.Sub, ks)
		os.Exit(3)
	}
	var err error
	c.R, err = rep.Open(out)
	if err != nil {
		fmt.Fprintln(os.Stderr, "harness usage error:", err)
		os.Exit(3)
	}
	f(&c)
	if n := gen.NestedRecords(); n > 0 {
		c.R.Add("records_issued_from_inside_a_value_being_formatted", int64(n))
	}
	c.R.Done()
}

const emptyPoolsEvery = 29

// currentCase is the index of the case being executed (helpers that alternate between two behaviours use its parity,
// so that a case replayed alone behaves as it did in the run)
var currentCase int

// Each runs fn for every case index of this child (or just -only), journalling the
// index first and turning an escaping panic into a violation of clause "panic".
func (c *Ctx) Each(fn func(idx int, r *gen.R)) {
	for idx := c.From; idx < c.To; idx++ {
		if c.Only >= 0 && idx != c.Only {
			continue
		}
		c.R.Journal(idx)
		if idx%emptyPoolsEvery == 0 && c.Prop != "C08" {
			// every 29th case index starts with the library's object pools emptied (two collections drop what a
			// sync.Pool holds): what a pooled object does on its FIRST use is then exercised throughout a run, and a case
			// replayed alone (fresh process) sees the same
			runtime.GC()
			runtime.GC()
			c.R.Add("cases_started_with_emptied_object_pools", 1)
		}
		c.one(idx, fn)
	}
}

func (c *Ctx) one(idx int, fn func(idx int, r *gen.R)) {
	defer func() {
		if e := recover(); e != nil {
			st := string(debug.Stack())
			c.R.Violation(idx, "panic", c.Prop+"/panic/"+panicSite(st), fmt.Sprintf("panic escaped: %v\n%s", e, clipStack(st)), nil)
		}
	}()
	mode := ""
	if c.Testing {
		mode = "@test"
	}
	currentCase = idx
	fn(idx, gen.NewR(c.Seed, c.Prop, c.Sub+mode, idx))
}

// panicSite names the first library frame below the panic for the signature.
func panicSite(st string) string {
	lines := strings.Split(st, "\n")
	seenPanic := false
	for _, ln := range lines {
		if strings.HasPrefix(ln, "panic(") {
			seenPanic = true
			continue
		}
		if seenPanic && strings.HasPrefix(ln, "github.com/hedzr/logg/") {
			fn := ln
			if i := strings.Index(fn, "("); i > 0 {
				// keep method receivers like (*Entry).Println: cut at the last '(' that starts the args
				if j := strings.LastIndex(fn, "("); j > 0 {
					fn = fn[:j]
				}
			}
			fn = strings.TrimPrefix(fn, "github.com/hedzr/logg/")
			return fn
		}
	}
	for _, ln := range lines {
		if strings.HasPrefix(ln, "github.com/hedzr/logg/") {
			fn := ln
			if j := strings.LastIndex(fn, "("); j > 0 {
				fn = fn[:j]
			}
			return strings.TrimPrefix(fn, "github.com/hedzr/logg/")
		}
	}
	return "harness"
}

func clipStack(st string) string {
	if len(st) > 2500 {
		return st[:2500] + "…"
	}
	return st
}

func (c *Ctx) X(k, def string) string {
	if v, ok := c.Extra[k]; ok {
		return v
	}
	return def
}
