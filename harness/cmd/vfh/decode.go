package main

import (
	"bytes"
	"fmt"
	"strings"

	"verifharness/oracle"
)

// flatKV is one decoded attribute leaf: dotted key and the decoded value text.
type flatKV struct {
	Key    string
	Text   string
	Raw    string
	Quoted bool
}

type decoded struct {
	Time, Logger, Level, Msg string
	HasLogger                bool
	Attrs                    []flatKV // in emission order, groups flattened to dotted keys
	Caller                   map[string]string
	Node                     *oracle.Node
}

func nodeText(n *oracle.Node) string {
	switch n.Kind {
	case oracle.JStr:
		return n.Str
	case oracle.JNum:
		return n.Num
	case oracle.JBool:
		return fmt.Sprint(n.Bool)
	case oracle.JNull:
		return "<nil>"
	}
	return n.Brief()
}

func flattenNode(prefix string, n *oracle.Node, out *[]flatKV, skip map[string]bool) {
	for _, m := range n.Members {
		if prefix == "" && skip[m.Key] {
			continue
		}
		k := m.Key
		if prefix != "" {
			k = prefix + "." + m.Key
		}
		if m.Val.Kind == oracle.JObj {
			flattenNode(k, m.Val, out, nil)
			continue
		}
		*out = append(*out, flatKV{k, nodeText(m.Val), m.Val.Brief(), m.Val.Kind == oracle.JStr})
	}
}

// decodeRecord decodes one payload of the given format into envelope + ordered attribute leaves.
// named: the logger has a name; caller: the caller flag is on.
func decodeRecord(f Format, payload []byte, named, caller bool) (*decoded, error) {
	if len(payload) == 0 || payload[len(payload)-1] != '\n' {
		return nil, fmt.Errorf("payload does not end with a newline")
	}
	d := &decoded{Caller: map[string]string{}}
	switch f {
	case FJSON:
		line := payload[:len(payload)-1]
		n, err := oracle.ParseJSONLine(line)
		if err != nil {
			return nil, err
		}
		d.Node = n
		get := func(k string) string {
			if m := n.Get(k); m != nil && m.Kind == oracle.JStr {
				return m.Str
			}
			return ""
		}
		d.Time, d.Level, d.Msg = get("time"), get("level"), get("msg")
		skip := map[string]bool{"time": true, "level": true, "msg": true, "caller": true}
		if named {
			d.Logger, d.HasLogger = get("logger"), n.Get("logger") != nil
			skip["logger"] = true
		}
		if c := n.Get("caller"); c != nil && c.Kind == oracle.JObj {
			for _, m := range c.Members {
				d.Caller[m.Key] = nodeText(m.Val)
			}
		}
		flattenNode("", n, &d.Attrs, skip)
		return d, nil
	case FLogfmt:
		line := payload[:len(payload)-1]
		if bytes.IndexByte(line, '\n') >= 0 {
			return nil, fmt.Errorf("logfmt record spans several lines")
		}
		pairs, err := oracle.ParseLogfmt(line)
		if err != nil {
			return nil, err
		}
		i := 0
		take := func(k string) (string, bool) {
			if i < len(pairs) && pairs[i].HasKey && pairs[i].Key == k {
				i++
				return pairs[i-1].Val, true
			}
			return "", false
		}
		var ok bool
		if d.Time, ok = take("time"); !ok {
			return nil, fmt.Errorf("first pair is not time=")
		}
		if named {
			d.Logger, d.HasLogger = take("logger")
		}
		if d.Level, ok = take("level"); !ok {
			return nil, fmt.Errorf("level= pair missing")
		}
		if d.Msg, ok = take("msg"); !ok {
			return nil, fmt.Errorf("msg= pair missing")
		}
		rest := pairs[i:]
		if caller && len(rest) >= 3 && rest[len(rest)-3].Key == "caller.file" {
			for _, p := range rest[len(rest)-3:] {
				d.Caller[strings.TrimPrefix(p.Key, "caller.")] = p.Val
			}
			rest = rest[:len(rest)-3]
		}
		for _, p := range rest {
			k := p.Key
			if !p.HasKey {
				k = "<no-key>"
			}
			d.Attrs = append(d.Attrs, flatKV{k, p.Val, p.Raw, p.Quoted})
		}
		return d, nil
	default:
		text := oracle.StripANSI(payload)
		nl := strings.IndexByte(text, '\n')
		main := text[:nl]
		bar := strings.Index(main, "| ")
		if bar < 0 {
			return nil, fmt.Errorf("no timestamp separator in colored record")
		}
		d.Time = main[:bar]
		rest := main[bar+2:]
		// the level tag is "[" + 3 bytes + "] " (default width); a logger name may itself contain brackets
		lb, rb := -1, -1
		for i := 0; i+5 < len(rest); i++ {
			if rest[i] == '[' && rest[i+4] == ']' && rest[i+5] == ' ' && (i == 0 || rest[i-1] == ' ') {
				lb, rb = i, i+4
				break
			}
		}
		if lb < 0 {
			return nil, fmt.Errorf("no level tag in colored record")
		}
		if lb > 0 {
			d.Logger, d.HasLogger = strings.TrimSuffix(rest[:lb], " "), true
		}
		d.Level = rest[lb+1 : rb]
		body := rest[rb+2:]
		// the message occupies at least the minimal width; attributes follow. The probe
		// records used with this decoder have single-token messages.
		pairs, err := oracle.ParseColoredText([]byte(body))
		if err != nil {
			return nil, err
		}
		if len(pairs) == 0 {
			return nil, fmt.Errorf("empty colored body")
		}
		d.Msg = pairs[0].Raw
		if pairs[0].HasKey {
			d.Msg = pairs[0].Key + "=" + pairs[0].Raw
		}
		ps := pairs[1:]
		if caller && len(ps) >= 2 {
			loc := ps[len(ps)-2]
			l := loc.Raw
			if loc.HasKey {
				l = loc.Key + "=" + loc.Raw
			}
			if i := strings.LastIndex(l, ":"); i > 0 {
				d.Caller["file"], d.Caller["line"] = l[:i], l[i+1:]
			}
			d.Caller["function"] = ps[len(ps)-1].Raw
			ps = ps[:len(ps)-2]
		}
		for _, p := range ps {
			k := p.Key
			if !p.HasKey {
				k = "<no-key>"
			}
			d.Attrs = append(d.Attrs, flatKV{k, p.Val, p.Raw, p.Quoted})
		}
		if nl+1 < len(text) {
			d.Msg += text[nl:]
		}
		return d, nil
	}
}
