package main

import (
	"bytes"
	"errors"
	"fmt"
	"io"
	"os"
	"strings"
	"syscall"
	"time"

	"github.com/hedzr/is"
	"github.com/hedzr/logg/slog"
	errorsv3 "gopkg.in/hedzr/errors.v3"

	"verifharness/gen"
	"verifharness/mon"
)

func init() {
	reg("C13", "enum", c13enum)
	reg("C13", "defaultdev", c13defaultdev)
	reg("C13", "devwriter", c13devwriter)
}

type c13cfg struct {
	normal, errs []int
	perLevel     map[slog.Level][]int
}

var c13cfgs = []c13cfg{
	{normal: []int{0}, errs: []int{1}},
	{normal: []int{0, 2}, errs: []int{1}},
	{normal: []int{0}, errs: []int{1, 3}},
	{normal: []int{0, 2}, errs: []int{1, 3}, perLevel: map[slog.Level][]int{slog.DebugLevel: {4}}},
	{normal: []int{0}, errs: []int{1}, perLevel: map[slog.Level][]int{slog.WarnLevel: {4}, slog.DebugLevel: {5}}},
	{normal: []int{0}, errs: []int{0}, perLevel: map[slog.Level][]int{slog.DebugLevel: {4, 5}}},
	{normal: []int{0, 2, 4}, errs: []int{1, 3, 5}}, // three members per class: one may fail while two succeed
}

var c13levels = []slog.Level{slog.AlwaysLevel, slog.TraceLevel, slog.InfoLevel, slog.ErrorLevel, slog.PanicLevel}
var c13sevs = []slog.Level{slog.InfoLevel, slog.ErrorLevel, slog.WarnLevel, slog.DebugLevel, lvlCustErr}

func (c c13cfg) dest(sev slog.Level) []int {
	if ws := c.perLevel[sev]; len(ws) > 0 {
		return ws
	}
	if errorClass(sev) {
		return c.errs
	}
	return c.normal
}

const diagText = "slog print log failed"

// funcLW is a destination made of a function (it is a LogWriter: Write and Close).
type funcLW func(p []byte) (int, error)

func (f funcLW) Write(p []byte) (int, error) { return f(p) }
func (f funcLW) Close() error                { return nil }

type rejectedErr []string

func (e rejectedErr) Error() string { return "rejected: " + strings.Join(e, ",") }

type detailErr struct {
	why  string
	tags map[string]string
}

func (e detailErr) Error() string { return e.why }

// nestingValue logs a record through another logger while it is being formatted.
type nestingValue struct {
	lg *slog.Entry
	id string
}

func (v nestingValue) String() string {
	v.lg.Info("inner "+v.id, "x", 1)
	return "inner-done"
}

// c13located carries the stack of the place where it was made.
var c13located = errorsv3.New("a cause with a stack trace")

func c13enum(c *Ctx) {
	_ = slog.RegisterLevel(lvlCustErr, "custerr", slog.RegWithTreatedAsLevel(slog.ErrorLevel), slog.RegWithPrintToErrorDevice(true))
	slog.AddFlags(slog.LnoInterrupt)
	slog.RemoveFlags(slog.Lcaller)
	maxAttempts := 6
	maxLen := 2
	if c.Tier == "thorough" {
		maxAttempts, maxLen = 10, 3
	}
	// all call sequences of length 1..maxLen
	var seqs [][]slog.Level
	var build func(cur []slog.Level)
	build = func(cur []slog.Level) {
		if len(cur) > 0 {
			seqs = append(seqs, append([]slog.Level(nil), cur...))
		}
		if len(cur) == maxLen {
			return
		}
		for _, s := range c13sevs {
			build(append(cur, s))
		}
	}
	build(nil)
	nSched := 1 << maxAttempts
	total := len(c13cfgs) * len(c13levels) * len(seqs) * nSched
	c.R.Max("enumeration_size", int64(total))
	if c.To > total {
		c.To = total
	}
	c.R.Max("max_attempts_enumerated", int64(maxAttempts))

	log := mon.NewLog()
	var attempt int
	var errKind int
	var sched uint
	var schedLen int
	var shortNil bool
	var pool []mon.W
	for i := 0; i < 6; i++ {
		w := mon.New(log, fmt.Sprintf("W%d", i), mon.Shape(i%4))
		w.Core().Fail = func(_ int, p []byte) (bool, int) {
			a := attempt
			attempt++
			if a < schedLen && sched&(1<<uint(a)) != 0 {
				// what the failing destination reports as its count: nothing, a short write, the C-style -1, or more than it was
				// given (a miscounting wrapper): the error is what says that the write failed
				n := []int{0, len(p) / 2, -1, len(p) + 7}[a%4]
				return true, n
			}
			if shortNil && a%2 == 0 {
				return false, len(p) / 2 // a short count without an error: the destination reports no failure
			}
			return false, len(p)
		}
		// the error values a real destination returns: closed files and pipes, full disks, short writes, wrapped ones
		w.Core().Err = func(int) error {
			kinds := []error{mon.ErrInjected, os.ErrClosed, io.ErrClosedPipe, io.ErrShortWrite, syscall.ENOSPC, syscall.EPIPE,
				fmt.Errorf("write /var/log/app.log: %w", os.ErrClosed), &os.PathError{Op: "write", Path: "/dev/stdout", Err: syscall.EBADF}, io.EOF,
				// error values whose dynamic type is not comparable (a slice-typed aggregate, a struct holding a map)
				rejectedErr{"quota", "retention"}, detailErr{why: "throttled", tags: map[string]string{"zone": "b"}},
				// errors that call themselves temporary: no destination is handed a record twice for them
				syscall.EAGAIN, syscall.EINTR, &os.PathError{Op: "write", Path: "/dev/pts/3", Err: syscall.EAGAIN},
				// an error whose text is empty (a sentinel somebody forgot to name)
				errors.New("")}
			return kinds[(errKind+attempt)%len(kinds)]
		}
		pool = append(pool, w)
	}
	plog := mon.NewLog() // the parent's destination in the child-logger variant: must stay empty
	pw := mon.New(plog, "PARENT", mon.ShapePlain)
	nlog := mon.NewLog()
	nestL := slog.New("nested").Root()
	nestL.SetColorMode(false)
	nestL.SetWriter(mon.New(nlog, "N", mon.ShapePlain)).SetErrorWriter(mon.New(nlog, "N", mon.ShapePlain)).SetLevel(slog.AlwaysLevel)
	treat := map[slog.Level]slog.Level{lvlCustErr: slog.ErrorLevel}
	for k, v := range builtinTreatAs {
		treat[k] = v
	}
	c.Each(func(idx int, r *gen.R) {
		// failures leave no sticky state behind - in the logger, and in the PROCESS: the global flags after the case are the
		// flags before it (the caller flag is off here, as in an application that builds its handlers with NoSource)
		flagsBefore := slog.GetFlags()
		defer func() {
			if fl := slog.GetFlags(); fl != flagsBefore {
				c.R.Violation(idx, "recovery", "C13/recovery/process-wide-flags", fmt.Sprintf("the process-wide flags were %s before the faulted calls of this case and are %s after them (no call of the application changed them)", flagNames(flagsBefore), flagNames(fl)), nil)
				slog.SetFlags(flagsBefore)
			}
		}()
		if idx >= total {
			return
		}
		k := idx
		sc := k % nSched
		k /= nSched
		sq := seqs[k%len(seqs)]
		k /= len(seqs)
		L := c13levels[k%len(c13levels)]
		k /= len(c13levels)
		cfg := c13cfgs[k%len(c13cfgs)]
		cfgIdx := k % len(c13cfgs)

		for _, kind := range []string{"root", "child"} {
			lg := slog.New("c13").Root()
			plog.Reset()
			if kind == "child" {
				// a sub-logger of a parent that has its own destinations and admits everything: the reaction to a failing
				// destination of the CHILD is governed by the child's level and goes to the child's warning destinations
				lg.SetColorMode(false)
				lg.SetWriter(pw).SetErrorWriter(pw).SetLevel(slog.AlwaysLevel)
				lg = lg.New("c13")
				c.R.Add("schedules_on_a_child_logger", 1)
				c.R.AddEvals(1) // the schedule is executed a second time
			}
			lg.SetColorMode(false)
			pre, fa, fz := []byte("time="), []byte(" a=1 "), []byte(" z=2")
			if kind == "child" {
				// the child logs JSON: what a failure leaves behind must not change the logger's format either
				lg.SetJSONMode(true)
				pre, fa, fz = []byte(`{"time":`), []byte(`"a":1,`), []byte(`,"z":2`)
			}
			// the child's destinations are handed over as values of a FUNCTION type that is a LogWriter (an adapter type
			// whose values cannot be compared with ==)
			dst := func(i int) io.Writer {
				if kind == "child" {
					return funcLW(pool[i].Write)
				}
				return pool[i]
			}
			lg.SetWriter(dst(cfg.normal[0]))
			for _, w := range cfg.normal[1:] {
				lg.AddWriter(dst(w))
			}
			lg.SetErrorWriter(dst(cfg.errs[0]))
			for _, w := range cfg.errs[1:] {
				lg.AddErrorWriter(dst(w))
			}
			for l, ws := range cfg.perLevel {
				for _, w := range ws {
					lg.AddLevelWriter(l, dst(w))
				}
			}
			lg.SetLevel(L)
			is.SetDebugMode(false)
			attempt, sched, schedLen = 0, uint(sc), maxAttempts
			shortNil = idx%3 == 1 // in every third case the attempts that do not fail answer with a short count and no error
			if shortNil {
				c.R.Add("cases_whose_healthy_attempts_answer_short_without_an_error", 1)
			}
			errKind = idx / nSched // the kind of error rotates with the case
			desc := map[string]any{"logger": kind, "config": cfgIdx, "normal": cfg.normal, "error": cfg.errs, "per_level": fmt.Sprint(cfg.perLevel), "logger_level": L.String(), "calls": fmt.Sprint(sq), "schedule_bits": fmt.Sprintf("%0*b (bit i = attempt i fails, LSB first)", maxAttempts, sc)}
			failedAny := false
			judge := func(phase string, ci int, sev slog.Level, healthy bool) bool {
				id := fmt.Sprintf("<%s%d-%d>", phase, idx, ci)
				log.Reset()
				panicked := ""
				func() {
					defer func() {
						if e := recover(); e != nil {
							panicked = fmt.Sprint(e)
						}
					}()
					switch {
					case admit(L, sev, false, treat) && (idx+ci)%4 == 1:
						// ... through the entry the log/slog handler uses (it prints what it is given)
						lg.WriteThru(bg, sev, time.Now(), 0, "rec "+id, slog.Attrs{slog.NewAttr("k", ci)})
						c.R.Add("records_through_WriteThru", 1)
					case admit(L, sev, false, treat) && (idx+ci)%4 == 3:
						// ... through the entry the std log bridge uses
						_, _ = lg.WriteInternal(bg, sev, 0, []byte("rec "+id+"\n"))
						c.R.Add("records_through_WriteInternal", 1)
					case (idx+ci)%5 == 2:
						// a record that carries an error with a stack trace of its own (under go test the text formats
						// append its details to the record: still ONE payload per destination)
						lg.LogAttrs(bg, sev, "rec "+id, "k", ci, "cause", c13located)
						c.R.Add("records_with_a_located_error", 1)
					default:
						lg.LogAttrs(bg, sev, "rec "+id, "k", ci)
					}
				}()
				evs := log.Events()
				sig := func(clause string) string { return "C13/" + clause + "/" + phase + "/" + className(sev) }
				if panicked != "" {
					c.R.Violation(idx, "returns-normally", sig("returns-normally"), "the logging call panicked: "+panicked, desc)
					return false
				}
				adm := admit(L, sev, false, treat)
				sel := cfg.dest(sev)
				warnDst := cfg.dest(slog.WarnLevel)
				own := map[int]int{}
				diag := map[int]int{}
				ownFailed := false
				nAtt := 0
				for _, e := range evs {
					if e.Kind != mon.EvWrite {
						continue
					}
					nAtt++
					var wi int
					fmt.Sscanf(e.W, "W%d", &wi)
					switch {
					case bytes.Contains(e.Data, []byte(id)) && !bytes.Contains(e.Data, []byte(diagText)):
						own[wi]++
						if e.Failed {
							ownFailed = true
						}
						if len(e.Data) == 0 || e.Data[len(e.Data)-1] != '\n' || !bytes.HasPrefix(e.Data, pre) {
							c.R.Violation(idx, "complete-record", sig("complete-record"), fmt.Sprintf("destination %s was handed an incomplete record: %s", e.W, q(clip(string(e.Data), 200))), desc)
							return false
						}
					case bytes.Contains(e.Data, []byte(diagText)):
						diag[wi]++
					default:
						c.R.Violation(idx, "foreign-write", sig("foreign-write"), fmt.Sprintf("unexpected payload at %s: %s", e.W, q(clip(string(e.Data), 200))), desc)
						return false
					}
				}
				c.R.Add("write_attempts", int64(nAtt))
				if ownFailed {
					failedAny = true
					c.R.Add("calls_with_a_failing_write", 1)
				}
				want := map[int]int{}
				if adm {
					for _, w := range sel {
						want[w]++
					}
				}
				for w := 0; w < 6; w++ {
					if own[w] != want[w] {
						c.R.Violation(idx, "other-destinations", sig("other-destinations"), fmt.Sprintf("destination W%d was handed the record %d time(s), expected %d (selected %v, admitted %v); events: %s", w, own[w], want[w], sel, adm, clip(fmtEvents(evs), 900)), desc)
						return false
					}
				}
				// diagnostics
				wantDiagMax := map[int]int{}
				diagAllowed := ownFailed && sev != slog.WarnLevel && admit(L, slog.WarnLevel, false, treat)
				if diagAllowed {
					for _, w := range warnDst {
						wantDiagMax[w]++
					}
				}
				ndiag := 0
				for w := 0; w < 6; w++ {
					ndiag += diag[w]
					if diag[w] > wantDiagMax[w] {
						why := "more than one diagnostic record / a destination that is not a warning destination"
						switch {
						case !ownFailed:
							why = "no Write failed for this record"
						case sev == slog.WarnLevel:
							why = "the failing record was itself a warning"
						case !admit(L, slog.WarnLevel, false, treat):
							why = "the logger does not admit warnings"
						}
						c.R.Violation(idx, "diagnostic", sig("diagnostic"), fmt.Sprintf("destination W%d received %d diagnostic record(s), at most %d allowed (%s; warning destinations %v); events: %s", w, diag[w], wantDiagMax[w], why, warnDst, clip(fmtEvents(evs), 900)), desc)
						return false
					}
				}
				if ndiag > 0 {
					c.R.Add("diagnostic_records_seen", 1)
				}
				bound := len(sel) + len(warnDst)
				if nAtt > bound {
					c.R.Violation(idx, "bounded", sig("bounded"), fmt.Sprintf("%d write attempts for one call, bound is |selected|+|warning destinations| = %d", nAtt, bound), desc)
					return false
				}
				if healthy && ndiag > 0 {
					c.R.Violation(idx, "recovery", sig("recovery"), "diagnostic produced although every destination works again", desc)
					return false
				}
				return true
			}
			for ci, sev := range sq {
				if !judge("f", ci, sev, false) {
					return
				}
			}
			// faults stop: every class must be delivered normally (no sticky state)
			schedLen = 0
			// ... starting with a blank line (Println without arguments): one newline byte to the destinations of the
			// Always severity and nothing else - in particular no diagnostic, no Write failed for it
			{
				log.Reset()
				panicked := ""
				func() {
					defer func() {
						if e := recover(); e != nil {
							panicked = fmt.Sprint(e)
						}
					}()
					if idx%2 == 0 {
						lg.Println()
					} else {
						lg.Print("")
					}
				}()
				if panicked != "" {
					c.R.Violation(idx, "returns-normally", "C13/returns-normally/h/blank-line", "a blank Println after the faults stopped panicked: "+panicked, desc)
					return
				}
				got := map[string]int{}
				for _, e := range log.Events() {
					if e.Kind != mon.EvWrite {
						continue
					}
					switch {
					case string(e.Data) == "\n":
						got[e.W]++
					case bytes.Contains(e.Data, []byte(diagText)):
						c.R.Violation(idx, "recovery", "C13/recovery/h/blank-line-diagnostic", fmt.Sprintf("a blank line issued after the faults stopped drew a diagnostic record at %s although no Write failed for it: %s", e.W, q(clip(string(e.Data), 300))), desc)
						return
					default:
						c.R.Violation(idx, "foreign-write", "C13/foreign-write/h/blank-line", fmt.Sprintf("unexpected payload at %s for a blank line: %s", e.W, q(clip(string(e.Data), 200))), desc)
						return
					}
				}
				wantB := map[string]int{}
				for _, w := range cfg.dest(slog.AlwaysLevel) {
					wantB[fmt.Sprintf("W%d", w)]++
				}
				for w := 0; w < 6; w++ {
					k := fmt.Sprintf("W%d", w)
					if got[k] != wantB[k] {
						c.R.Violation(idx, "recovery", "C13/recovery/h/blank-line", fmt.Sprintf("after the faults stopped a blank line reached %s %d time(s), expected %d", k, got[k], wantB[k]), desc)
						return
					}
				}
				c.R.Add("blank_lines_after_the_faults", 1)
			}
			for ci, sev := range c13sevs {
				if !judge("h", ci, sev, true) {
					return
				}
			}
			// ... also when two records are being formatted at the same time: a value of the record logs through another
			// logger while it is formatted (nothing a failure left behind may be handed out twice)
			if L != slog.OffLevel {
				id := fmt.Sprintf("<n%d>", idx)
				log.Reset()
				nlog.Reset()
				panicked := ""
				func() {
					defer func() {
						if e := recover(); e != nil {
							panicked = fmt.Sprint(e)
						}
					}()
					lg.LogAttrs(bg, slog.AlwaysLevel, "rec "+id, "a", 1, "nest", nestingValue{nestL, id}, "z", 2)
				}()
				sig := func(clause string) string { return "C13/" + clause + "/nested/always" }
				if panicked != "" {
					c.R.Violation(idx, "returns-normally", sig("returns-normally"), "after the faults stopped, a record whose value logs through another logger panicked: "+panicked, desc)
					return
				}
				got := map[string]int{}
				for _, e := range log.Events() {
					if e.Kind != mon.EvWrite {
						continue
					}
					got[e.W]++
					d := e.Data
					if !bytes.HasPrefix(d, pre) || bytes.Count(d, []byte{'\n'}) != 1 || d[len(d)-1] != '\n' || bytes.Count(d, []byte("rec "+id)) != 1 ||
						!bytes.Contains(d, []byte("inner-done")) || !bytes.Contains(d, fa) || !bytes.Contains(d, fz) || bytes.Contains(d, []byte("inner "+id)) {
						c.R.Violation(idx, "recovery", sig("recovery"), fmt.Sprintf("after the faults stopped, destination %s was handed something that is not the complete record of the call (a value of that record logs through another logger while being formatted): %s", e.W, q(clip(string(d), 300))), desc)
						return
					}
				}
				for _, w := range cfg.dest(slog.AlwaysLevel) {
					if got[fmt.Sprintf("W%d", w)] != 1 {
						c.R.Violation(idx, "recovery", sig("recovery"), fmt.Sprintf("after the faults stopped, destination W%d received the record %d time(s) (a value of that record logs through another logger while being formatted)", w, got[fmt.Sprintf("W%d", w)]), desc)
						return
					}
				}
				nev := nlog.Events()
				if len(nev) != 1 || !bytes.HasPrefix(nev[0].Data, []byte("time=")) || bytes.Count(nev[0].Data, []byte("inner "+id)) != 1 || nev[0].Data[len(nev[0].Data)-1] != '\n' || bytes.Contains(nev[0].Data, []byte("rec "+id)) {
					c.R.Violation(idx, "recovery", sig("recovery"), fmt.Sprintf("after the faults stopped, the record logged from inside a value's String() was not delivered once and whole: %s", clip(fmtEvents(nev), 400)), desc)
					return
				}
				c.R.Add("nested_records_after_recovery", 1)
			}
			// ... and the writer set can still be edited after the faults (nothing the failure path took is still held; a
			// call that never returns shows as a crash of this child: the Go runtime reports the deadlock)
			{
				c.R.JournalNote(fmt.Sprintf("reconfiguration after the faults: AddWriter / record / RemoveWriter on %s logger", kind))
				spare := mon.New(log, "SPARE", mon.ShapePlain)
				lg.AddWriter(spare)
				log.Reset()
				if L != slog.OffLevel {
					lg.LogAttrs(bg, slog.AlwaysLevel, "rec <after-reconfiguration>")
					if n := len(log.Writes("SPARE")); n != 1 && len(cfg.perLevel[slog.AlwaysLevel]) == 0 {
						c.R.Violation(idx, "recovery", "C13/recovery/reconfigured/always", fmt.Sprintf("a writer added after the faults stopped received the next normal-class record %d time(s)", n), desc)
						return
					}
				}
				lg.RemoveWriter(spare)
				c.R.Add("reconfigurations_after_faults", 1)
			}
			if n := plog.Len(); n > 0 {
				c.R.Violation(idx, "diagnostic", "C13/diagnostic/another-loggers-destination", fmt.Sprintf("the parent's destination received %d record(s) although only its child logged: %s", n, clip(fmtEvents(plog.Events()), 600)), desc)
				return
			}
			c.R.Add("schedules", 1)
			if failedAny {
				c.R.NonTrivial(idx, kind)
				if c.R.WantSample() && strings.Count(fmt.Sprintf("%b", sc), "1") >= 2 {
					c.R.Sample(idx, desc, "every call returned, every other destination got the record once, at most one diagnostic per warning destination, healthy round delivered normally")
				}
			}
		} // kind
	})
}

// c13defaultdev: loggers that were never given writers fall back to the package default devices (the process's stdout and
// stderr). One or both of them are made to fail for real (fd redirected onto /dev/full: every write returns ENOSPC).
func c13defaultdev(c *Ctx) {
	fds, err := captureFds()
	if err != nil {
		c.R.Violation(-1, "harness", "C13/harness", err.Error(), nil)
		return
	}
	full, err := os.OpenFile("/dev/full", os.O_WRONLY, 0)
	if err != nil {
		c.R.Add("dev_full_not_available", 1)
		return
	}
	save1, _ := syscall.Dup(1)
	save2, _ := syscall.Dup(2)
	slog.AddFlags(slog.LnoInterrupt)
	slog.RemoveFlags(slog.Lcaller)
	savedDefault := slog.Default()
	c.Each(func(idx int, r *gen.R) {
		k := idx
		which := k % 3 // 0: stdout full, 1: stderr full, 2: both
		k /= 3
		kind := []string{"fresh", "child-of-fresh", "package-functions"}[k%3]
		k /= 3
		L := []slog.Level{slog.AlwaysLevel, slog.ErrorLevel, slog.InfoLevel}[k%3]
		defer func() { _ = syscall.Dup2(save1, 1); _ = syscall.Dup2(save2, 2); slog.SetDefault(savedDefault) }()
		_ = syscall.Dup2(save1, 1)
		_ = syscall.Dup2(save2, 2)
		if which != 1 {
			_ = syscall.Dup2(int(full.Fd()), 1)
		}
		if which != 0 {
			_ = syscall.Dup2(int(full.Fd()), 2)
		}
		var lgL slog.Logger = slog.New(fmt.Sprintf("dd%d", idx))
		lg := lgL.Root()
		if kind == "child-of-fresh" {
			lg = lg.New("kid")
		}
		lg.SetColorMode(false)
		lg.SetLevel(L)
		if kind == "package-functions" {
			slog.SetDefault(lg)
		}
		desc := map[string]any{"full_device": []string{"stdout", "stderr", "both"}[which], "logger": kind, "logger_level": L.String()}
		for ci, sev := range []slog.Level{slog.InfoLevel, slog.ErrorLevel, slog.WarnLevel, slog.AlwaysLevel, slog.DebugLevel, slog.ErrorLevel, slog.InfoLevel} {
			id := fmt.Sprintf("<dd%d-%d>", idx, ci)
			m1, m2 := fds.mark()
			_, _ = m1, m2
			panicked := ""
			func() {
				defer func() {
					if e := recover(); e != nil {
						panicked = fmt.Sprint(e)
					}
				}()
				c.R.JournalNote(fmt.Sprintf("defaultdev %v sev=%v %s", desc, sev, id))
				if kind == "package-functions" {
					switch sev {
					case slog.InfoLevel:
						slog.Info("rec "+id, "k", ci)
					case slog.ErrorLevel:
						slog.Error("rec "+id, "k", ci)
					case slog.WarnLevel:
						slog.Warn("rec "+id, "k", ci)
					case slog.DebugLevel:
						slog.Debug("rec "+id, "k", ci)
					default:
						slog.Print("rec "+id, "k", ci)
					}
				} else {
					lg.LogAttrs(bg, sev, "rec "+id, "k", ci)
				}
			}()
			c.R.Add("calls_towards_a_full_default_device", 1)
			if panicked != "" {
				c.R.Violation(idx, "returns-normally", "C13/returns-normally/default-device/"+className(sev), fmt.Sprintf("a call on a logger without writers of its own panicked while the process's %s is full: %s", desc["full_device"], panicked), desc)
				return
			}
		}
		// the devices work again: records arrive
		_ = syscall.Dup2(int(fds.f1.Fd()), 1)
		_ = syscall.Dup2(int(fds.f2.Fd()), 2)
		m1, m2 := fds.mark()
		id := fmt.Sprintf("<ddh%d>", idx)
		if kind == "package-functions" {
			slog.Print("rec " + id)
			slog.Error("rec " + id)
		} else {
			lg.LogAttrs(bg, slog.AlwaysLevel, "rec "+id)
			lg.LogAttrs(bg, slog.ErrorLevel, "rec "+id)
		}
		b1, b2 := fds.since(m1, m2)
		if bytes.Count(b1, []byte(id)) != 1 || bytes.Count(b2, []byte(id)) != 1 || bytes.Contains(b1, []byte(diagText)) || bytes.Contains(b2, []byte(diagText)) {
			c.R.Violation(idx, "recovery", "C13/recovery/default-device", fmt.Sprintf("after the default devices work again: stdout got %q, stderr got %q (expected the Always record once on stdout, the Error record once on stderr, no diagnostic)", clip(string(b1), 300), clip(string(b2), 300)), desc)
			return
		}
		c.R.NonTrivial("defaultdev", idx)
		if c.R.WantSample() {
			c.R.Sample(idx, desc, "every call returned while the device was full; normal delivery once it worked again")
		}
	})
}

// c13devwriter: the package's default device (GetDefaultWriter) handed to a logger as ONE of its normal writers, next
// to a recording writer, while the process's stdout is full for real (fd 1 on /dev/full). The failing destination is
// then the device; the record still reaches the other normal writer, at most one diagnostic goes to the logger's OWN
// warning destination, and nothing at all reaches the process's stderr (which is no destination of this logger: the
// builtin default logger has no part in it).
func c13devwriter(c *Ctx) {
	fds, err := captureFds()
	if err != nil {
		c.R.Violation(-1, "harness", "C13/harness", err.Error(), nil)
		return
	}
	full, err := os.OpenFile("/dev/full", os.O_WRONLY, 0)
	if err != nil {
		c.R.Add("dev_full_not_available", 1)
		return
	}
	slog.AddFlags(slog.LnoInterrupt)
	slog.RemoveFlags(slog.Lcaller)
	savedDefault := slog.Default()
	log := mon.NewLog()
	c.Each(func(idx int, r *gen.R) {
		k := idx
		kind := []string{"root", "child", "package-functions"}[k%3]
		k /= 3
		L := []slog.Level{slog.AlwaysLevel, slog.ErrorLevel, slog.InfoLevel, slog.TraceLevel}[k%4]
		defer func() { _ = syscall.Dup2(int(fds.f1.Fd()), 1); slog.SetDefault(savedDefault) }()
		var lgL slog.Logger = slog.New(fmt.Sprintf("dw%d", idx))
		lg := lgL.Root()
		if kind == "child" {
			lg = lg.New("kid")
		}
		w0 := mon.New(log, "W0", mon.ShapePlain)
		we := mon.New(log, "WE", mon.ShapePlain)
		lg.SetWriter(w0).AddWriter(slog.GetDefaultWriter()).SetErrorWriter(we)
		lg.SetColorMode(false)
		lg.SetLevel(L)
		is.SetDebugMode(false)
		if kind == "package-functions" {
			slog.SetDefault(lg)
		}
		desc := map[string]any{"logger": kind, "logger_level": L.String(), "normal_writers": "recording writer + GetDefaultWriter()", "error_writer": "recording writer", "stdout": "/dev/full"}
		_ = syscall.Dup2(int(full.Fd()), 1)
		for ci, sev := range []slog.Level{slog.InfoLevel, slog.ErrorLevel, slog.WarnLevel, slog.AlwaysLevel, slog.DebugLevel, slog.InfoLevel} {
			id := fmt.Sprintf("<dw%d-%d>", idx, ci)
			log.Reset()
			_, m2 := fds.mark()
			panicked := ""
			func() {
				defer func() {
					if e := recover(); e != nil {
						panicked = fmt.Sprint(e)
					}
				}()
				c.R.JournalNote(fmt.Sprintf("devwriter %v sev=%v %s", desc, sev, id))
				if kind == "package-functions" && sev == slog.InfoLevel {
					slog.Info("rec "+id, "k", ci)
				} else {
					lg.LogAttrs(bg, sev, "rec "+id, "k", ci)
				}
			}()
			c.R.Add("calls_with_the_full_default_device_among_the_writers", 1)
			sig := func(clause string) string { return "C13/" + clause + "/device-as-writer/" + className(sev) }
			if panicked != "" {
				c.R.Violation(idx, "returns-normally", sig("returns-normally"), "the logging call panicked: "+panicked, desc)
				return
			}
			adm := admit(L, sev, false, builtinTreatAs)
			normalClass := !builtinErrorClass(sev)
			own := map[string]int{}
			diags := map[string]int{}
			for _, e := range log.Events() {
				if e.Kind != mon.EvWrite {
					continue
				}
				if bytes.Contains(e.Data, []byte(diagText)) {
					diags[e.W]++
				} else if bytes.Contains(e.Data, []byte(id)) {
					own[e.W]++
				}
			}
			_, b2 := fds.since(0, m2)
			wantW0, wantWE := 0, 0
			if adm && normalClass {
				wantW0 = 1
			} else if adm {
				wantWE = 1
			}
			if own["W0"] != wantW0 || own["WE"] != wantWE {
				c.R.Violation(idx, "other-destinations", sig("other-destinations"), fmt.Sprintf("the recording normal writer got the record %d time(s) (expected %d), the error writer %d time(s) (expected %d); admitted %v", own["W0"], wantW0, own["WE"], wantWE, adm), desc)
				return
			}
			maxDiag := 0
			if adm && normalClass && sev != slog.WarnLevel && admit(L, slog.WarnLevel, false, builtinTreatAs) {
				maxDiag = 1
			}
			if diags["WE"] > maxDiag || diags["W0"] > 0 {
				c.R.Violation(idx, "diagnostic", sig("diagnostic"), fmt.Sprintf("diagnostics: %d at the logger's warning destination (at most %d allowed), %d at its normal writer", diags["WE"], maxDiag, diags["W0"]), desc)
				return
			}
			if len(b2) > 0 {
				c.R.Violation(idx, "diagnostic", sig("diagnostic-at-another-loggers-destination"), fmt.Sprintf("the process's stderr is no destination of this logger, yet it received %s", q(clip(string(b2), 400))), desc)
				return
			}
			if diags["WE"] > 0 {
				c.R.Add("diagnostic_records_seen", 1)
			}
		}
		// the device works again
		_ = syscall.Dup2(int(fds.f1.Fd()), 1)
		m1, m2 := fds.mark()
		log.Reset()
		id := fmt.Sprintf("<dwh%d>", idx)
		lg.LogAttrs(bg, slog.AlwaysLevel, "rec "+id)
		b1, b2 := fds.since(m1, m2)
		if bytes.Count(b1, []byte(id)) != 1 || len(b2) != 0 || len(log.Writes("W0")) != 1 || len(log.Writes("WE")) != 0 {
			c.R.Violation(idx, "recovery", "C13/recovery/device-as-writer", fmt.Sprintf("after stdout works again: stdout got %q, stderr %q, the recording writers %s (expected the record once on stdout and once at the normal writer, no diagnostic)", clip(string(b1), 300), clip(string(b2), 300), clip(fmtEvents(log.Events()), 400)), desc)
			return
		}
		c.R.NonTrivial("devwriter", idx)
		if c.R.WantSample() {
			c.R.Sample(idx, desc, "every call returned; the other normal writer got each admitted record once; at most one diagnostic at the logger's own warning destination; nothing on stderr")
		}
	})
}

func init() { reg("C13", "closedfile", c13closedfile) }

// c13brokenW fails every write; c13alertW unregisters it when it is handed the library's report about a failed write.
type c13brokenW struct{}

func (c13brokenW) Write(p []byte) (int, error) { return 0, errors.New("write: broken pipe (injected)") }

type c13alertW struct {
	lg   *slog.Entry
	bad  io.Writer
	done bool
}

func (w *c13alertW) Write(p []byte) (int, error) {
	if !w.done && bytes.Contains(p, []byte(diagText)) {
		w.done = true
		w.lg.RemoveErrorWriter(w.bad)
	}
	return len(p), nil
}

// c13closedfile: a destination that is a FILE the application has closed (a log file made by NewFileWriter and closed
// at rotation; the standard-device wrappers of a logger after Close() on what GetWriter hands out; a plain *os.File
// that was closed) stands in front of a recording destination in both classes. Every write to it fails - the failing
// destination of the statement, of a kind the enumeration cannot build from function values.
// Oracle: the call returns normally, the recording destination gets the admitted record exactly once, at most one
// diagnostic per failing record (none for a Warn record), and only at a warning destination.
func c13closedfile(c *Ctx) {
	slog.AddFlags(slog.LnoInterrupt)
	slog.RemoveFlags(slog.Lcaller)
	log := mon.NewLog()
	c.Each(func(idx int, r *gen.R) {
		kind := []string{"NewFileWriter-closed", "standard-device-wrappers-closed", "os.File-closed", "a-destination-removes-the-failing-one-when-it-sees-the-diagnostic", "os.File-closed, and a per-level writer for Panic"}[idx%5]
		L := []slog.Level{slog.AlwaysLevel, slog.InfoLevel, slog.ErrorLevel, slog.TraceLevel}[(idx/5)%4]
		c.R.Distinct("closed_file_kinds", kind)
		lg := slog.New(fmt.Sprintf("cf%d", idx)).Root()
		w0 := mon.New(log, "W0", mon.ShapePlain)
		we := mon.New(log, "WE", mon.ShapePlain)
		dir, err := os.MkdirTemp("", "c13-cf-*")
		if err != nil {
			return
		}
		defer os.RemoveAll(dir)
		desc := map[string]any{"closed_destination": kind, "logger_level": L.String()}
		func() {
			defer func() {
				if e := recover(); e != nil {
					desc["setup_panicked"] = fmt.Sprint(e)
				}
			}()
			switch kind {
			case "NewFileWriter-closed":
				fw := slog.NewFileWriter(dir + "/app.log")
				lg.SetWriter(fw).AddWriter(w0)
				lg.SetErrorWriter(fw).AddErrorWriter(we)
				_ = fw.Close()
			case "standard-device-wrappers-closed":
				lg.ResetWriters()
				lg.AddWriter(w0).AddErrorWriter(we)
				// the application closes what the logger hands out for the normal and the error class; the recording
				// destinations have no Close method and stay as they are
				for _, lv := range []slog.Level{slog.InfoLevel, slog.ErrorLevel} {
					if cl, ok := lg.GetWriterBy(lv).(io.Closer); ok {
						_ = cl.Close()
					}
				}
			case "a-destination-removes-the-failing-one-when-it-sees-the-diagnostic":
				// error set [broken, alert, recording]: the alert destination reacts to the library's report about the broken
				// one by taking it out of the logger (from inside its own Write)
				bad := c13brokenW{}
				alert := &c13alertW{lg: lg, bad: bad}
				lg.SetWriter(w0)
				lg.SetErrorWriter(bad).AddErrorWriter(alert).AddErrorWriter(we)
			default:
				f, _ := os.Create(dir + "/plain.log")
				_ = f.Close()
				lg.SetWriter(f).AddWriter(w0)
				lg.SetErrorWriter(f).AddErrorWriter(we)
				if strings.Contains(kind, "per-level writer for Panic") {
					// a writer of its own for the Panic severity (no record of that severity is issued here): every other
					// severity, the diagnostic included, goes where its class says
					lg.AddLevelWriter(slog.PanicLevel, mon.New(log, "WP", mon.ShapePlain))
				}
			}
		}()
		lg.SetColorMode(false)
		lg.SetLevel(L)
		is.SetDebugMode(false)
		for ci, sev := range []slog.Level{slog.InfoLevel, slog.ErrorLevel, slog.WarnLevel, slog.AlwaysLevel, slog.DebugLevel, slog.InfoLevel, slog.FailLevel} {
			id := fmt.Sprintf("<cf%d-%d>", idx, ci)
			log.Reset()
			panicked := ""
			func() {
				defer func() {
					if e := recover(); e != nil {
						panicked = fmt.Sprint(e)
					}
				}()
				c.R.JournalNote(fmt.Sprintf("closedfile %v sev=%v %s", desc, sev, id))
				lg.LogAttrs(bg, sev, "rec "+id, "k", ci)
			}()
			c.R.Add("calls_with_a_closed_file_among_the_writers", 1)
			sig := func(clause string) string { return "C13/" + clause + "/closed-file/" + className(sev) }
			if panicked != "" {
				c.R.Violation(idx, "returns-normally", sig("returns-normally"), "the logging call panicked: "+panicked, desc)
				return
			}
			adm := admit(L, sev, false, builtinTreatAs)
			own := map[string]int{}
			diags := 0
			for _, e := range log.Events() {
				if e.Kind != mon.EvWrite {
					continue
				}
				if bytes.Contains(e.Data, []byte(diagText)) {
					diags++
					if e.W != "WE" {
						c.R.Violation(idx, "diagnostic", sig("diagnostic-destination"), fmt.Sprintf("a diagnostic went to %s, which is no warning destination; events: %s", e.W, clip(fmtEvents(log.Events()), 600)), desc)
						return
					}
				} else if bytes.Contains(e.Data, []byte(id)) {
					own[e.W]++
				}
			}
			if own["WP"] > 0 {
				c.R.Violation(idx, "other-destinations", sig("other-destinations"), fmt.Sprintf("the writer registered for the Panic severity alone was handed a %v record; events: %s", sev, clip(fmtEvents(log.Events()), 600)), desc)
				return
			}
			wantW := "W0"
			if builtinErrorClass(sev) {
				wantW = "WE"
			}
			want := 0
			if adm {
				want = 1
			}
			other := map[string]string{"W0": "WE", "WE": "W0"}[wantW]
			if own[wantW] != want || own[other] != 0 {
				c.R.Violation(idx, "other-destinations", sig("other-destinations"), fmt.Sprintf("the recording destination behind the closed file got the record %d time(s) (the other class's: %d), expected %d; events: %s", own[wantW], own[other], want, clip(fmtEvents(log.Events()), 600)), desc)
				return
			}
			maxDiag := 0
			if adm && sev != slog.WarnLevel && admit(L, slog.WarnLevel, false, builtinTreatAs) {
				maxDiag = 1
			}
			if diags > maxDiag {
				c.R.Violation(idx, "diagnostic", sig("diagnostic"), fmt.Sprintf("%d diagnostic record(s) for one call, at most %d allowed; events: %s", diags, maxDiag, clip(fmtEvents(log.Events()), 600)), desc)
				return
			}
			if diags > 0 {
				c.R.Add("diagnostic_records_seen", 1)
			}
		}
		c.R.NonTrivial("closedfile", kind, L.String(), idx)
		if c.R.WantSample() {
			c.R.Sample(idx, desc, nil)
		}
	})
}
