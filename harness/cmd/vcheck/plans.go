package main

import "time"

func init() {
	register(&Plan{
		Prop:  "C04",
		Level: "exploration",
		Rule: "cases = generated (logger name, message, severity, caller flag, 0-24 attributes with unique hostile keys and values of every supported kind, groups nested <= 4) " +
			"from PCG(seed, property, index); each record is captured at a recording writer and decoded by an independent strict JSON walker; " +
			"non-trivial = record decoded and matched AND (has attributes or a non-plain message); distinct = by payload bytes",
		Assumptions: []string{"encoding/json's scanner and decoder (go1.23.5) as the reference for RFC 8259 validity", "user marshallers / value stringers are outside the domain"},
		Floors:      map[string]int64{"records_decoded": 100},
		Jobs: func(tier string, seed int64) []Job {
			n := pick(tier, 6000, 400000)
			return chunk("main", "prod", n, pick(tier, 500, 12500), Job{Timeout: 30 * time.Minute})
		},
	})
	register(&Plan{
		Prop:  "C05",
		Level: "exploration",
		Rule: "cases = generated logfmt records (production process mode): logger name, any-bytes message, severity, caller flag, 0-24 attributes with legal unique logfmt keys " +
			"(random leading letter so that groups sort first/middle/last) and values of every supported kind incl. []byte, groups nested <= 3; each payload is tokenised by an independent " +
			"logfmt tokenizer (strconv.Unquote for quoted values) and every pair compared with what was logged; non-trivial = decoded and matched AND (has attributes or non-plain message); distinct = by payload bytes",
		Assumptions: []string{"strconv.Unquote (go1.23.5) decodes what a logfmt reader decodes", "production process mode (the multi-line error dump of testing mode is outside the statement)"},
		Floors:      map[string]int64{"records_decoded": 100},
		Jobs: func(tier string, seed int64) []Job {
			n := pick(tier, 6000, 400000)
			return chunk("main", "prod", n, pick(tier, 500, 12500), Job{Timeout: 30 * time.Minute})
		},
	})
}
