package main

import (
	"os"
	"path/filepath"
	"time"
)

func init() {
	register(&Plan{
		Prop:  "C04",
		Level: "exploration",
		Rule: "cases = generated (logger name, message, severity, caller flag, 0-24 attributes with unique hostile keys and values of every supported kind, groups nested <= 4) " +
			"from PCG(seed, property, index); each record is captured at a recording writer and decoded by an independent strict JSON walker; " +
			"Round 12: 7% of the records go through Infof / Warnf / Errorf (with and without operands, percent signs escaped); a quarter of the caller-flag records have no frame behind them (WriteThru with pc 0, a skip count of 1000: an empty or absent caller member, valid JSON all the same). Round 13: three registered titles with capital letters (the expected name is the title that was passed); a severity gated like Always with blank messages; one group object under two parent groups of a record. Round 14: empty and nil lists of instants / durations; more strings that hold NEL (U+0085). Round 15: half of the handler records go through a handler that opened a group before its WithAttrs steps. non-trivial = record decoded and matched AND (has attributes or a non-plain message); distinct = by payload bytes Round 17: a quarter of the records with the caller flag map the source file and directory of the call site (AddKnownPathMapping) to names with backslashes, quotes, a tab or a forged member.",
		Assumptions: []string{"encoding/json's scanner and decoder (go1.23.5) as the reference for RFC 8259 validity", "user marshallers / value stringers are outside the domain"},
		Floors:      map[string]int64{"records_decoded": 100, "records_through_the_printf_style_entry_points": 100, "records_without_a_frame_with_the_caller_flag_on": 100},
		Jobs: func(tier string, seed int64) []Job {
			n := pick(tier, 40000, 1200000)
			js := chunk("main", "prod", n, pick(tier, 2500, 37500), Job{Timeout: 30 * time.Minute})
			// the process around the library is no input of the statement: go-test-mode processes (with and without a
			// -bench... argument), production processes with DEBUG in their environment or started by a debugger
			m := pick(tier, 2500, 37500)
			js = append(js, Job{Sub: "main", Mode: "test", From: 0, To: m, Timeout: 30 * time.Minute})
			js = append(js, Job{Sub: "main", Mode: "test", From: m, To: 2 * m, Args: []string{"-benchlabel=nightly"}, Timeout: 30 * time.Minute})
			js = append(js, Job{Sub: "main", Mode: "prod", From: 2 * m, To: 3 * m, Env: []string{"DEBUG=1"}, Args: []string{"-benchlabel=nightly"}, Timeout: 30 * time.Minute})
			js = append(js, Job{Sub: "main", Mode: "prod", From: 3 * m, To: 4 * m, Parent: "dlv", Timeout: 30 * time.Minute})
			return js
		},
	})
	register(&Plan{
		Prop:  "C05",
		Level: "exploration",
		Rule: "cases = generated logfmt records (production process mode): logger name, any-bytes message, severity, caller flag, 0-24 attributes with legal unique logfmt keys " +
			"(random leading letter so that groups sort first/middle/last) and values of every supported kind incl. []byte, groups nested <= 3; each payload is tokenised by an independent " +
			"logfmt tokenizer (strconv.Unquote for quoted values) and every pair compared with what was logged; Round 13: lines (the empty one included) through a std log bridge on a logfmt logger. Round 14: Warnf without operands and two escaped percent signs. Round 15: instants RFC 3339 cannot carry (five-digit year, year before 0, a zone 25 h wide), at the top level and in a group. non-trivial = decoded and matched AND (has attributes or non-plain message); distinct = by payload bytes. " +
			"Sub-workload handler: logfmt records through the library's log/slog handler, derived in 0-15+ WithGroup/WithAttrs steps, the record through the first of 2-4 siblings; expected tree by log/slog's rules. " +
			"Follow-ups in main: parent and child binding one key; one group object used twice in a record Round 17: every fifth case logs one application-owned group through a logger with a same-named bound group and then through a bare one, and binds one attribute list to two loggers of which one is Set anew: the OTHER logger's record is judged.",
		Assumptions: []string{"strconv.Unquote (go1.23.5) decodes what a logfmt reader decodes", "production process mode (the multi-line error dump of testing mode is outside the statement)"},
		Floors:      map[string]int64{"records_decoded": 100, "handler_records_decoded": 1000, "records_with_one_group_object_used_twice": 100},
		Jobs: func(tier string, seed int64) []Job {
			n := pick(tier, 40000, 1200000)
			js := chunk("main", "prod", n, pick(tier, 2500, 37500), Job{Timeout: 30 * time.Minute})
			// production processes started with DEBUG set in their environment (the library reads it for its start-up
			// level): still production processes
			for i, v := range []string{"1", "true", "on"} {
				js = append(js, Job{Sub: "main", Mode: "prod", From: 1000 * i, To: 1000*i + pick(tier, 1000, 20000), Env: []string{"DEBUG=" + v}, Timeout: 30 * time.Minute})
			}
			// records that come in through the library's log/slog handler (derived step by step, siblings)
			js = append(js, chunk("handler", "prod", pick(tier, 8000, 400000), pick(tier, 2000, 25000), Job{Timeout: 30 * time.Minute})...)
			return js
		},
	})
	register(&Plan{
		Prop:  "C06",
		Level: "exploration",
		Rule: "cases = generated colored records via WriteThru (fixed instant and frame): 15 severities (built-in, registered fg / fg+bg / no colour, unregistered), tag width 1-5, minimal width 16-80, " +
			"single/multi-line messages with/without trailing newline (70% in the layout domain, 30% with markup or other controls), 0-24 attributes of every kind incl. errors and groups; both process modes. " +
			"Oracles: SGR terminal-state simulator (default state at every LF and at the end), escape/control skeleton compared with the same record logged with neutralised values, layout parser over the stripped text. " +
			"Round 12: under go test errors that carry a stack trace stay such (their dump is judged); 12% of the loggers have a timestamp layout of their own (blanks, commas, zone abbreviations); every eleventh case has a chunking destination (48 bytes per call, no error) in front of the recording one. Round 13: all eight combinations of the date/time flags (a record begins with a non-empty timestamp); an attribute list as the value of a plain key; production processes started with DEBUG=1 / DEBUG=on. Round 14: values of a defined string type that hold hostile text. non-trivial = all clauses passed on a decoded record; distinct = by payload bytes Further jobs: processes with the no-color switch on, with NO_COLOR set, with the working directory removed under them. Every fourth caller case also issues a record through one of 14 public entry points from a statement of the harness and checks that the record ends with that call site; 4% of the records carry a value whose MarshalText fails with a hostile error text (judged by the escape/control skeleton only). Round 17: one more entry-point site - Info as the last instruction of an inlinable helper that is called last in a non-inlined function (file, line and function are the helper's).",
		Assumptions: []string{"ShortTag and Source.Extract of the library are used to build the expected tag and caller text (their own correctness is C17 / C14 / C18)", "under go test, error texts are generated without control bytes (the multi-line dump prints the error text verbatim by design)"},
		Floors:      map[string]int64{"records_decoded": 100, "layout_checked": 50, "sgr_sequences_simulated": 1000},
		Jobs: func(tier string, seed int64) []Job {
			n := pick(tier, 24000, 800000)
			js := chunk("main", "prod", n, pick(tier, 2000, 25000), Job{Timeout: 30 * time.Minute})
			js = append(js, chunk("main", "test", n/2, pick(tier, 2000, 12500), Job{Timeout: 30 * time.Minute})...)
			// processes in which the application's no-color switch is on, and processes started with NO_COLOR set
			js = append(js, chunk("main", "prod", pick(tier, 2000, 50000), pick(tier, 2000, 25000), Job{Args: []string{"-x", "nocolormode=1"}, Timeout: 30 * time.Minute})...)
			js = append(js, chunk("main", "prod", pick(tier, 2000, 50000), pick(tier, 2000, 25000), Job{Env: []string{"NO_COLOR=1"}, Timeout: 30 * time.Minute})...)
			// a process whose working directory was removed under it
			js = append(js, chunk("main", "prod", pick(tier, 2000, 50000), pick(tier, 2000, 25000), Job{Args: []string{"-x", "cwdgone=1"}, Timeout: 30 * time.Minute})...)
			// production processes started with DEBUG in their environment (the library reads it for its start-up level): still
			// production processes - no error dump, no colour across a line break
			for i, v := range []string{"1", "on"} {
				js = append(js, Job{Sub: "main", Mode: "prod", From: 3000 * i, To: 3000*i + pick(tier, 1500, 20000), Env: []string{"DEBUG=" + v}, Timeout: 30 * time.Minute})
			}
			return js
		},
	})
	register(&Plan{
		Prop:  "C07",
		Level: "exploration",
		Rule: "cases = generated logger chains of depth 1-4 (own-attribute lists of 0-20 incl. empty ones at every position, set through SetAttrs/SetAttrs1/Set), 0-5 registered context keys (string and Stringer, present/absent, nil context), " +
			"0-64 call arguments (Attr objects and key,value pairs) over a small key space so that keys collide, groups with colliding members, inherit flag on/off, all three formats; every value carries its source tag; " +
			"the decoded ordered (dotted key, value) list must equal the reference merge (last occurrence wins, ascending order at every level). Round 12: two cases in five with context keys run under a cancelled / expired context that still holds its values; in 20% of the cases the process's default logger (no ancestor of the chain) holds attributes of its own. Round 13: context keys whose printed name is empty (JSON); records through Log(ctx, log/slog level, ...). Round 14: half of the calls without arguments go through Infof (no context of its own); the empty key as the key of a plain pair. Round 15: loggers made with the empty name and positional attributes in the same New call. non-trivial = decoded, matched and at least one attribute; distinct = by the source lists Round 17: every sixth case draws its keys in pairs that differ in the case of one letter only.",
		Assumptions: []string{"the decoders of C04/C05/C06 (independent JSON walker, logfmt tokenizer, SGR stripper)"},
		Floors:      map[string]int64{"records_decoded": 100, "records_with_13plus_attrs": 20, "inheriting_child_without_own_attrs": 5},
		Jobs: func(tier string, seed int64) []Job {
			n := pick(tier, 40000, 1500000)
			return chunk("main", "prod", n, pick(tier, 2500, 47000), Job{Timeout: 30 * time.Minute})
		},
	})
	register(&Plan{
		Prop:  "C01",
		Level: "exploration",
		Rule: "one child process per level registry (index 0 = built-ins only, others = 2-5 random custom levels: negative, = MaxLevel, above it, with/without treat-as and error device). Inside a child the admission table is enumerated completely: " +
			"logger levels x severities (registry + one unregistered) x debug-mode histories (off, on directly, on as a side effect of SetLevel/WithLevel/package SetLevel(Debug), off again) x 4 logger kinds (root as Logger, root as *Entry, child, default) x every public entry point " +
			"(12 verbs + Println, 12 Context verbs, LogAttrs, Logit, Log with 10 log/slog levels, Infof/Warnf/Errorf, Verbose x2, and the package-level twins). A cell = one call; oracle: (bytes reached any recording writer) == admit(L, r, debug) and Enabled/EnabledContext == admit. " +
			"Every call that takes a context is given, in turn, a live one, one with values, a cancelled one and one whose deadline has passed; registries also hold values that do not fit 32 bits. " +
			"overlap: 17-96 goroutines issue one call each on one logger (and a child of it) while every earlier admitted call is still held inside the destination's Write; the number of Writes must equal the number of calls the rule admits, each admitted id exactly once. " +
			"Round 14: two debug-mode histories install a state holder of the application's own (states.UpdateEnvWith) first; a logger kind 'WithSkip helper of an owner that was switched Off'; every third custom level has a two-character title in another script. non-trivial = every executed cell; distinct = by (kind, entry, L, r, history) Round 16: in every sixth registry each destination of some loggers stores its first record and reports a wrapped os.ErrClosed for it (a log file in rotation); the table is judged on what arrives afterwards.",
		Assumptions: []string{"OK/Success count as Info and Fail as Error when gated (the library's documented built-in treat-as table)", "SetLevel(Debug) on the logger under test itself switches debug mode on (modelled)", "LnoInterrupt is set in the child so that Panic/Fatal severities can be issued"},
		Floors:      map[string]int64{"cells": 5000, "records_emitted": 1000, "calls_silent": 1000, "overlap_calls_admitted": 300},
		Exhaustive:  func(string) bool { return true },
		Jobs: func(tier string, seed int64) []Job {
			n := pick(tier, 6, 1000)
			js := chunk("table", "prod", n, 1, Job{Timeout: 20 * time.Minute})
			// a production process that happens to carry an argument starting with -bench (a CLI flag of the application)
			js = append(js, Job{Sub: "table", Mode: "prod", From: 1, To: 2, Args: []string{"-benchlabel=nightly"}, Timeout: 20 * time.Minute})
			js = append(js, Job{Sub: "overlap", Mode: "prod", From: 0, To: pick(tier, 10, 200), Args: []string{"-benchlabel=nightly"}, Timeout: 20 * time.Minute})
			// a production process that was started by a debugger (its parent's argv[0] ends in /dlv): the rule is the same
			js = append(js, Job{Sub: "table", Mode: "prod", From: 2, To: 3, Parent: "dlv", Timeout: 20 * time.Minute})
			js = append(js, Job{Sub: "table", Mode: "prod", From: 3, To: 4, Parent: "dlv", Timeout: 20 * time.Minute})
			return append(js, chunk("overlap", "prod", pick(tier, 60, 6000), pick(tier, 30, 400), Job{Timeout: 20 * time.Minute})...)
		},
	})
	register(&Plan{
		Prop:  "C03",
		Level: "exploration",
		Rule: "a reference model of the writer configuration (normal list, error list, per-level lists, package defaults for a logger never given writers) is advanced with each operation sequence; the sequence is applied to a fresh root and to a child of a configured parent, as methods and (when every operation has one) as New(...) options; " +
			"then - for the method form after EVERY operation, so that records emitted between reconfigurations are part of the history - one probe record with a unique id is issued at each of 20 severities (built-ins; custom levels with the error device - also with values 64, 1000 and -5 and one that is gated like Info -, without it, gated like Error but without the error device, unregistered) through LogAttrs, 5 more through verbs and Print/Println and 4 blank-line forms and the per-writer Write counts (recording writers of 6 shapes, fds 1/2 redirected onto files) must equal the selected list; LevelSettable destinations must have been told the severity before each Write. " +
			"exh: ALL sequences up to the length bound over a reduced alphabet (40 operations over 4 writers incl. a real *os.File); rand: random sequences of 3-10 operations over the full alphabet (8 writers of 7 shapes, 8 levels, plus children derived with WithWriter / WithErrorWriter and reconfigured, which must leave the receiver alone). A failing sequence is shrunk by dropping operations. Round 13: probes that carry an error with a stack trace (and a go-test job, where its details follow the record); two pool members are size-capped sinks in every other sequence (40 bytes per Write, no error); after every sequence another logger that was reset to the package defaults has what its getters hand out closed, and a never-configured logger is probed. Round 15: after every sequence a logger whose normal destination issues an Error record through it from inside its Write. non-trivial = every judged (logger kind, form, sequence); distinct = by that triple Round 17: after every sequence a by-value LevelSettable fan-out destination whose type holds a slice sits behind another destination in both classes of a fresh logger: told the severity, handed the record, no panic.",
		Assumptions: []string{"a removal that meets several copies of the writer may leave k-1 or 0 copies", "the package-level default writer itself is not reconfigured"},
		Floors:      map[string]int64{"probes": 5000, "write_events": 3000, "fallback_bytes": 1000, "levelsettable_writes": 100},
		Exhaustive:  func(string) bool { return true },
		Jobs: func(tier string, seed int64) []Job {
			// alphabet 40: lengths <=2 -> 1641 sequences, <=3 -> 65641
			n := pick(tier, 1641, 65641)
			js := chunk("exh", "prod", n, pick(tier, 110, 4200), Job{Timeout: 30 * time.Minute})
			js = append(js, chunk("rand", "prod", pick(tier, 8000, 300000), pick(tier, 500, 19000), Job{Timeout: 30 * time.Minute})...)
			// under go test the text formats append the details of an error that carries a stack trace to the record: the
			// same routing rules
			js = append(js, chunk("rand", "test", pick(tier, 1500, 60000), pick(tier, 500, 10000), Job{Timeout: 30 * time.Minute})...)
			return js
		},
	})
	register(&Plan{
		Prop:  "C02",
		Level: "exploration",
		Rule: "cases = (format, flag subset, logger level, 1-3 destinations per class + optional per-level writer + decoys, root or child, entry point among 25 verbs / Context verbs / LogAttrs / Logit / package functions / six Println forms / blank Print, " +
			"free-form argument list of 0-2000 items: key/value pairs of every kind, typed nils, non-string keys, dangling keys, reserved and empty keys, Attr, Attrs, []Attr with nil members, user-defined Attr, groups nested to depth 13, empty groups; message of any bytes up to ~200 kB). " +
			"Oracle: escaping panic = violation; per-writer Write counts == the selected destinations iff admitted, else zero everywhere; every payload is one whole record (newline-terminated, carries the call id exactly once, JSON valid / logfmt starts time= on one line / colored starts with the timestamp colour); blank Print/Println == exactly one newline byte. " +
			"Round 13: lines through a std log bridge on the logger (the empty line included); 12% of the calls run while the process-wide debug mode is on (another logger was set to Debug) with the logger under test as the default logger; 12% carry an instant in the last half microsecond of its second. Round 14: 4% of the calls have a continuation line of 64 KiB or more with a marked line behind it; 5% run with a message column wider than 80. Round 15: every third logger gets its error destinations (and sometimes a per-level one) before the normal one; half of the child loggers are fetched again by name with additive writer options. non-trivial = every judged call; distinct = by case index (PRNG stream)",
		Assumptions: []string{"values whose own methods panic and cyclic values are not generated", "admission by the C01 rule, destination selection by the C03 model"},
		Floors:      map[string]int64{"calls_admitted": 500, "calls_not_admitted_silent": 100, "records_delivered_whole": 500},
		Jobs: func(tier string, seed int64) []Job {
			n := pick(tier, 32000, 1000000)
			js := chunk("main", "prod", n, pick(tier, 2000, 31250), Job{Timeout: 30 * time.Minute})
			js = append(js, chunk("main", "test", n/4, pick(tier, 1000, 12500), Job{Timeout: 30 * time.Minute})...)
			// a process whose working directory was removed under it (caller information needs the directory)
			js = append(js, Job{Sub: "main", Mode: "prod", From: 0, To: pick(tier, 1000, 12500), Args: []string{"-x", "cwdgone=1"}, Timeout: 5 * time.Minute})
			return js
		},
	})
	register(&Plan{
		Prop:  "C08",
		Level: "exploration",
		Race:  true,
		Rule: "one case = one stress run: G in {2,4,16,64} goroutines x N calls (1200-5000 calls per run) over 1-8 loggers (roots and children, inherit flag on/off) in JSON/logfmt/colored at the same time, GOMAXPROCS in {1,2,4,16}, " +
			"mutex-protected recording writers with optional Gosched / sleep inside Write; every call carries its id in the message and in every attribute, plus a shared unsorted Group at the call site, a shared Group at logger level, a shared error value, " +
			"a marshaller spy that records which pooled PrintCtx formatted it, and occasional 150-350 extra attributes (jump above the pooled size hint). Runs are executed twice: without and with the Go race detector (GORACE halt_on_error=0, reports parsed from the log files, deduplicated by the logg frames of the two stacks). " +
			"side: the same oracles for 600-1500 calls next to (a) another logger whose destination keeps reporting errors, with caller information switched on, (b) a log/slog.Logger derived with .With(...) whose records mostly have no attributes of their own, (c) a process that changed its working directory and issues half of its records through reflection (caller frame inside the Go installation). " +
			"Oracles: any DATA RACE report with a logg frame; every payload decodes to the complete record of exactly one call; multiset of delivered ids == multiset of issued ids per logger. Round 12: JSON loggers also get a shared Group and a shared Attrs list in VALUE position; a quarter of the loggers have io.Discard as their normal device while the error device or a per-level destination records; side/frontend starts with bases of 3, 5 and 7 derivation entries and compares the shared group value with what the application built; side/closed-elsewhere reads stdout and stderr back. Round 13: the failing destination of side/failing says EAGAIN / wrapped EINTR / a plain error; every stress call carries two uncomparable application attributes; calls whose only attribute is an instant called time; the shared frontend base has 1, 3, 5, 1, 7, 1 ... derivation entries and ends in the unsorted step. Round 14: 1% of the stress calls carry a 73 KiB attribute (one Write all the same); two side/failing cases have a closed *os.File in the failing logger's list. Round 15: nil contexts on loggers with context keys. non-trivial = run with all records decoded; distinct = by run configuration side also has the scenario closed-elsewhere (loggers on the process's stdout while every goroutine makes, uses and closes request loggers of its own: every record arrives on stdout) and, in the failing scenario, a healthy destination behind the failing one that must get every record; a case whose calls do not return within 2 minutes ends the child and makes the run inconclusive.",
		Assumptions: []string{"the Go race detector reports only races on executions it sees (happens-before based, no false positives)", "concurrent reconfiguration of a logger is outside the claim and not generated"},
		Floors:      map[string]int64{"records_decoded": 5000, "max:max_writes_in_flight": 2, "goroutine_switches_in_arrival_order": 100, "print_contexts_used_by_several_goroutines": 1, "side_records_decoded": 3000},
		Jobs: func(tier string, seed int64) []Job {
			js := chunk("stress", "prod", pick(tier, 32, 1000), pick(tier, 2, 32), Job{Timeout: 30 * time.Minute})
			js = append(js, chunk("stress", "prod", pick(tier, 16, 600), pick(tier, 2, 20), Job{Race: true, Args: []string{"-x", "race=1"}, Timeout: 40 * time.Minute})...)
			js = append(js, chunk("side", "prod", pick(tier, 24, 600), pick(tier, 4, 30), Job{Timeout: 30 * time.Minute})...)
			js = append(js, chunk("side", "prod", pick(tier, 24, 450), pick(tier, 4, 30), Job{Race: true, Args: []string{"-x", "race=1"}, Timeout: 40 * time.Minute})...)
			return js
		},
	})
	register(&Plan{
		Prop:  "C09",
		Level: "exploration",
		Race:  true,
		Rule: "one case = one probe call (WriteThru with explicit timestamp and frame; format x 15 severities incl. registered fg-only / fg+bg / no colour and unregistered; groups, errors, multi-line messages, caller on/off, long values) formatted once by a fresh context (pool flushed with two GC cycles) and then again after each of 6 generated histories of 1-20 other records " +
			"(other formats, levels with background colours or none, sizes, other loggers, other goroutines, interleaved GC); GOMAXPROCS=1 so the pooled context is deterministically reused, which a marshaller spy confirms per execution. Oracle: byte equality. Round 12 (chdir): between history and probe the process may apply TZ (local-time mode, an instant in another zone), empty the known-path table or remove its home entry (the frame lies under the $HOME the process was started with). Round 13 (sharedhandler): one log/slog handler family (0-3 WithGroup / WithAttrs steps) shared by 2-16 goroutines, each replaying a hand-built record of its own; every payload equals the quiet payload of the record it carries; also under the race detector. Round 14: probes that carry an application-owned self-resolving attribute (LogValuer), a fresh object of which is formatted for another logger's record first; verb probes whose first normal destination is a closed NewFileWriter file. non-trivial = probe compared after all histories; distinct = by probe bytes. chdir: the reference is ANOTHER process - two processes started alike go chdir(A), chdir(B), probe (caller information on, frame in the library or the harness, privacy flag on/off); one of them logged in A (a caller record, one on a goroutine, several, one without caller info); payloads equal. parallel: 3-33 goroutines, each with a logger, destination and WriteThru call of its own, replay their call 150-1500 times at once (also under the race detector); every replay equals the payload obtained while the process was quiet Round 16: a third of the slice-passing probes carry map values (five and four keys): the bytes are the same in every replay.",
		Assumptions: []string{"two runtime.GC() cycles empty sync.Pool (victim cache), giving a fresh formatting context for the reference"},
		Floors:      map[string]int64{"probe_executions": 500, "reuse_of_pooled_context_confirmed": 100, "reuse_after_a_different_class_of_record": 50, "probe_pairs_compared": 30, "parallel_replays": 20000, "shared_handler_replays": 5000},
		Jobs: func(tier string, seed int64) []Job {
			n := pick(tier, 3200, 100000)
			js := chunk("hist", "prod", n, pick(tier, 200, 3200), Job{Procs: 1, Timeout: 40 * time.Minute})
			// under go test a record with an error value ends in a multi-line dump: more per-record state to carry over
			js = append(js, chunk("hist", "test", pick(tier, 1200, 30000), pick(tier, 200, 1900), Job{Procs: 1, Timeout: 40 * time.Minute})...)
			// per-process state: the reference is another process (both change their working directory)
			js = append(js, chunk("chdir", "prod", pick(tier, 64, 1024), pick(tier, 16, 64), Job{Timeout: 40 * time.Minute})...)
			// real parallelism on unrelated loggers, with and without the race detector
			js = append(js, chunk("parallel", "prod", pick(tier, 24, 600), pick(tier, 6, 40), Job{Timeout: 40 * time.Minute})...)
			js = append(js, chunk("parallel", "prod", pick(tier, 12, 240), pick(tier, 6, 40), Job{Race: true, Args: []string{"-x", "race=1"}, Timeout: 40 * time.Minute})...)
			// one log/slog handler family shared by all goroutines, each replaying a record of its own
			js = append(js, chunk("sharedhandler", "prod", pick(tier, 24, 600), pick(tier, 6, 40), Job{Timeout: 40 * time.Minute})...)
			js = append(js, chunk("sharedhandler", "prod", pick(tier, 12, 240), pick(tier, 6, 40), Job{Race: true, Args: []string{"-x", "race=1"}, Timeout: 40 * time.Minute})...)
			return js
		},
	})
	register(&Plan{
		Prop:  "C10",
		Level: "exploration", 
		Rule: "one case = one history of 5-60 operations (New named/anonymous/colliding with options, 11 With* calls, 11 Set* calls incl. writers, skip, context keys) applied to random loggers of a growing forest (two detached roots and a fresh default logger); a reference tree model is advanced in lock-step. " +
			"After EVERY operation: (isolation, model-free) every logger other than the receiver of a Set* emits byte-identical WriteThru probe output to the same destination as before; (model) every logger's Level/JSONMode/ColorMode/Skip/Name/Parent/Root and its decoded probe (format class, name, timestamp in the modelled zone/layout, attributes, destination incl. redirected stdout) equal the model; " +
			"context keys through a PrintContext probe; Each/Sublogger against the model subtree. Sub-workload deflevel (own pristine processes, both process modes): package New starts parentless, colored, at the package default level (Warn in production, Debug under go test) and follows SetLevel - also when the default logger's own level was set to the next argument first (a Set on one logger) and in production processes whose environment carries DEBUG with a value that says no or whose command line carries an argument that starts with -bench. Names include ones as long as an import path; Sublogger is also asked for a name BEFORE it exists, from every ancestor, and again after its creation. Round 12: operations Close() on a logger that never got writers; registered severities with a treated-as entry as thresholds. Round 13: Close() on loggers of the tree that own no writers (drawn three times as often); WithSkip on a logger that has writers followed by AddWriter on the child. Round 14: PanicLevel as a creation option; SaveLevelAndSet windows (with a SetLevel inside) in the default-level sub-workload; Sublogger lookups of a case variant of an existing name. non-trivial = completed history; distinct = by history big: trees that are big in one dimension (4090-9000 direct children of one logger, anonymous or named; derivation chains of 99-1000 links; bushy trees of 1600-5600 loggers) against the creation history kept by the harness: Each from several starting points visits every logger of the subtree exactly once at its depth, Parent/Root are those of the creation, Sublogger(name) and New(name) hand out the existing child (the late-coming anonymous ones included) Round 17: 30% of the New(name) operations are handed ONE WithWriter option value that the environment built once.",
		Assumptions: []string{"default flags (LlocalTime set): an unset UTC mode means the instant's own zone", "SetTimeFormat is only called with explicit non-empty layouts"},
		Floors:      map[string]int64{"operations": 2000, "isolation_comparisons": 10000, "model_comparisons": 10000, "lookups": 100, "default_level_checks": 10, "big_tree_loggers": 20000},
		Jobs: func(tier string, seed int64) []Job {
			n := pick(tier, 3200, 40000)
			js := chunk("tree", "prod", n, pick(tier, 200, 1300), Job{Timeout: 40 * time.Minute})
			js = append(js, chunk("big", "prod", pick(tier, 16, 400), pick(tier, 4, 25), Job{Timeout: 40 * time.Minute})...)
			js = append(js, chunk("deflevel", "prod", pick(tier, 4, 40), 1, Job{})...)
			js = append(js, chunk("deflevel", "test", pick(tier, 4, 40), 1, Job{})...)
			// production processes whose environment carries DEBUG with a value that says "no": still Warn
			for i, v := range []string{"", "0", "false", "off", "no", "n", "f", "disabled", "FALSE", "Off", "none", "-"} {
				if tier == "quick" && i%2 == int(((seed%2)+2)%2) && i > 3 {
					continue
				}
				js = append(js, Job{Sub: "deflevel", Mode: "prod", From: 100 + i, To: 101 + i, Env: []string{"DEBUG=" + v}})
			}
			// production processes that carry an argument starting with -bench (a flag of the application's own): still Warn
			for i := 0; i < pick(tier, 2, 8); i++ {
				js = append(js, Job{Sub: "deflevel", Mode: "prod", From: 200 + i, To: 201 + i, Args: []string{"-benchlabel=nightly"}})
			}
			// processes in which the application's no-color switch is on before the first logger is made
			for i := 0; i < pick(tier, 2, 8); i++ {
				js = append(js, Job{Sub: "deflevel", Mode: []string{"prod", "test"}[i%2], From: 300 + i, To: 301 + i, Args: []string{"-x", "nocolormode=1"}})
			}
			return js
		},
	})
	register(&Plan{
		Prop:  "C11",
		Level: "exploration",
		Rule: "exh: ALL sequences up to the length bound over (call x target logger): quick = 42 calls x 3 loggers, length <= 2 (16003 sequences); thorough = length <= 3 over 42 calls (2016379) ; calls = SetJSONMode/SetColorMode with 0, 1 or 2 boolean arguments, WithJSONMode/WithColorMode variants, New(..) on a logger with the mode options (with a name, with an empty name, without a name, behind another option, two mode options in a row) and two calls that are NOT mode calls and leave the format alone (the destination replaced by a real *os.File and back; records to a destination that fails; the colours of the probe severities taken away with SetLevelColors; SetLevel/SetAttrs/SetTimeFormat), WithSkip(1) (one child per count: a repeat hands out the existing child unchanged), NewSlogHandler with JSON / NoColor options (applies them once) and a record through the handler built earlier (not a mode call), children made by With / WithAttrs / WithAttrs1 (no mode call: the parent's format), slog.Reset() while the logger is the process's default logger (no mode call), mode calls handed an empty non-nil list of booleans (= no argument), New(name, attributes..., mode option), a line with < and & through a std log bridge on the logger (no mode call), New(name, WithJSONMode(false,true)) / New(name, WithColorMode(true,false)) (the last boolean is the mode); every fifth probe carries Level-valued attributes; one probe in six is a call with a blank message and no arguments; " +
			"targets = root, child, grandchild of a fresh tree. rand: random sequences of 4-15 calls, in a production process, under go test (where every other probe carries an error value whose dump is part of the record) and in production processes started with NO_COLOR / TERM=dumb / FORCE_COLOR style environments. After EVERY call, for EVERY logger of the tree (incl. the children created on the way): JSONMode()/ColorMode() == the modelled three-state machine and a probe record classifies ({ / ESC / time=) as that state. non-trivial = every completed sequence; distinct = by sequence Round 16: the random sequences also run in a production and in a go-test process whose command line carries an argument starting with -bench.",
		Assumptions: []string{"a call without arguments means true, with several the last wins (as documented)"},
		Floors:      map[string]int64{"probes_classified": 5000},
		Exhaustive:  func(string) bool { return true },
		Jobs: func(tier string, seed int64) []Job {
			// 126 symbols: lengths <=2 -> 1+126+15876 = 16003 ; <=3 -> 2016379
			n := pick(tier, 16003, 2016379)
			js := chunk("exh", "prod", n, pick(tier, 1340, 100900), Job{Timeout: 30 * time.Minute})
			js = append(js, chunk("rand", "prod", pick(tier, 12000, 50000), pick(tier, 1000, 3200), Job{Timeout: 30 * time.Minute})...)
			js = append(js, chunk("rand", "test", pick(tier, 4000, 20000), pick(tier, 1000, 2500), Job{Timeout: 30 * time.Minute})...)
			// the format is decided by mode calls, not by the environment the process was started in
			for _, env := range [][]string{{"NO_COLOR=1"}, {"TERM=dumb"}, {"NO_COLOR=1", "TERM=dumb", "CLICOLOR=0"}, {"TERM=xterm-256color", "COLORTERM=truecolor", "FORCE_COLOR=1"}} {
				js = append(js, chunk("rand", "prod", pick(tier, 500, 4000), pick(tier, 500, 2000), Job{Env: env, Timeout: 30 * time.Minute})...)
			}
			// ... nor by the application's process-wide no-color switch (is.SetNoColorMode, a CLI's --no-color)
			js = append(js, chunk("rand", "prod", pick(tier, 500, 4000), pick(tier, 500, 2000), Job{Args: []string{"-x", "nocolormode=1"}, Timeout: 30 * time.Minute})...)
			// ... nor by what else stands on the command line: a production process and a go-test process that carry an
			// argument starting with -bench (a flag of the application's own, a benchmark run)
			js = append(js, chunk("rand", "prod", pick(tier, 500, 4000), pick(tier, 500, 2000), Job{Args: []string{"-benchlabel=nightly"}, Timeout: 30 * time.Minute})...)
			js = append(js, chunk("rand", "test", pick(tier, 500, 4000), pick(tier, 500, 2000), Job{Args: []string{"-benchlabel=nightly"}, Timeout: 30 * time.Minute})...)
			return js
		},
	})
	register(&Plan{
		Prop:  "C12",
		Level: "exploration",
		Rule: "matrix: the complete product {7 entry-point families that can carry the severity: verb, Context verb, LogAttrs, Logit, Log(log/slog level), package verb, package Context verb} x {Panic, Fatal} x {no-interrupt flag} x {interrupt-always flag} x {production, under-go-test process} x {admitted, denied by an Off logger, denied by the level threshold (a Panic-level logger and a Fatal record)} x {json, logfmt, color} x {root, child | default} = 1440 cells (package functions only exist for the default logger), plus 192 cells with a 1100-item argument list, 240 cells in a production process that carries an argument starting with -bench and 384 cells in which the two flags got their values through another idiom (SetFlags; a SaveFlagsAndMod window that is still open; the opposite values inside a SaveFlagsAndMod window whose restore closure has run), 192 cells whose destination stores the record and then reports an error 192 cells with registered context keys and a nil context, and 320 cells in which the package level was set to Off before the logger became the default one (package entry points), os.Args is rewritten at run time (go test processes) or a per-level writer for the severity was added and removed again, and 288 cells whose message ends in line breaks (Panic: the panic value is the message, byte for byte) or that follow an earlier Panic of the same logger which the application recovered from, and 192 colored cells in which the application took the colours of the severity away (SetLevelColors(severity, NoColor, NoColor)), 96 colored Panic cells whose message holds markup (the panic value is the message as passed) and 192 cells in which another record of the same logger sits inside a destination that never returns while the call is made, and 384 cells whose error device leads elsewhere: to a log file made by NewFileWriter (the record is in the file when the process is gone), to two destinations of which the first reports an error for every write (the record reaches the second), to io.Discard, or nowhere because the only destination was removed again (the termination rule is the same), and 384 colored cells in which the first of two error destinations takes nothing without reporting an error or unregisters itself from inside its failing Write (the record reaches the destination behind it), or in which the caller flag and the package-name flag are set while the call site lies in package main, 384 cells in which the logger was Closed before the call or was handed a nil writer after the real ones (both leave its destinations as they were), and 80 package-level cells whose default logger is a child at the cell's level under a root at the opposite level, and 576 cells whose logger is a child of a logger made with a log/slog handler argument, whose call carries two application-defined attributes that cannot be compared with ==, or whose logger has context keys while the context is cancelled, and 576 colored cells whose destination reported a wrapped os.ErrClosed for one earlier record, whose message begins with a line break, or whose logger ends a chain root (attribute) -> bare logger -> logger (attribute) with the inherit flag on (the record carries both attributes), and 192 colored cells whose message has a second line of 64 KiB or more (the record is complete, the panic value is the whole message), and (round 16) 192 colored cells with that message and the caller flag removed and 288 cells in which a known-path mapping names the very source file of the call site = 6784 cells; " +
			"each cell is ONE child process built from the tree performing ONE call with an unbuffered file as destination; the parent observes exit status, the recovered panic value and the file. thorough = all cells, quick = every 8th cell of the base matrix starting at VERIF_SEED mod 8 (all 8 quick seeds together cover it) and every 2nd of the extra cells. " +
			"negative: 8 probe processes (mode x flags) issue every other severity through every entry point, in every format and in colour after all level colours were taken away, plus two severities registered as treated-as Fatal / Panic and Log with 17 log/slog level values that are not named constants (~2000 calls each) and must survive. non-trivial = every judged cell; distinct = by cell",
		Assumptions: []string{"a record present in the unbuffered file was written before the process terminated", "a 60 s watchdog per probe process; a timeout is inconclusive"},
		Floors:      map[string]int64{"probe_processes": 100, "panics_observed": 5, "fatal_exits_observed": 5, "normal_returns_observed": 50, "non_terminating_calls_observed": 1000},
		Exhaustive:  func(t string) bool { return t == "thorough" },
		Jobs: func(tier string, seed int64) []Job {
			var js []Job
			if tier == "thorough" {
				js = chunk("matrix", "prod", 6784, 424, Job{Timeout: 30 * time.Minute})
			} else {
				off := int(((seed % 8) + 8) % 8)
				for i := off; i < 1440; i += 8 {
					js = append(js, Job{Sub: "matrix", Mode: "prod", From: i, To: i + 1, Timeout: 10 * time.Minute})
				}
				for i := 1440 + off%2; i < 6784; i += 2 { // the extra cells (huge argument lists, -bench argument) are sampled more densely
					js = append(js, Job{Sub: "matrix", Mode: "prod", From: i, To: i + 1, Timeout: 10 * time.Minute})
				}
				// group them: one job per 16 cells
				var g []Job
				for i := 0; i < len(js); i += 1 {
					g = append(g, js[i])
				}
				js = g
			}
			js = append(js, chunk("negative", "prod", 8, 1, Job{Timeout: 10 * time.Minute})...)
			return js
		},
	})
	register(&Plan{
		Prop:  "C13",
		Level: "fault_enumeration",
		Rule: "complete enumeration of {7 writer configurations: 1-3 normal, 1-3 error, 0-2 per-level writers, one with the same writer in both classes} x {logger level Always, Trace, Info, Error, Panic} x {all call sequences of length 1..n over 5 severity classes: normal, error-class, Warn, per-level, custom error device} x {ALL fail/succeed assignments to the first N write attempts (global order across the fault-injecting writers; a failing attempt reports the count 0, half of the payload, -1 or more than the payload, by attempt number; the error value rotates over 14 kinds incl. closed file/pipe, ENOSPC, wrapped ones, two whose dynamic type is not comparable and three that call themselves temporary (EAGAIN, EINTR))}; quick n=2,N=6 (57 600 cases), thorough n=3,N=10 (4 761 600 cases); every case runs on a detached logger AND on a child of a parent that admits everything and has a destination of its own, which must stay empty. " +
			"After the faulted calls a healthy round issues every class again. Oracle per call over the attempt log: returns without panic; every selected destination is handed the complete record exactly once; diagnostics only at the warning destinations, at most one each, none for a Warn record / unfailed record / logger not admitting Warn; attempts <= |selected|+|warning destinations|; healthy round: normal delivery and no diagnostic, then one record one of whose values logs through another logger while it is being formatted (both records whole, once). " +
			"defaultdev: 27 cases {stdout, stderr, both redirected onto /dev/full} x {logger never given writers, its child, the package-level functions} x {level Always, Error, Info}: seven calls of mixed severity must return while the process's own devices fail with ENOSPC, and arrive normally once the devices work again. devwriter: 12 cases {root, child, package functions} x {4 logger levels} in which the package's default device (GetDefaultWriter) is ONE of the logger's normal writers next to a recording one while stdout is /dev/full: the other writer gets each record once, at most one diagnostic goes to the logger's own warning destination, nothing reaches the process's stderr. After the faulted calls of every enum case a blank line (Println() / Print(\"\")) must arrive as one newline byte and draw no diagnostic. Round 14: an error with an empty text among the error kinds. Round 15: a record above 64 KiB in the add-only cases (healthy destinations hold it to its end). non-trivial = case in which at least one Write of a record failed; distinct = by case index closedfile: files the application closed (a NewFileWriter log file, the standard-device wrappers after Close on what GetWriterBy hands out, a plain *os.File) stand in front of recording destinations; one kind has an alert destination that removes the failing one when it sees the diagnostic, one a per-level writer for Panic: returns normally, the recording destination gets the record once, at most one diagnostic and only at a warning destination. verbosebuild: 48 cases in a workload built with -tags verbose {logger, child installed as the default logger} x {3 formats} x {1-4 consecutive failing attempts of its first normal destination}, records through package-level functions: one attempt per record at the failing destination, the healthy one behind it holds the record once and nothing else, at most one diagnostic per failing record. addonly: 162 cases {1-3 added normal destinations} x {0-2 added error destinations} x {which added one fails} x {3 formats} x {root, child}, built with AddWriter / AddErrorWriter only so that the standard devices stay in their sets (stdout / stderr of the process are read back): every destination of the record's class is handed it once, reports about the failure go to warning destinations only. After every enum case the process-wide flags are what they were before it. fsizelimit: 24 cases in which a NewFileWriter log file hits the process's file size limit (RLIMIT_FSIZE, EFBIG) for one or two records and the limit is lifted again: the recording destination behind it holds every record once, the later records are in the file, nothing is reported once the file works again.",
		Assumptions: []string{"a failed attempt counts as 'handed the record once' (the library does not retry)", "destination selection by the C03 model, admission by the C01 rule"},
		Floors:      map[string]int64{"schedules": 1000, "calls_with_a_failing_write": 1000, "diagnostic_records_seen": 200, "verbose_build_records_judged": 100, "add_only_records_judged": 300, "file_size_limit_cases_judged": 12},
		Variants:    []string{"verbose"},
		Exhaustive:  func(string) bool { return true },
		Jobs: func(tier string, seed int64) []Job {
			dd := chunk("defaultdev", "prod", 27, 27, Job{Timeout: 10 * time.Minute})
			dd = append(dd, chunk("devwriter", "prod", 12, 12, Job{Timeout: 10 * time.Minute})...)
			dd = append(dd, chunk("closedfile", "prod", 40, 20, Job{Timeout: 10 * time.Minute})...)
			dd = append(dd, chunk("closedfile", "test", 20, 20, Job{Timeout: 10 * time.Minute})...)
			// a workload built with the tag "verbose" (the library's tracing facility compiled in): the failing destination
			// belongs to the default logger, which that facility writes to
			dd = append(dd, Job{Sub: "verbosebuild", Mode: "prod", From: 0, To: 48, Variant: "verbose", Timeout: 10 * time.Minute})
			// loggers built with Add* calls only (the standard devices stay in their sets), one added normal destination failing
			dd = append(dd, Job{Sub: "addonly", Mode: "prod", From: 0, To: 162, Timeout: 10 * time.Minute})
			// a NewFileWriter log file under a real, transient failure of the operating system (the file size limit)
			dd = append(dd, Job{Sub: "fsizelimit", Mode: "prod", From: 0, To: 24, Timeout: 10 * time.Minute})
			// under go test the text formats append the details of an error that carries a stack trace to the record
			if tier == "thorough" {
				dd = append(dd, chunk("enum", "test", 7*5*155*1024/4, 150000, Job{Timeout: 60 * time.Minute})...)
				return append(chunk("enum", "prod", 7*5*155*1024, 150000, Job{Timeout: 60 * time.Minute}), dd...)
			}
			dd = append(dd, chunk("enum", "test", 7*5*30*64/2, 3600, Job{Timeout: 20 * time.Minute})...)
			return append(chunk("enum", "prod", 7*5*30*64, 3600, Job{Timeout: 20 * time.Minute}), dd...)
		},
	})
	register(&Plan{
		Prop:  "C14",
		Level: "exploration",
		Variants: []string{"verbose"},
		Rule: "the complete matrix {113 call sites (4 of them the Verbose entry points, which print only in a build of the library with its tag verbose: their 216 cells are run by a build variant of the workload; one with an attribute named caller; 3 of them printf verbs with %w / several verbs / none; 3 in files whose names hold quotation marks, backslashes or letters outside ASCII; 17 at chosen line numbers 1, 9|10|11, 99|100|101 ... 65535|65536, 10^6 through //line directives; the line-number flag is cleared for every third cell): 30 native verbs/Context verbs/LogAttrs/Logit/Log/printf verbs, 24 package-level functions, 5 Println forms whose first argument is not a string (native and package-level), 6 application-side facades whose type/package names collide with library or std names (applog.(*Logger).Infof/Warnf/Println over the std log bridge, a facade package named slog with a type Entry and a method logContext over the native API; the record is attributed skip minus facade depth frames above the call statement), 5 sites that also log an error carrying its own stack trace (errors.v3), 9 log/slog adapter forms (Logger.Info/WarnContext/Log/LogAttrs, With(..).Info, slog.Info after SetDefault, Log / LogAttrs at the library's own log/slog levels LevelFatal and LevelPanic and at an application level above Error), one helper kept in another source file and inlined into the calling statement (its record belongs to the helper's file, with skip 1 to the caller's), 4 std log bridge forms (Print/Printf/Println/Output)} x {json, logfmt, color} x {skip 0..4 set by WithSkip or SetSkip, with a wrapper chain of matching depth} x " +
			"{root held as Logger interface, root as *Entry, child | default logger for package functions} x {inlinable, noinline wrappers; direct chains and closure chains}. Each call site is a one-line function literal that also records its own logical call stack (runtime.CallersFrames) and is executed TWICE in a row (a second record from the same statement must be attributed like the first); a WithSkip child is used only after a sibling with another skip count was derived from the same parent; " +
			"the caller decoded from the record (file made absolute, line, function) must equal the frame `skip` logical frames above the call statement. conc: 2-16 goroutines log 300-1500 records each at the same time, each from a function of its own; every record names the function of its own call site. thorough additionally builds the workload with -gcflags=all=-l. Round 13: the matrix once more in processes whose working directory was removed; every seventh cell makes its logger with another logger (skip count 3) as an attribute value. non-trivial = confirmed attribution; distinct = by cell Every cell issues its record three times: as is, after WithSkip(n) was evaluated again for the same count, and through a child derived from the logger that carries the skip count (attributed to the statement itself: a skip count is not inherited); every 50th cell first issues records from 320 other call sites. The whole matrix is run a second time in processes whose FIRST log/slog handler record came from a wrapping helper (own runtime.Callers, NewRecord, Handler().Handle); a third of the bridge cells first recover a panic through a second bridge built on a decorating logger. Round 16: a row for Log with a log/slog level that has no name (Info+1); half of the child cells give the parent a skip count of its own before the bridge or adapter is built on the child.",
		Assumptions: []string{"runtime.CallersFrames over a 16-slot Callers buffer gives the true logical stack at the call site", "privacy path flags are off so that the reported file can be compared (C18 covers them)"},
		Floors:      map[string]int64{"attributions_confirmed": 1000},
		Exhaustive:  func(string) bool { return true },
		NoInline: true,
		Jobs: func(tier string, seed int64) []Job {
			js := chunk("sites", "prod", 7299, 457, Job{Timeout: 20 * time.Minute})
			// the four Verbose entry points exist only in a build with the library's tag "verbose": their 216 cells
			js = append(js, Job{Sub: "sites", Mode: "prod", From: 7299, To: 7515, Variant: "verbose", Timeout: 20 * time.Minute})
			// processes whose first log/slog handler record comes from a wrapping helper, not from a Logger method
			js = append(js, chunk("sites", "prod", 7299, 913, Job{Args: []string{"-x", "firstwrap=1"}, Timeout: 20 * time.Minute})...)
			// ... and once more in processes whose working directory was removed under them
			js = append(js, chunk("sites", "prod", 7299, 913, Job{Args: []string{"-x", "cwdgone=1"}, Timeout: 20 * time.Minute})...)
			js = append(js, chunk("conc", "prod", pick(tier, 8, 60), pick(tier, 2, 6), Job{Timeout: 20 * time.Minute})...)
			if tier == "thorough" {
				js = append(js, chunk("sites", "prod", 7299, 457, Job{NoInl: true, Args: []string{"-x", "build=noinline"}, Timeout: 20 * time.Minute})...)
				js = append(js, chunk("sites", "test", 7299, 457, Job{Timeout: 20 * time.Minute})...)
			}
			return js
		},
	})
	register(&Plan{
		Prop:  "C15",
		Level: "exploration",
		Race:  true,
		Rule: "handler: cases = (underlying logger held as Logger or *Entry, pre-set level, all 8 HandlerOptions boolean combinations x 6 Level values, derivation chain of 0-4 WithAttrs/WithGroup calls, log/slog record with explicit time, standard level, hostile message and 0-5 attributes of every log/slog kind: String/Int64/Uint64/Float64/Bool/Time/Duration/Any(error|struct|nil|int8|[]string)/LogValuer/Group nested <= 3); " +
			"oracles: Handler.Enabled == logger gate (base and derived); Handle emits exactly one record at the logger's own destination (nothing on fds 1/2, which are redirected); the decoded record (C04/C05/C06 decoders) has the message, the record's own time, the namesake severity and the expected attribute tree (attributes given after WithGroup nested under it); a log/slog.Logger on the handler emits iff the logger admits. " +
			"bridge: all (8 logger levels x 8 bridge severities) pairs x Print/Printf/Println/Output x hostile messages with 0-2 trailing newlines: one record iff the logger admits the severity, message == std-log line minus its trailing newline, level == bridge severity. " +
			"conc: 2-16 goroutines log through ONE derived handler (WithAttrs/WithGroup chain of depth 1-3), with and without the race detector: every record carries its own attributes under the groups, none is lost. levelsweep: production child processes run Entry.Log for every log/slog level in -1100..1100 and 53 far values (incl. those equal to LevelFatal / LevelPanic modulo 2^8, 2^16, 2^32) (only LevelFatal / LevelPanic may terminate; the four standard levels are recorded under their namesakes). Round 12 (bridge): three registered severities of the application next to the built-in ones. Round 13 (grouphist): five records in a row through one derived handler whose With step holds a group, two of them carrying a group of the same name, two nothing: each carries the handler's attributes and its own (the later group stands in for the earlier one), nothing of an earlier record; 3 formats x 3 derivations. Round 14: two record keys that differ in letter case only; (JSON) a string value under the empty key. Round 15 (grouphist): a record with complex values whose imaginary part is NaN, +Inf or -0, judged against what fmt prints. non-trivial = decoded and matched record / judged pair; distinct = by payload or pair",
		Assumptions: []string{"attributes bound to the underlying logger itself are not generated (the statement does not say whether a handler shows them)", "an open group always receives at least one attribute (log/slog elides empty groups)"},
		Floors:      map[string]int64{"records_decoded": 300, "derived_handler_records": 100, "enabled_compared": 1000, "bridge_calls": 500, "bridge_records_decoded": 100, "concurrent_handler_records": 5000, "levels_returned_normally": 79, "explicit_terminations_observed": 2},
		Jobs: func(tier string, seed int64) []Job {
			js := chunk("handler", "prod", pick(tier, 24000, 800000), pick(tier, 2000, 50000), Job{Timeout: 30 * time.Minute})
			js = append(js, chunk("bridge", "prod", pick(tier, 8192, 262144), pick(tier, 1024, 16384), Job{Timeout: 30 * time.Minute})...)
			js = append(js, chunk("levelsweep", "prod", 3, 1, Job{Timeout: 10 * time.Minute})...)
			// several records through one derived handler whose With step holds a group (some carry a group of the same name)
			js = append(js, Job{Sub: "grouphist", Mode: "prod", From: 0, To: 36, Timeout: 10 * time.Minute}, Job{Sub: "grouphist", Mode: "test", From: 0, To: 18, Timeout: 10 * time.Minute})
			js = append(js, chunk("conc", "prod", pick(tier, 12, 200), pick(tier, 3, 10), Job{Timeout: 20 * time.Minute})...)
			js = append(js, chunk("conc", "prod", pick(tier, 6, 100), pick(tier, 3, 10), Job{Race: true, Args: []string{"-x", "race=1"}, Timeout: 30 * time.Minute})...)
			return js
		},
	})
	register(&Plan{
		Prop:  "C16",
		Level: "exploration",
		Rule: "cases = (instant: year 1-9999, every sub-second pattern, 6 fixed offsets incl. odd minutes + 5 named zones from the embedded tzdata; all 8 date/time/microseconds flag combinations x LlocalTime on/off; UTC mode unset / false / true; no logger layout or one of 14 custom layouts; json/logfmt/color) logged through WriteThru with that instant; " +
			"the timestamp text is extracted from the record and must equal instant.In(zone).Format(layout) with zone = UTC iff UTC mode or (unset and LlocalTime clear), layout = the logger's, else the documented table for the flags (any exported layout for the two combinations the table does not list); layouts with full date, time and numeric zone must parse back to the instant truncated to the layout's precision. Round 12: a fifth of the unset-mode cases go through a WithJSONMode / WithColorMode child of a parent that has a layout and a zone mode of its own. Round 13: the package's own layouts pinned explicitly and layouts ending in a literal Z joined the layout list. Round 14: SetUTCMode with several values (the last one is the mode). non-trivial = matched timestamp; distinct = by (text, layout, format) Round 16: the zone pool holds fixed zones that are called UTC, Local or nothing while hours away from UTC; every eighth record has a blank message at OK, Success, Fail, Warn or Info (timestamp read from the head of the record).",
		Assumptions: []string{"Go's time.Format/time.Parse (go1.23.5) as the reference for layouts", "SetTimeFormat given several layouts: the last non-empty one is the logger's layout (how the variadic setter is written)"},
		Floors:      map[string]int64{"timestamps_extracted": 1000, "parsed_back": 100},
		Jobs: func(tier string, seed int64) []Job {
			return chunk("ts", "prod", pick(tier, 48000, 2000000), pick(tier, 3000, 62500), Job{Timeout: 30 * time.Minute})
		},
	})
	register(&Plan{
		Prop:  "C17",
		Level: "exploration",
		Rule: "one case = one history in its own child process (the registry cannot be reset; index 0 is the pristine registry): 1-30 RegisterLevel calls with values -50..70 incl. collisions, titles in lower/Title/UPPER case incl. built-in names, aliases and already registered titles, every subset of the options (short tags with a missing width, treat-as, error device, colour fg / fg+bg). " +
			"A model of the registry says which calls must be refused (used value, exactly used title; a title differing only in case may go either way). After a refusal EVERY observable (AllLevels, names, 5 tag widths, text marshalling, gating matrix against 12 logger levels, routing and bytes of a colored probe, parse results over a name universe) must be unchanged. " +
			"After every call, for every built-in / registered level: ParseLevel(String(l)) == l, text and JSON round trips (methods and through encoding/json), ShortTag(1..5) = custom tag or exactly n characters, gating == treated-as rule, routing == error device iff requested, title resolves, built-in names still resolve. Round 12: every fourth route probe adds and removes a writer for the level itself; 12% of the steps sort the slice AllLevels() handed out. Round 13: titles with a multi-byte character and an invalid byte; the error-device option with several values and with none. Round 14: levels treated as Off. non-trivial = completed history; distinct = by history",
		Assumptions: []string{"ASCII titles", "a title that differs only in case from a used name may be refused or accepted"},
		Floors:      map[string]int64{"register_calls": 500, "registrations_accepted": 100, "refusals_checked_for_side_effects": 50, "roundtrips": 5000, "custom_levels_probed": 500},
		Jobs: func(tier string, seed int64) []Job {
			return chunk("hist", "prod", pick(tier, 400, 40000), 1, Job{Timeout: 2 * time.Minute}) // a case takes milliseconds; a call that never returns ends as INCONCLUSIVE
		},
	})
	register(&Plan{
		Prop:  "C18",
		Level: "exploration",
		Rule: "one case = one mapping table built by a random add/remove history (11 overlapping string prefixes incl. nested ones, prefixes under $HOME, with spaces and non-ASCII; 3 regexp mappings; the initial home and cwd entries stay) x the two privacy flags, then 12 queries (under a prefix, the prefix itself, near misses like /srvx, regexp territory, outside everything, relative/empty/very long/.. paths, below cwd), " +
			"each query asked 32 times through Safety and SafetyFiles because the mapping table is a Go map with randomised iteration order - the evidence counts queries whose output depends on that order. Oracle: no panic; with the privacy flag a path component-wise under a protected prefix is never reported equal to or starting with that prefix and starts with an applicable short form (or is a relative path to the same file); " +
			"regexp-protected prefixes likewise when the regexp flag is on; a path that no mapping string-prefixes and no regexp matches is returned unchanged or as a strictly shorter relative path resolving to the same file. The caller field of emitted records is checked with the harness's own source directory registered. Keys written with a trailing separator cover what lies below them. " +
			"Sub-workload generated: 54 cells {3 functions below //line directives with absolute file names} x {3 formats} x {3 short forms} x {root, child}, in the ordinary build, under go test and in a -trimpath build: neither the caller field nor Safety of the same name reports the registered directory. Round 13: paths that begin with what an unanchored rule matches; removal of registered rules and of the built-in volume rule (by pattern or by resetting the regexp table). Round 14: keys in a non-canonical spelling (a doubled separator, a dot segment). non-trivial = judged query; distinct = by (path, table, flags)",
		Assumptions: []string{"replacements are non-empty and not absolute paths", "ResetKnownPathMapping and removal of the home / cwd entries are not generated", "paths that merely string-prefix-match a key without lying under it (/srvx for /srv) are unconstrained"},
		Floors:      map[string]int64{"queries": 10000, "caller_fields_checked": 20, "caller_fields_of_generated_code_checked": 100},
		Variants:    []string{"trimpath"},
		Jobs: func(tier string, seed int64) []Job {
			js := chunk("paths", "prod", pick(tier, 8000, 400000), pick(tier, 500, 12500), Job{Timeout: 30 * time.Minute})
			// histories that empty the plain table (and put the start-up entries back afterwards, as the harness knows them)
			// run in processes of their own: everywhere else the table the LIBRARY built at start-up stays in place
			js = append(js, chunk("paths", "prod", pick(tier, 2000, 60000), pick(tier, 500, 10000), Job{Args: []string{"-x", "emptying=1"}, Timeout: 30 * time.Minute})...)
			// records from below //line directives with absolute file names (generated code), in the ordinary build and in a
			// -trimpath build of the workload
			js = append(js, Job{Sub: "generated", Mode: "prod", From: 0, To: 54, Timeout: 10 * time.Minute},
				Job{Sub: "generated", Mode: "prod", From: 0, To: 54, Variant: "trimpath", Args: []string{"-x", "build=trimpath"}, Timeout: 10 * time.Minute},
				Job{Sub: "generated", Mode: "test", From: 0, To: 54, Timeout: 10 * time.Minute})
			// processes whose $HOME is reached through a symbolic link: paths are spelled the way $HOME is spelled
			real := filepath.Join(buildDir, "home-real")
			link := filepath.Join(buildDir, "home-link")
			if os.MkdirAll(real, 0o755) == nil {
				_ = os.Remove(link)
				if os.Symlink(real, link) == nil {
					js = append(js, chunk("paths", "prod", pick(tier, 500, 4000), pick(tier, 250, 1000), Job{Env: []string{"HOME=" + link}, Timeout: 30 * time.Minute})...)
				}
			}
			return js
		},
	})
	register(&Plan{
		Prop:  "C19",
		Level: "exploration",
		Rule: "one case = one operation sequence (1-300 of the 20 listed operations) executed in lock-step on a PrintCtx and on a bytes.Buffer (go1.23.5) from the same start state (zero value, NewPrintCtx with a pre-filled slice of chosen len/cap, NewPrintCtxString, NewPrintCtx(nil)); argument sizes around 0, 1, 63-65, 511-513, 1023-1025, current length +-1, free capacity +-1, negative, 70000 and astronomical (>= 2^62, must panic without allocating); " +
			"ReadFrom readers scripted to return data, zero, a negative count, an error or data+EOF; WriteTo writers that short-write, fail, over-report. After EVERY step: returned values / slice contents, error (text compared after replacing the type name), panic (both or neither, same text), Len() and String() must be identical. non-trivial = completed sequence; distinct = by start state and sequence Round 16: every eighth ReadFrom is handed io.TeeReader(payload, the buffer itself).",
		Assumptions: []string{"bytes.Buffer of the toolchain that builds the workload (go1.23.5) is the reference", "error and panic texts are compared after replacing 'bytes.Buffer' / 'logg/slog.PrintCtx' by a common token"},
		Floors:      map[string]int64{"ops_executed": 50000, "ops_that_panicked_in_both": 50},
		Jobs: func(tier string, seed int64) []Job {
			return chunk("diff", "prod", pick(tier, 32000, 1000000), pick(tier, 2000, 32000), Job{Timeout: 40 * time.Minute})
		},
	})
}
