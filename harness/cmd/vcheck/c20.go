package main

import (
	"encoding/json"
	"fmt"
	"os"
	"os/exec"
	"path/filepath"
	"strconv"
	"time"
)

func init() {
	register(&Plan{
		Prop:  "C20",
		Level: "exploration",
		Rule: "a test file is injected into slog/internal/times with `go test -overlay` (the repository is untouched) and runs inside the package: formatter: every duration of a boundary set (all unit boundaries ns..d x {1,2,9,10,23,24,25,59,60,99,100,999,1000,106751,...} +-1, powers of ten +-1, MinInt64, MinInt64+1, MaxInt64, 400 values in the 33-character region around -106751d23h47m16s854ms775us807ns) " +
			"plus N random int64 values (uniform, log-uniform, multi-field, unit multiples; quick N=1 000 000, thorough 100 000 000), both styles: no panic and ParseDuration(text) == d. parser: M strings (grammar-generated with all units incl. d, overflow-edge numbers, long fractions; mutated valid texts; alphabet soup; arbitrary bytes; quick M=1 000 000, thorough 50 000 000): " +
			"accepted by time.ParseDuration => accepted with the same value; rejected by it and no 'd' in the text => rejected; texts with 'd': every day term is rewritten as the exactly equal hour term and time.ParseDuration of that text is the reference (value within +-1 ns per fractional term; a decision may differ only when the exact big-integer value lies on the overflow boundary). Round 12/13: decimal digits of other scripts next to ASCII digits in every position; the process's own time zone is not UTC; a burst of sixteen goroutines each formatting a handful of durations of its own over and over (every text reads back as its duration), then one goroutine asks for all of them again. non-trivial = every judged value/string; distinct = by value / string hash (thorough: a 1/64 sample of the hashes is kept, so the count is a lower bound)",
		Assumptions: []string{"time.ParseDuration of go1.23.5 as the reference parser", "a text containing the letter d anywhere is judged by the day-unit evaluator instead of by time.ParseDuration's verdict"},
		Floors:      map[string]int64{"durations": 1000, "strings": 1000, "strings_accepted_by_time.ParseDuration": 100, "strings_rejected_by_time.ParseDuration": 100, "day_unit_values_confirmed": 100, "texts_of_32_or_more_bytes": 10},
		Custom:      c20run,
	})
}

func c20run(p *Plan, tier string, seed int64, replay *Replay) (*Agg, error) {
	testFile := filepath.Join(verifDir, "overlay", "times", "zz_verif_c20_test.go")
	target := filepath.Join(repoDir, "slog", "internal", "times", "zz_verif_c20_test.go")
	ov := map[string]any{"Replace": map[string]string{target: testFile}}
	b, _ := json.Marshal(ov)
	ovPath := filepath.Join(buildDir, "overlay.json")
	if err := os.WriteFile(ovPath, b, 0o644); err != nil {
		return nil, err
	}
	base := filepath.Join(runDir, "c20")
	nDur, nStr, ntEvery := 1000000, 1000000, 1
	if tier == "thorough" {
		nDur, nStr, ntEvery = 100000000, 50000000, 64
	}
	agg := newAgg()
	// the same workload in processes started with other locale settings (a tenth of the size): what a duration text
	// looks like is not a matter of the environment
	variants := [][]string{nil, {"LC_ALL=de_DE.ISO-8859-1", "LANG=de_DE.ISO-8859-1", "LC_CTYPE=de_DE.ISO-8859-1"}, {"LANG=en_US.ISO8859-15", "LC_CTYPE=en_US.ISO8859-15"}, {"LC_ALL=C", "LANG=POSIX"}}
	if replay != nil {
		variants = [][]string{replay.Env} // the environment the violating process ran in
	}
	for vi, extraEnv := range variants {
		nD, nS := nDur, nStr
		if vi > 0 {
			base = filepath.Join(runDir, fmt.Sprintf("c20-locale%d", vi))
			nD, nS = nDur/10, nStr/10
		}
		cmd := exec.Command("go", "test", "-overlay="+ovPath, "-run", "^TestVerifC20$", "-count=1", "-vet=off", "-timeout", "60m", "./slog/internal/times/")
		cmd.Dir = repoDir
		cmd.Env = []string{"PATH=" + os.Getenv("PATH"), "HOME=" + os.Getenv("HOME"), "GOWORK=off", "GOFLAGS=-mod=readonly", "GOPROXY=off", "GOSUMDB=off", "GOTOOLCHAIN=local",
			"GOCACHE=" + goCache(), "GOMODCACHE=" + goModCache(),
			"VERIF_C20_OUT=" + base, "VERIF_SEED=" + strconv.FormatInt(seed, 10), "VERIF_C20_DURATIONS=" + strconv.Itoa(nD), "VERIF_C20_STRINGS=" + strconv.Itoa(nS), "VERIF_C20_NT_EVERY=" + strconv.Itoa(ntEvery)}
		cmd.Env = append(cmd.Env, extraEnv...)
		j := &Job{Sub: "overlay", Mode: "test", Only: -1, base: base, Env: extraEnv}
		if replay != nil {
			var cs struct {
				Replay string `json:"replay"`
			}
			_ = json.Unmarshal(replay.Case, &cs)
			if cs.Replay == "" {
				return nil, fmt.Errorf("replay file carries no C20 case")
			}
			cmd.Env = append(cmd.Env, "VERIF_C20_ONLY="+cs.Replay)
		}
		st := time.Now()
		out, err := cmd.CombinedOutput()
		j.wall = time.Since(st)
		os.WriteFile(base+".stderr", out, 0o644)
		if err != nil {
			if _, serr := os.Stat(base + ".report"); serr != nil {
				return nil, fmt.Errorf("go test -overlay failed: %v: %s", err, firstN(string(out), 1500))
			}
		}
		collect(agg, j)
		agg.ChildCount++
	} // variants
	return agg, nil
}
