// vcheck is the driver of the runtime-monitoring checks. It never calls the
// library under test itself: it builds the workload binary (vfh) against the
// current working tree of $VERIF_REPO, runs it in child processes (production
// and "under go test" process modes, optionally with the race detector),
// aggregates what the children's monitors reported, classifies violations
// against known-findings.json and writes evidence/<id>.json.
//
// usage: vcheck <Cxx> <quick|thorough>
//
//	vcheck <Cxx> --replay <file>
//
// exit: 0 held, 1 violated (VIOLATION lines on stdout), 2 inconclusive.
package main

import (
	"bufio"
	"bytes"
	"encoding/binary"
	"encoding/json"
	"fmt"
	"os"
	"os/exec"
	"path/filepath"
	"sort"
	"strconv"
	"strings"
	"sync"
	"syscall"
	"time"
)

var (
	verifDir string
	repoDir  string
	seed     int64 = 1
	tier     string
	prop     string
	buildDir string
	runDir   string
	parallel = 16
)

type Job struct {
	Sub     string   // sub-workload inside vfh
	Mode    string   // "prod" | "test" (process mode the library sees)
	Race    bool     // run the -race build
	Variant string   // if set: the build of the workload with this extra build tag (Plan.Variants)
	Parent  string   // if set: the child is started by a process whose argv[0] ends in /<Parent> (what a program sees when a debugger such as dlv launched it)
	From    int      // case index range [From,To)
	To      int      //
	Args    []string // extra arguments
	Env     []string // extra environment
	Timeout time.Duration
	Procs   int  // GOMAXPROCS, 0 = default
	Only    int  // >=0: run just this case
	NoInl   bool // run the build made with -gcflags=all=-l
	// results
	base     string
	exit     int
	timedOut bool
	wall     time.Duration
}

type Plan struct {
	Prop        string
	Level       string // exploration | fault_enumeration
	Rule        string
	Assumptions []string
	Race        bool     // needs the race build
	Variants    []string // extra build tags: one more build of the workload per tag (vfh-<tag>); "trimpath" stands for the build flag -trimpath
	NoInline    bool     // thorough tier also needs a build without inlining
	Exhaustive  func(tier string) bool
	Jobs        func(tier string, seed int64) []Job
	// Floors: minimal totals of counters; below → inconclusive ("observed nothing").
	Floors map[string]int64
	// Custom runs instead of vfh children (C20 overlay).
	Custom func(p *Plan, tier string, seed int64, only *Replay) (*Agg, error)
}

type Viol struct {
	T      string          `json:"t"`
	Idx    int             `json:"idx"`
	Clause string          `json:"clause"`
	Sig    string          `json:"sig"`
	Detail string          `json:"detail"`
	Case   json.RawMessage `json:"case,omitempty"`
	job    *Job
}

type Replay struct {
	Property string          `json:"property"`
	Sub      string          `json:"sub"`
	Mode     string          `json:"mode"`
	Race     bool            `json:"race,omitempty"`
	Parent   string          `json:"started_by,omitempty"`
	Variant  string          `json:"build_variant,omitempty"`
	NoInl    bool            `json:"noinline_build,omitempty"`
	Seed     int64           `json:"seed"`
	Tier     string          `json:"tier"`
	Idx      int             `json:"idx"`
	From     int             `json:"from"`
	To       int             `json:"to"`
	Args     []string        `json:"args,omitempty"`
	Env      []string        `json:"env,omitempty"`
	Procs    int             `json:"procs,omitempty"`
	Clause   string          `json:"clause"`
	Sig      string          `json:"signature"`
	Detail   string          `json:"detail"`
	Case     json.RawMessage `json:"case,omitempty"`
	Stderr   string          `json:"stderr_tail,omitempty"`
}

type Agg struct {
	Evals      int64
	Viols      []Viol
	SigCount   map[string]int64
	Stats      map[string]int64
	Maxs       map[string]int64
	Sets       map[string]map[string]struct{}
	SetTrunc   map[string]bool
	Samples    []json.RawMessage
	NT         map[uint64]struct{}
	Inconcl    []string
	ChildCount int
}

func newAgg() *Agg {
	return &Agg{SigCount: map[string]int64{}, Stats: map[string]int64{}, Maxs: map[string]int64{}, Sets: map[string]map[string]struct{}{}, SetTrunc: map[string]bool{}, NT: map[uint64]struct{}{}}
}

type Finding struct {
	Property  string          `json:"property"`
	Signature string          `json:"signature"`
	Status    string          `json:"status"` // open | fixed
	Commit    string          `json:"commit,omitempty"`
	What      string          `json:"what"`
	Witness   json.RawMessage `json:"witness,omitempty"`
}

// freeBytes reports the free space of the file system that holds dir.
func freeBytes(dir string) (uint64, bool) {
	var st syscall.Statfs_t
	if err := syscall.Statfs(dir, &st); err != nil {
		return 0, false
	}
	return st.Bavail * uint64(st.Bsize), true
}

func die(code int, f string, a ...any) {
	fmt.Fprintf(os.Stderr, "vcheck: "+f+"\n", a...)
	os.Exit(code)
}

func main() {
	if len(os.Args) < 3 {
		die(2, "usage: vcheck <Cxx> <quick|thorough> | vcheck <Cxx> --replay <file>")
	}
	prop = os.Args[1]
	verifDir = os.Getenv("VERIF_DIR")
	if verifDir == "" {
		wd, _ := os.Getwd()
		verifDir = wd
	}
	repoDir = os.Getenv("VERIF_REPO")
	if repoDir == "" {
		repoDir = "/repo"
	}
	if s := os.Getenv("VERIF_SEED"); s != "" {
		if v, err := strconv.ParseInt(s, 10, 64); err == nil {
			seed = v
		}
	}
	if s := os.Getenv("VERIF_JOBS"); s != "" {
		if v, err := strconv.Atoi(s); err == nil && v > 0 {
			parallel = v
		}
	}
	plan := plans[prop]
	if plan == nil {
		die(2, "unknown property %q", prop)
	}
	buildDir = filepath.Join(verifDir, ".build", prop)
	runDir = filepath.Join(buildDir, "run")
	os.RemoveAll(runDir)
	if free, ok := freeBytes(verifDir); ok && free < 3<<30 {
		fmt.Printf("INCONCLUSIVE property=%s reason=\"less than 3 GiB of free disk space (%d MiB): the children's journals and the build cache need room\"\n", prop, free>>20)
		os.Exit(2)
	}
	if err := os.MkdirAll(runDir, 0o755); err != nil {
		die(2, "%v", err)
	}

	var replay *Replay
	if os.Args[2] == "--replay" {
		if len(os.Args) < 4 {
			die(2, "--replay needs a file")
		}
		b, err := os.ReadFile(os.Args[3])
		if err != nil {
			die(2, "%v", err)
		}
		replay = &Replay{}
		if err := json.Unmarshal(b, replay); err != nil {
			die(2, "bad replay file: %v", err)
		}
		seed = replay.Seed
		tier = replay.Tier
	} else {
		tier = os.Args[2]
		if t := os.Getenv("VERIF_TIER"); t == "quick" || t == "thorough" {
			tier = t
		}
		if tier != "quick" && tier != "thorough" {
			die(2, "tier must be quick or thorough")
		}
	}

	start := time.Now()
	var agg *Agg
	var err error
	if plan.Custom != nil {
		agg, err = plan.Custom(plan, tier, seed, replay)
		if err != nil {
			fmt.Printf("INCONCLUSIVE property=%s reason=%q\n", prop, err.Error())
			os.Exit(2)
		}
	} else {
		if err := buildVfh(plan, replay); err != nil {
			fmt.Printf("INCONCLUSIVE property=%s reason=%q\n", prop, "build failed: "+err.Error())
			os.Exit(2)
		}
		var jobs []Job
		if replay != nil {
			jobs = []Job{{Sub: replay.Sub, Mode: replay.Mode, Parent: replay.Parent, Variant: replay.Variant, Race: replay.Race, NoInl: replay.NoInl, From: replay.From, To: replay.To, Args: replay.Args, Env: replay.Env, Procs: replay.Procs, Only: replay.Idx, Timeout: 10 * time.Minute}}
		} else {
			jobs = plan.Jobs(tier, seed)
			for i := range jobs {
				jobs[i].Only = -1
			}
		}
		agg = runJobs(plan, jobs)
	}
	wall := time.Since(start)

	findings := loadFindings()
	code := report(plan, agg, findings, wall, replay)
	if os.Getenv("VERIF_KEEP") == "" {
		// journals, reports and scratch files of the children (gigabytes at the thorough tier): replays and evidence
		// have been written elsewhere; VERIF_KEEP=1 keeps them for a post-mortem
		os.RemoveAll(runDir)
	}
	os.Exit(code)
}

func goEnv() []string {
	env := []string{
		"PATH=" + os.Getenv("PATH"),
		"HOME=" + os.Getenv("HOME"),
		"GOFLAGS=-mod=mod", "GOWORK=off", "GOPROXY=off", "GOSUMDB=off", "GOTOOLCHAIN=local",
		"GOCACHE=" + goCache(), "GOMODCACHE=" + goModCache(),
	}
	return env
}

func goCache() string {
	if v := os.Getenv("GOCACHE"); v != "" {
		return v
	}
	out, _ := exec.Command("go", "env", "GOCACHE").Output()
	return strings.TrimSpace(string(out))
}

func goModCache() string {
	if v := os.Getenv("GOMODCACHE"); v != "" {
		return v
	}
	out, _ := exec.Command("go", "env", "GOMODCACHE").Output()
	return strings.TrimSpace(string(out))
}

// buildVfh rebuilds the workload binary against the current tree of repoDir.
func buildVfh(plan *Plan, replay *Replay) error {
	src, err := os.ReadFile(filepath.Join(verifDir, "harness", "go.mod"))
	if err != nil {
		return err
	}
	mod := strings.Replace(string(src), "replace github.com/hedzr/logg => /repo", "replace github.com/hedzr/logg => "+repoDir, 1)
	if err := os.WriteFile(filepath.Join(buildDir, "go.mod"), []byte(mod), 0o644); err != nil {
		return err
	}
	sum, err := os.ReadFile(filepath.Join(repoDir, "go.sum"))
	if err != nil {
		return err
	}
	if err := os.WriteFile(filepath.Join(buildDir, "go.sum"), sum, 0o644); err != nil {
		return err
	}
	needRace := plan.Race
	if replay != nil {
		needRace = replay.Race
	}
	build := func(race bool) error {
		name := "vfh"
		args := []string{"build", "-modfile=" + filepath.Join(buildDir, "go.mod"), "-tags", "verif"}
		if race {
			name = "vfh-race"
			args = append(args, "-race")
		}
		if g := os.Getenv("VERIF_GCFLAGS"); g != "" {
			args = append(args, "-gcflags="+g)
		}
		args = append(args, "-o", filepath.Join(buildDir, name), "./cmd/vfh")
		cmd := exec.Command("go", args...)
		cmd.Dir = filepath.Join(verifDir, "harness")
		cmd.Env = goEnv()
		out, err := cmd.CombinedOutput()
		if err != nil {
			return fmt.Errorf("go build: %v\n%s", err, out)
		}
		link := filepath.Join(buildDir, name+".test")
		os.Remove(link)
		return os.Symlink(name, link)
	}
	if err := build(false); err != nil {
		return err
	}
	if needRace {
		if err := build(true); err != nil {
			return err
		}
	}
	for _, v := range plan.Variants {
		// the workload built with an extra build tag (a tag of the LIBRARY that switches code on, e.g. verbose)
		args := []string{"build", "-modfile=" + filepath.Join(buildDir, "go.mod"), "-tags", "verif " + v, "-o", filepath.Join(buildDir, "vfh-"+v), "./cmd/vfh"}
		if v == "trimpath" {
			// not a tag: the workload (and the library in it) built with -trimpath, the way release binaries are
			args = []string{"build", "-modfile=" + filepath.Join(buildDir, "go.mod"), "-trimpath", "-tags", "verif", "-o", filepath.Join(buildDir, "vfh-"+v), "./cmd/vfh"}
		}
		cmd := exec.Command("go", args...)
		cmd.Dir = filepath.Join(verifDir, "harness")
		cmd.Env = goEnv()
		if out, err := cmd.CombinedOutput(); err != nil {
			return fmt.Errorf("go build -tags %s: %v\n%s", v, err, out)
		}
		link := filepath.Join(buildDir, "vfh-"+v+".test")
		os.Remove(link)
		if err := os.Symlink("vfh-"+v, link); err != nil {
			return err
		}
	}
	if plan.NoInline && (tier == "thorough" || (replay != nil && replay.NoInl)) {
		args := []string{"build", "-modfile=" + filepath.Join(buildDir, "go.mod"), "-tags", "verif", "-gcflags=all=-l", "-o", filepath.Join(buildDir, "vfh-noinl"), "./cmd/vfh"}
		cmd := exec.Command("go", args...)
		cmd.Dir = filepath.Join(verifDir, "harness")
		cmd.Env = goEnv()
		if out, err := cmd.CombinedOutput(); err != nil {
			return fmt.Errorf("go build -gcflags=all=-l: %v\n%s", err, out)
		}
		link := filepath.Join(buildDir, "vfh-noinl.test")
		os.Remove(link)
		if err := os.Symlink("vfh-noinl", link); err != nil {
			return err
		}
	}
	return nil
}

func runJobs(plan *Plan, jobs []Job) *Agg {
	agg := newAgg()
	var wg sync.WaitGroup
	sem := make(chan struct{}, parallel)
	for i := range jobs {
		j := &jobs[i]
		j.base = filepath.Join(runDir, fmt.Sprintf("j%04d", i))
		wg.Add(1)
		sem <- struct{}{}
		go func() {
			defer wg.Done()
			defer func() { <-sem }()
			runJob(j)
		}()
	}
	wg.Wait()
	for i := range jobs {
		collect(agg, &jobs[i])
	}
	agg.ChildCount = len(jobs)
	return agg
}

func runJob(j *Job) {
	bin := "vfh"
	if j.Race {
		bin = "vfh-race"
	}
	if j.NoInl {
		bin = "vfh-noinl"
	}
	if j.Variant != "" {
		bin = "vfh-" + j.Variant
	}
	var args []string
	if j.Mode == "test" {
		bin += ".test"
		args = append(args, "-test.vf=1")
	}
	binPath := filepath.Join(buildDir, bin)
	args = append(args, "-prop", prop, "-sub", j.Sub, "-seed", strconv.FormatInt(seed, 10),
		"-from", strconv.Itoa(j.From), "-to", strconv.Itoa(j.To), "-out", j.base, "-tier", tier,
		"-self", filepath.Join(buildDir, strings.TrimSuffix(bin, ".test")))
	if j.Only >= 0 {
		args = append(args, "-only", strconv.Itoa(j.Only))
	}
	args = append(args, j.Args...)
	cwd := j.base + ".d"
	os.MkdirAll(cwd, 0o755)
	cmd := exec.Command(binPath, args...)
	if j.Parent != "" {
		// a shell whose own argv[0] reads /usr/local/bin/<Parent> starts the child and waits for it
		cmd = &exec.Cmd{Path: "/bin/sh", Args: append([]string{"/usr/local/bin/" + j.Parent, "-c", `"$0" "$@"; exit $?`, binPath}, args...)}
	}
	cmd.Dir = cwd
	cmd.Env = []string{"PATH=" + os.Getenv("PATH"), "HOME=" + os.Getenv("HOME"), "VERIF_DIR=" + verifDir}
	if j.Procs > 0 {
		cmd.Env = append(cmd.Env, "GOMAXPROCS="+strconv.Itoa(j.Procs))
	}
	if j.Race {
		cmd.Env = append(cmd.Env, "GORACE=halt_on_error=0 log_path="+j.base+".race")
	}
	cmd.Env = append(cmd.Env, j.Env...)
	so, _ := os.Create(j.base + ".stdout")
	se, _ := os.Create(j.base + ".stderr")
	cmd.Stdout, cmd.Stderr = so, se
	defer so.Close()
	defer se.Close()
	to := j.Timeout
	if to == 0 {
		to = 20 * time.Minute
	}
	st := time.Now()
	if err := cmd.Start(); err != nil {
		j.exit = -1
		fmt.Fprintf(se, "start failed: %v\n", err)
		return
	}
	done := make(chan error, 1)
	go func() { done <- cmd.Wait() }()
	select {
	case err := <-done:
		j.exit = exitCode(err)
	case <-time.After(to):
		j.timedOut = true
		cmd.Process.Signal(syscall.SIGQUIT)
		select {
		case <-done:
		case <-time.After(10 * time.Second):
			cmd.Process.Kill()
			<-done
		}
		j.exit = -2
	}
	j.wall = time.Since(st)
}

func exitCode(err error) int {
	if err == nil {
		return 0
	}
	if ee, ok := err.(*exec.ExitError); ok {
		if ws, ok := ee.Sys().(syscall.WaitStatus); ok {
			if ws.Signaled() {
				return 128 + int(ws.Signal())
			}
			return ws.ExitStatus()
		}
	}
	return -1
}

func tail(path string, n int) string {
	b, err := os.ReadFile(path)
	if err != nil {
		return ""
	}
	if len(b) > n {
		b = b[len(b)-n:]
	}
	return string(b)
}

func head(path string, n int) string {
	b, err := os.ReadFile(path)
	if err != nil {
		return ""
	}
	if len(b) > n {
		b = b[:n]
	}
	return string(b)
}

func lastJournalIdx(path string) (idx int, notes []string) {
	idx = -1
	f, err := os.Open(path)
	if err != nil {
		return
	}
	defer f.Close()
	sc := bufio.NewScanner(f)
	sc.Buffer(make([]byte, 1<<20), 1<<26)
	for sc.Scan() {
		t := sc.Text()
		if strings.HasPrefix(t, "# ") {
			notes = append(notes, t[2:])
			if len(notes) > 8 {
				notes = notes[1:]
			}
			continue
		}
		if v, err := strconv.Atoi(t); err == nil {
			idx = v
			notes = notes[:0]
		}
	}
	return
}

func collect(agg *Agg, j *Job) {
	sawDone := false
	if f, err := os.Open(j.base + ".report"); err == nil {
		sc := bufio.NewScanner(f)
		sc.Buffer(make([]byte, 1<<20), 1<<28)
		for sc.Scan() {
			line := sc.Bytes()
			var hdr struct {
				T string `json:"t"`
				K string `json:"k"`
				N int64  `json:"n"`
			}
			if json.Unmarshal(line, &hdr) != nil {
				continue
			}
			switch hdr.T {
			case "viol":
				var v Viol
				if json.Unmarshal(line, &v) == nil {
					v.job = j
					agg.Viols = append(agg.Viols, v)
				}
			case "sample":
				if len(agg.Samples) < 6 {
					agg.Samples = append(agg.Samples, append(json.RawMessage(nil), line...))
				}
			case "stat":
				if strings.HasPrefix(hdr.K, "violations.") {
					agg.SigCount[strings.TrimPrefix(hdr.K, "violations.")] += hdr.N
				} else {
					agg.Stats[hdr.K] += hdr.N
				}
			case "max":
				if hdr.N > agg.Maxs[hdr.K] {
					agg.Maxs[hdr.K] = hdr.N
				}
			case "set":
				var s struct {
					K         string   `json:"k"`
					Vals      []string `json:"vals"`
					Truncated bool     `json:"truncated"`
				}
				if json.Unmarshal(line, &s) == nil {
					m := agg.Sets[s.K]
					if m == nil {
						m = map[string]struct{}{}
						agg.Sets[s.K] = m
					}
					for _, v := range s.Vals {
						m[v] = struct{}{}
					}
					if s.Truncated {
						agg.SetTrunc[s.K] = true
					}
				}
			case "done":
				var d struct {
					Evaluations int64 `json:"evaluations"`
				}
				json.Unmarshal(line, &d)
				agg.Evals += d.Evaluations
				sawDone = true
			}
		}
		f.Close()
	}
	if b, err := os.ReadFile(j.base + ".nt"); err == nil {
		for i := 0; i+8 <= len(b); i += 8 {
			agg.NT[binary.LittleEndian.Uint64(b[i:])] = struct{}{}
		}
	}
	// race reports
	if j.Race {
		matches, _ := filepath.Glob(j.base + ".race.*")
		for _, m := range matches {
			collectRaces(agg, j, m)
		}
	}
	if j.timedOut {
		agg.Inconcl = append(agg.Inconcl, fmt.Sprintf("child %s/%s timed out after %v (watchdog) — stderr tail: %s", j.Sub, j.Mode, j.wall.Round(time.Second), tail(j.base+".stderr", 600)))
		return
	}
	if !sawDone {
		// the child died: a crash no recover() could see. The journal names the case.
		idx, notes := lastJournalIdx(j.base + ".journal")
		if !sawDone {
			// count what the journal saw so evaluations are not lost
		}
		st := tail(j.base+".stderr", 3000)
		hd := head(j.base+".stderr", 1500)
		if idx < 0 && (strings.Contains(hd, "flag provided but not defined") || strings.Contains(hd, "harness usage error")) {
			agg.Inconcl = append(agg.Inconcl, "child usage error: "+hd)
			return
		}
		if low := strings.ToLower(hd + st); strings.Contains(low, "no space left on device") || strings.Contains(low, "disk quota exceeded") {
			// the machine ran out of disk under the child (its journal, report or scratch files could not be written):
			// nothing can be said about the library from such a run
			agg.Inconcl = append(agg.Inconcl, fmt.Sprintf("child %s/%s died because the disk is full: %s", j.Sub, j.Mode, tail(j.base+".stderr", 300)))
			return
		}
		sig := prop + "/crash/" + j.Sub
		d := fmt.Sprintf("child process died (exit %d) while running case %d; last notes: %v; stderr head: %s", j.exit, idx, notes, hd)
		agg.Viols = append(agg.Viols, Viol{T: "viol", Idx: idx, Clause: "crash", Sig: sig, Detail: d + "\n...\n" + st, job: j})
		agg.SigCount[sig]++
	}
}

// collectRaces parses a GORACE log file into deduplicated reports.
func collectRaces(agg *Agg, j *Job, path string) {
	b, err := os.ReadFile(path)
	if err != nil {
		return
	}
	blocks := strings.Split(string(b), "==================")
	for _, blk := range blocks {
		if !strings.Contains(blk, "WARNING: DATA RACE") {
			continue
		}
		agg.Stats["races_raw"]++
		inLogg := strings.Contains(blk, "github.com/hedzr/logg")
		// signature: the first logg frame of each of the two accessing stacks
		var frames []string
		sections := strings.Split(blk, "\n\n")
		for _, sec := range sections {
			t := strings.TrimSpace(sec)
			if !(strings.HasPrefix(t, "WARNING: DATA RACE") || strings.HasPrefix(t, "Write at") || strings.HasPrefix(t, "Read at") || strings.HasPrefix(t, "Previous write at") || strings.HasPrefix(t, "Previous read at")) {
				continue
			}
			for _, ln := range strings.Split(t, "\n") {
				ln = strings.TrimSpace(ln)
				if strings.HasPrefix(ln, "github.com/hedzr/logg") {
					fn := ln
					if i := strings.LastIndex(fn, "("); i > 0 { // cut the argument list, keep receivers like (*Entry)
						fn = fn[:i]
					}
					if i := strings.Index(fn, "["); i > 0 { // drop generic instantiation details
						fn = fn[:i]
					}
					fn = strings.TrimPrefix(fn, "github.com/hedzr/logg/")
					frames = append(frames, fn)
					break
				}
			}
		}
		sort.Strings(frames)
		frames = uniq(frames)
		key := strings.Join(frames, "+")
		if key == "" {
			key = "no-logg-frame"
		}
		sig := prop + "/race/" + key
		if !inLogg {
			// a race entirely inside the harness or runtime is a harness defect, not a finding
			sig = prop + "/race-outside-logg/" + key
		}
		agg.SigCount[sig]++
		if agg.SigCount[sig] <= 2 {
			if len(blk) > 6000 {
				blk = blk[:6000]
			}
			agg.Viols = append(agg.Viols, Viol{T: "viol", Idx: -1, Clause: "race", Sig: sig, Detail: blk, job: j})
		}
	}
}

func uniq(s []string) []string {
	var out []string
	for i, v := range s {
		if i == 0 || v != s[i-1] {
			out = append(out, v)
		}
	}
	return out
}

func loadFindings() []Finding {
	var fs []Finding
	b, err := os.ReadFile(filepath.Join(verifDir, "known-findings.json"))
	if err != nil {
		return nil
	}
	if err := json.Unmarshal(b, &fs); err != nil {
		die(2, "known-findings.json: %v", err)
	}
	return fs
}

func report(plan *Plan, agg *Agg, findings []Finding, wall time.Duration, replay *Replay) int {
	open := map[string]*Finding{}
	var openList []*Finding
	for i := range findings {
		f := &findings[i]
		if f.Property == prop && f.Status == "open" {
			open[f.Signature] = f
			openList = append(openList, f)
		}
	}
	// group violations by signature
	bySig := map[string][]Viol{}
	var sigs []string
	for _, v := range agg.Viols {
		if _, ok := bySig[v.Sig]; !ok {
			sigs = append(sigs, v.Sig)
		}
		bySig[v.Sig] = append(bySig[v.Sig], v)
	}
	for s := range agg.SigCount {
		if _, ok := bySig[s]; !ok {
			sigs = append(sigs, s)
			bySig[s] = nil
		}
	}
	sort.Strings(sigs)
	newViol := 0
	knownSeen := map[string]int64{}
	replayDir := filepath.Join(verifDir, "replay", prop)
	n := 0
	for _, s := range sigs {
		cnt := agg.SigCount[s]
		if cnt == 0 {
			cnt = int64(len(bySig[s]))
		}
		if _, ok := open[s]; ok {
			knownSeen[s] = cnt
			continue
		}
		newViol++
		vs := bySig[s]
		if len(vs) == 0 {
			continue
		}
		v := vs[0]
		if replay != nil {
			fmt.Printf("REPRODUCED property=%s signature=%s clause=%s idx=%d\n  %s\n", prop, s, v.Clause, v.Idx, indent(v.Detail))
			continue
		}
		os.MkdirAll(replayDir, 0o755)
		n++
		if n > 12 {
			if n == 13 {
				fmt.Printf("  … further new signatures are listed in the RESULT line only\n")
			}
			fmt.Printf("  also: signature=%s count=%d\n", s, cnt)
			continue
		}
		path := filepath.Join(replayDir, fmt.Sprintf("%s-%d-%d.json", tier, seed, n))
		r := Replay{Property: prop, Seed: seed, Tier: tier, Idx: v.Idx, Clause: v.Clause, Sig: s, Detail: v.Detail, Case: v.Case}
		if v.job != nil {
			r.Sub, r.Mode, r.Race, r.NoInl, r.From, r.To, r.Args, r.Env, r.Procs = v.job.Sub, v.job.Mode, v.job.Race, v.job.NoInl, v.job.From, v.job.To, v.job.Args, v.job.Env, v.job.Procs
			r.Parent, r.Variant = v.job.Parent, v.job.Variant
			if v.Clause == "crash" {
				r.Stderr = tail(v.job.base+".stderr", 4000)
			}
		}
		b, _ := json.MarshalIndent(r, "", " ")
		os.WriteFile(path, b, 0o644)
		fmt.Printf("VIOLATION property=%s replay=%s\n", prop, path)
		fmt.Printf("  signature=%s clause=%s count=%d\n  %s\n", s, v.Clause, cnt, indent(firstN(v.Detail, 1500)))
	}
	if replay == nil {
		for _, f := range openList {
			c := knownSeen[f.Signature]
			obs := fmt.Sprintf("observed %d time(s) in this run", c)
			if c == 0 {
				obs = "not exercised by this run"
			}
			fmt.Printf("KNOWN-FINDING: property=%s %s [%s; %s]\n", prop, f.What, f.Signature, obs)
		}
	}

	inconclusive := len(agg.Inconcl) > 0
	var reasons []string
	reasons = append(reasons, agg.Inconcl...)
	if n := agg.Stats["watchdog_timeouts"]; n > 0 {
		// a probe process that did not come back within its (generous) wall-clock watchdog: a call that never returns
		// cannot be convicted without a clock, and it certainly was not observed to behave - neither verdict
		inconclusive = true
		reasons = append(reasons, fmt.Sprintf("%d probe process(es) did not finish within their watchdog (a call that never returns, or an overloaded machine)", n))
	}
	if replay == nil {
		if agg.Evals == 0 {
			inconclusive = true
			reasons = append(reasons, "no case was evaluated")
		}
		for k, min := range plan.Floors {
			got := agg.Stats[k]
			if strings.HasPrefix(k, "max:") {
				got = agg.Maxs[strings.TrimPrefix(k, "max:")]
			}
			if got < min {
				inconclusive = true
				reasons = append(reasons, fmt.Sprintf("monitor counter %s=%d below the floor %d (observed too little)", k, got, min))
			}
		}
		if len(agg.NT) < 2 {
			inconclusive = true
			reasons = append(reasons, "fewer than 2 distinct non-trivial cases")
		}
		writeEvidence(plan, agg, wall, newViol, knownSeen)
	}

	if newViol > 0 {
		fmt.Printf("RESULT property=%s tier=%s seed=%d violated: %d new signature(s), %d evaluations, %.1fs\n", prop, tier, seed, newViol, agg.Evals, wall.Seconds())
		return 1
	}
	if inconclusive {
		for _, r := range reasons {
			fmt.Printf("INCONCLUSIVE property=%s reason=%q\n", prop, r)
		}
		return 2
	}
	if replay != nil {
		fmt.Printf("RESULT property=%s replay: no violation reproduced on the current tree\n", prop)
		return 0
	}
	fmt.Printf("RESULT property=%s tier=%s seed=%d held: %d evaluations, %d distinct non-trivial, %d children, %.1fs\n", prop, tier, seed, agg.Evals, len(agg.NT), agg.ChildCount, wall.Seconds())
	return 0
}

func indent(s string) string { return strings.ReplaceAll(s, "\n", "\n  ") }
func firstN(s string, n int) string {
	if len(s) > n {
		return s[:n] + "…"
	}
	return s
}

func writeEvidence(plan *Plan, agg *Agg, wall time.Duration, newViol int, knownSeen map[string]int64) {
	cov := map[string]any{
		"evaluations":         agg.Evals,
		"distinct_nontrivial": len(agg.NT),
		"rule":                plan.Rule,
		"children":            agg.ChildCount,
	}
	var samples []any
	for _, s := range agg.Samples {
		var v any
		if json.Unmarshal(s, &v) == nil {
			if m, ok := v.(map[string]any); ok {
				delete(m, "t")
			}
			samples = append(samples, v)
		}
	}
	// a run in which (nearly) every case violated has few or no held samples: the violating cases are cases this run
	// explored too, written out with what was observed
	for i, v := range agg.Viols {
		if len(samples) >= 3 || i >= 3 {
			break
		}
		d := v.Detail
		if len(d) > 600 {
			d = d[:600] + "…"
		}
		samples = append(samples, map[string]any{"idx": v.Idx, "violated": v.Sig, "case": v.Case, "observed": d})
	}
	if len(samples) == 0 {
		samples = append(samples, "no sample recorded")
	}
	cov["samples"] = samples
	counters := map[string]int64{}
	for k, v := range agg.Stats {
		counters[k] = v
	}
	cov["counters"] = counters
	if len(agg.Maxs) > 0 {
		cov["maxima"] = agg.Maxs
	}
	sets := map[string]any{}
	for k, m := range agg.Sets {
		vals := make([]string, 0, len(m))
		for v := range m {
			vals = append(vals, v)
		}
		sort.Strings(vals)
		e := map[string]any{"distinct": len(vals)}
		if agg.SetTrunc[k] {
			e["lower_bound"] = true
		}
		if len(vals) > 40 {
			e["first"] = vals[:40]
		} else {
			e["values"] = vals
		}
		sets[k] = e
	}
	if len(sets) > 0 {
		cov["distinct_observations"] = sets
	}
	if plan.Exhaustive != nil && plan.Exhaustive(tier) {
		cov["exhaustive"] = true
	}
	if len(knownSeen) > 0 {
		cov["known_findings_observed"] = knownSeen
	}
	if len(agg.Inconcl) > 0 {
		cov["inconclusive"] = agg.Inconcl
	}
	ev := map[string]any{
		"property_id": prop,
		"tier":        tier,
		"seed":        seed,
		"level":       plan.Level,
		"coverage":    cov,
		"assumptions": plan.Assumptions,
		"wall_s":      float64(int(wall.Seconds()*10)) / 10,
		"violations":  newViol,
	}
	var buf bytes.Buffer
	enc := json.NewEncoder(&buf)
	enc.SetIndent("", " ")
	enc.SetEscapeHTML(false)
	enc.Encode(ev)
	os.MkdirAll(filepath.Join(verifDir, "evidence"), 0o755)
	os.WriteFile(filepath.Join(verifDir, "evidence", prop+".json"), buf.Bytes(), 0o644)
}

// chunk splits [0,n) into child jobs of at most size cases each.
func chunk(sub, mode string, n, size int, tmpl Job) []Job {
	var out []Job
	for from := 0; from < n; from += size {
		to := from + size
		if to > n {
			to = n
		}
		j := tmpl
		j.Sub, j.Mode, j.From, j.To = sub, mode, from, to
		out = append(out, j)
	}
	return out
}

func pick(tier string, q, t int) int {
	if tier == "thorough" {
		return t
	}
	return q
}

var plans = map[string]*Plan{}

func register(p *Plan) { plans[p.Prop] = p }
