// Package mon holds the monitors at the library's output boundary: recording
// writers in the four shapes the library distinguishes (plain io.Writer,
// io.WriteCloser = LogWriter, either of those plus SetLevel = LevelSettable),
// with optional fault schedules and delays. All writers of one Log share one
// sequence counter; the monitor state is updated under the Log's own lock in
// the same critical section as the copy of the payload.
package mon

import (
	"errors"
	"runtime"
	"sync"
	"sync/atomic"
	"time"

	"github.com/hedzr/logg/slog"
)

type Kind int

const (
	EvWrite Kind = iota
	EvSetLevel
	EvClose
)

func (k Kind) String() string { return [...]string{"write", "setlevel", "close"}[k] }

type Event struct {
	Seq      int64
	W        string
	Kind     Kind
	Lvl      slog.Level // for setlevel
	Data     []byte     // copy of the payload
	Failed   bool       // the monitor returned an error for this write
	InFlight int32      // writes in progress (incl. this one) when it arrived
	Gid      int64      // goroutine tag set by the workload (0 if none)
}

type Log struct {
	mu       sync.Mutex
	events   []Event
	seq      int64
	inflight int32
	MaxIn    int32
	Discard  bool // count only (stress runs that keep their own index)
	OnWrite  func(e *Event)
}

func NewLog() *Log { return &Log{} }

func (l *Log) add(e Event) {
	l.mu.Lock()
	l.seq++
	e.Seq = l.seq
	if l.OnWrite != nil && e.Kind == EvWrite {
		l.OnWrite(&e)
	}
	if !l.Discard {
		l.events = append(l.events, e)
	}
	l.mu.Unlock()
}

func (l *Log) Events() []Event {
	l.mu.Lock()
	defer l.mu.Unlock()
	out := make([]Event, len(l.events))
	copy(out, l.events)
	return out
}

func (l *Log) Reset() {
	l.mu.Lock()
	l.events = l.events[:0]
	l.mu.Unlock()
}

func (l *Log) Len() int { l.mu.Lock(); defer l.mu.Unlock(); return len(l.events) }

// Writes returns the write events (optionally only those of writer id).
func (l *Log) Writes(id string) []Event {
	var out []Event
	for _, e := range l.Events() {
		if e.Kind == EvWrite && (id == "" || e.W == id) {
			out = append(out, e)
		}
	}
	return out
}

// FailFn decides attempt number n (0-based, per writer): fail reports whether
// the Write returns an error, short is the byte count returned with it.
type FailFn func(attempt int, p []byte) (fail bool, n int)

// ErrFn (optional) chooses the error value a failing attempt returns (default ErrInjected).
type ErrFn func(attempt int) error

type core struct {
	ID       string
	L        *Log
	Fail     FailFn
	Err      ErrFn
	DelayUS  int  // sleep inside Write (widen the window in which the buffer is in use)
	Yield    bool // runtime.Gosched inside Write
	attempts int32
	Gtag     func() int64
}

var ErrInjected = errors.New("mon: injected write failure")

func (c *core) write(p []byte) (int, error) {
	in := atomic.AddInt32(&c.L.inflight, 1)
	for {
		m := atomic.LoadInt32(&c.L.MaxIn)
		if in <= m || atomic.CompareAndSwapInt32(&c.L.MaxIn, m, in) {
			break
		}
	}
	if c.Yield {
		runtime.Gosched()
	}
	if c.DelayUS > 0 {
		time.Sleep(time.Duration(c.DelayUS) * time.Microsecond)
	}
	att := int(atomic.AddInt32(&c.attempts, 1)) - 1
	cp := make([]byte, len(p))
	copy(cp, p)
	e := Event{W: c.ID, Kind: EvWrite, Data: cp, InFlight: in}
	if c.Gtag != nil {
		e.Gid = c.Gtag()
	}
	n, fail := len(p), false
	var ferr error = ErrInjected
	if c.Fail != nil {
		if f, nn := c.Fail(att, p); f {
			fail, n = true, nn
			if c.Err != nil {
				if e2 := c.Err(att); e2 != nil {
					ferr = e2
				}
			}
		} else if nn >= 0 && nn < len(p) {
			n = nn // a destination that answers with a short count and NO error: not a failure it reports
		}
	}
	e.Failed = fail
	c.L.add(e)
	atomic.AddInt32(&c.L.inflight, -1)
	if fail {
		return n, ferr
	}
	return n, nil
}

func (c *core) setLevel(l slog.Level) { c.L.add(Event{W: c.ID, Kind: EvSetLevel, Lvl: l}) }
func (c *core) close() error          { c.L.add(Event{W: c.ID, Kind: EvClose}); return nil }
func (c *core) Attempts() int         { return int(atomic.LoadInt32(&c.attempts)) }
func (c *core) Core() *core           { return c }

// The four shapes. Each is a distinct type so that the library's interface
// assertions (LogWriter, LevelSettable) see exactly the method set intended.
type Plain struct{ *core }     // io.Writer only — the library wraps it
type Closer struct{ *core }    // io.WriteCloser = LogWriter — stored as is
type LvlPlain struct{ *core }  // io.Writer + SetLevel
type LvlCloser struct{ *core } // LogWriter + SetLevel

func (w Plain) Write(p []byte) (int, error)     { return w.core.write(p) }
func (w Closer) Write(p []byte) (int, error)    { return w.core.write(p) }
func (w Closer) Close() error                   { return w.core.close() }
func (w LvlPlain) Write(p []byte) (int, error)  { return w.core.write(p) }
func (w LvlPlain) SetLevel(l slog.Level)        { w.core.setLevel(l) }
func (w LvlCloser) Write(p []byte) (int, error) { return w.core.write(p) }
func (w LvlCloser) Close() error                { return w.core.close() }
func (w LvlCloser) SetLevel(l slog.Level)       { w.core.setLevel(l) }

type Shape int

const (
	ShapePlain Shape = iota
	ShapeCloser
	ShapeLvlPlain
	ShapeLvlCloser
)

func (s Shape) String() string { return [...]string{"plain", "closer", "lvl", "lvl+closer"}[s] }
func (s Shape) LevelSettable() bool { return s == ShapeLvlPlain || s == ShapeLvlCloser }

// W is what a workload holds: the io.Writer to hand to the library plus the core for inspection.
type W interface {
	Write(p []byte) (int, error)
	Core() *core
}

func New(l *Log, id string, shape Shape) W {
	c := &core{ID: id, L: l}
	switch shape {
	case ShapeCloser:
		return Closer{c}
	case ShapeLvlPlain:
		return LvlPlain{c}
	case ShapeLvlCloser:
		return LvlCloser{c}
	}
	return Plain{c}
}

// Pointer-shaped plain writer (comparable by identity like the value shapes, used to
// make sure removal works for pointer receivers too).
type PtrPlain struct{ C *core }

func (w *PtrPlain) Write(p []byte) (int, error) { return w.C.write(p) }
func (w *PtrPlain) Core() *core                 { return w.C }
func NewPtr(l *Log, id string) *PtrPlain        { return &PtrPlain{&core{ID: id, L: l}} }
