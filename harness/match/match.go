// Package match compares what the independent decoders read back from a
// record with what the generator handed to the logger, kind by kind, being
// lenient exactly where the property statements are silent (DESIGN §6).
package match

import (
	"fmt"
	"math"
	"math/big"
	"strconv"
	"strings"
	"time"
	"unicode/utf8"

	"verifharness/gen"
	"verifharness/oracle"
)

// ReplInvalid replaces every invalid UTF-8 byte by U+FFFD (what a JSON encoder must do).
func ReplInvalid(s string) string {
	if utf8.ValidString(s) {
		return s
	}
	var sb strings.Builder
	for i := 0; i < len(s); {
		r, w := utf8.DecodeRuneInString(s[i:])
		if r == utf8.RuneError && w == 1 {
			sb.WriteRune(utf8.RuneError)
		} else {
			sb.WriteString(s[i : i+w])
		}
		i += w
	}
	return sb.String()
}

func sameFloat(a, b float64) bool {
	if math.IsNaN(a) || math.IsNaN(b) {
		return math.IsNaN(a) && math.IsNaN(b)
	}
	return a == b
}

func parseFloatText(s string) (float64, bool) {
	f, err := strconv.ParseFloat(s, 64)
	if err != nil {
		if ne, ok := err.(*strconv.NumError); ok && ne.Err == strconv.ErrRange {
			return f, true
		}
		return 0, false
	}
	return f, true
}

// NumText reports whether text denotes exactly the numeric value of v.
func NumText(text string, v gen.V) (bool, string) {
	switch v.Kind {
	case "i", "i8", "i16", "i32", "i64":
		z, ok := new(big.Int).SetString(text, 10)
		if !ok || z.Cmp(big.NewInt(v.I)) != 0 {
			return false, fmt.Sprintf("text %q is not the integer %d", text, v.I)
		}
	case "u", "u8", "u16", "u32", "u64":
		z, ok := new(big.Int).SetString(text, 10)
		if !ok || z.Cmp(new(big.Int).SetUint64(v.U)) != 0 {
			return false, fmt.Sprintf("text %q is not the unsigned integer %d", text, v.U)
		}
	case "f32", "f64":
		f, ok := parseFloatText(text)
		if !ok || !sameFloat(f, v.F) {
			return false, fmt.Sprintf("text %q does not parse to the float %v", text, v.F)
		}
		if f == 0 && math.Signbit(f) != math.Signbit(v.F) && !strings.HasPrefix(text, "-") && math.Signbit(v.F) {
			// -0 printed as 0: the numeric value is equal; accepted
		}
	case "c64", "c128":
		c, err := strconv.ParseComplex(text, 128)
		if err != nil {
			if ne, ok := err.(*strconv.NumError); !ok || ne.Err != strconv.ErrRange {
				return false, fmt.Sprintf("text %q does not parse as complex: %v", text, err)
			}
		}
		if !sameFloat(real(c), real(v.C)) || !sameFloat(imag(c), imag(v.C)) {
			return false, fmt.Sprintf("text %q does not parse to the complex %v", text, v.C)
		}
	case "bool":
		if text != strconv.FormatBool(v.B) {
			return false, fmt.Sprintf("text %q is not %v", text, v.B)
		}
	default:
		return false, "not a numeric kind: " + v.Kind
	}
	return true, ""
}

func IsNumeric(kind string) bool {
	switch kind {
	case "i", "i8", "i16", "i32", "i64", "u", "u8", "u16", "u32", "u64", "f32", "f64", "c64", "c128", "bool":
		return true
	}
	return false
}

func IsTextual(kind string) bool {
	switch kind {
	case "str", "bytes", "err", "errv3", "stringer", "tostring", "level":
		return true
	}
	return false
}

func IsFallback(kind string) bool {
	for _, k := range gen.FallbackKinds {
		if k == kind {
			return true
		}
	}
	return false
}

func timeText(text string, t time.Time) (bool, string) {
	if y := t.Year(); y < 0 || y > 9999 {
		// RFC 3339 cannot carry such a year, so the text cannot be parsed back: compare with the reference rendering
		if text == t.Format(time.RFC3339Nano) {
			return true, ""
		}
		return false, fmt.Sprintf("time text %q is not %s", text, t.Format(time.RFC3339Nano))
	}
	p, err := time.Parse(time.RFC3339Nano, text)
	if err != nil {
		return false, fmt.Sprintf("time text %q does not parse (RFC3339Nano): %v", text, err)
	}
	if !p.Equal(t) {
		return false, fmt.Sprintf("time text %q is not the instant %s", text, t.Format(time.RFC3339Nano))
	}
	return true, ""
}

func durText(text string, d time.Duration) (bool, string) {
	p, err := time.ParseDuration(text)
	if err != nil {
		return false, fmt.Sprintf("duration text %q does not parse: %v", text, err)
	}
	if p != d {
		return false, fmt.Sprintf("duration text %q is not %d ns", text, int64(d))
	}
	return true, ""
}

// JSON compares a decoded JSON node with the value that was logged.
func JSON(n *oracle.Node, v gen.V) (bool, string) {
	if n == nil {
		return false, "member absent"
	}
	switch {
	case v.Kind == "nil":
		if n.Kind == oracle.JNull || (n.Kind == oracle.JStr && (n.Str == "<nil>" || n.Str == "null" || n.Str == "nil")) {
			return true, ""
		}
		return false, "nil rendered as " + n.Brief()
	case v.Kind == "err" || v.Kind == "errv3":
		if n.Kind == oracle.JStr {
			if n.Str == ReplInvalid(v.Text) {
				return true, ""
			}
			return false, fmt.Sprintf("error text %q != %q", n.Str, v.Text)
		}
		if n.Kind == oracle.JObj {
			m := n.Get("message")
			if m != nil && m.Kind == oracle.JStr && m.Str == ReplInvalid(v.Text) {
				return true, ""
			}
			return false, fmt.Sprintf("error object %s lacks message %q", n.Brief(), v.Text)
		}
		return false, "error rendered as " + n.Kind.String()
	case v.Kind == "textm":
		// JSON mode has no special case for a TextMarshaler: the fallback rendering ({{...}}) or the text itself, as a string
		if n.Kind != oracle.JStr {
			return false, fmt.Sprintf("TextMarshaler value rendered as %s, want a JSON string", n.Kind)
		}
		return true, ""
	case IsTextual(v.Kind):
		if n.Kind != oracle.JStr {
			return false, fmt.Sprintf("%s rendered as %s, want a JSON string", v.Kind, n.Kind)
		}
		if n.Str != ReplInvalid(v.Text) {
			return false, fmt.Sprintf("string %q != logged %q", n.Str, v.Text)
		}
		return true, ""
	case IsNumeric(v.Kind):
		switch n.Kind {
		case oracle.JNum:
			return NumText(n.Num, v)
		case oracle.JStr:
			return NumText(n.Str, v)
		case oracle.JBool:
			if v.Kind == "bool" && n.Bool == v.B {
				return true, ""
			}
		}
		return false, fmt.Sprintf("%s rendered as %s", v.Kind, n.Brief())
	case v.Kind == "time":
		if n.Kind != oracle.JStr {
			return false, "time rendered as " + n.Kind.String()
		}
		return timeText(n.Str, v.T)
	case v.Kind == "dur":
		if n.Kind == oracle.JStr {
			return durText(n.Str, v.D)
		}
		if n.Kind == oracle.JNum && n.Num == strconv.FormatInt(int64(v.D), 10) {
			return true, ""
		}
		return false, "duration rendered as " + n.Brief()
	case v.Kind == "group":
		if n.Kind != oracle.JObj {
			return false, fmt.Sprintf("group rendered as %s, want a nested object", n.Kind)
		}
		return JSONMembers(n, v.Items, nil)
	case IsFallback(v.Kind):
		if n.Kind != oracle.JStr {
			return false, fmt.Sprintf("fallback value rendered as %s, want a JSON string", n.Kind)
		}
		return true, ""
	default: // slices
		if n.Kind != oracle.JArr {
			return false, fmt.Sprintf("slice %s rendered as %s, want an array", v.Kind, n.Kind)
		}
		if len(n.Elems) != len(v.Elems) {
			return false, fmt.Sprintf("array has %d elements, slice had %d", len(n.Elems), len(v.Elems))
		}
		for i := range v.Elems {
			if ok, why := JSON(n.Elems[i], v.Elems[i]); !ok {
				return false, fmt.Sprintf("[%d]: %s", i, why)
			}
		}
		return true, ""
	}
}

// JSONMembers checks that the object's members (other than skip) are exactly the given
// attributes (which must have unique keys), each with an equivalent value.
func JSONMembers(n *oracle.Node, kvs []gen.KV, skip map[string]bool) (bool, string) {
	want := map[string]gen.V{}
	for _, kv := range kvs {
		want[ReplInvalid(kv.Key)] = kv.Val
	}
	seen := map[string]bool{}
	for _, m := range n.Members {
		if skip[m.Key] {
			continue
		}
		v, ok := want[m.Key]
		if !ok {
			return false, fmt.Sprintf("member %q was not logged (forged or misplaced)", m.Key)
		}
		seen[m.Key] = true
		if ok, why := JSON(m.Val, v); !ok {
			return false, fmt.Sprintf("member %q: %s", m.Key, why)
		}
	}
	for k, v := range want {
		if !seen[k] {
			if v.Kind == "group" && len(v.Items) == 0 && v.Go == nil {
				continue // a group without members may be shown as an empty object or left out
			}
			return false, fmt.Sprintf("attribute %q is missing", k)
		}
	}
	return true, ""
}

// Leaf is a flattened (dotted key, value) expectation for logfmt / colored text.
type Leaf struct {
	Key string
	Val gen.V
	Src string
}

// Flatten expands groups into dotted keys, in the given order.
func Flatten(prefix string, kvs []gen.KV) []Leaf {
	var out []Leaf
	for _, kv := range kvs {
		k := kv.Key
		if prefix != "" {
			k = prefix + "." + kv.Key
		}
		if kv.Val.Kind == "group" {
			out = append(out, Flatten(k, kv.Val.Items)...)
			continue
		}
		out = append(out, Leaf{k, kv.Val, kv.Src})
	}
	return out
}

// Text compares one logfmt / colored-text value token with the logged value.
// quotedRequired: string-like values must be quoted tokens (logfmt: always; colored: kinds the layout quotes).
func Text(p oracle.Pair, v gen.V, colored bool) (bool, string) {
	switch {
	case v.Kind == "nil":
		if p.Val == "<nil>" || p.Val == "null" || p.Val == "nil" {
			return true, ""
		}
		return false, fmt.Sprintf("nil rendered as %q", p.Raw)
	case IsTextual(v.Kind) || IsFallback(v.Kind) || v.Kind == "textm":
		if !p.Quoted {
			return false, fmt.Sprintf("string-like value (%s) is not quoted: %s", v.Kind, clip(p.Raw))
		}
		if IsFallback(v.Kind) {
			return true, ""
		}
		if p.Val != v.Text {
			return false, fmt.Sprintf("value %q != logged %q", p.Val, v.Text)
		}
		return true, ""
	case IsNumeric(v.Kind):
		return NumText(p.Val, v)
	case v.Kind == "time":
		if !p.Quoted && !colored {
			return false, "time value is not quoted: " + clip(p.Raw)
		}
		return timeText(p.Val, v.T)
	case v.Kind == "dur":
		if !p.Quoted && !colored {
			return false, "duration value is not quoted: " + clip(p.Raw)
		}
		return durText(p.Val, v.D)
	case v.Kind == "group":
		return false, "group leaf"
	default: // slices: [a,b,c]
		return sliceText(p, v, colored)
	}
}

func clip(s string) string {
	if len(s) > 80 {
		return s[:80] + "…"
	}
	return s
}

// sliceText parses "[e1,e2,…]" where string-like elements are quoted.
func sliceText(p oracle.Pair, v gen.V, colored bool) (bool, string) {
	raw := p.Raw
	if p.Quoted {
		raw = p.Val // a quoted rendering of the whole list is fine too
	}
	if len(raw) < 2 || raw[0] != '[' || raw[len(raw)-1] != ']' {
		return false, fmt.Sprintf("slice rendered as %s, want [..]", clip(raw))
	}
	body := raw[1 : len(raw)-1]
	var elems []oracle.Pair
	i := 0
	for i < len(body) {
		if body[i] == '"' {
			j := i + 1
			for j < len(body) {
				if body[j] == '\\' {
					j += 2
					continue
				}
				if body[j] == '"' {
					break
				}
				j++
			}
			if j >= len(body) {
				return false, "unterminated quoted element in " + clip(raw)
			}
			q := body[i : j+1]
			u, err := strconv.Unquote(q)
			if err != nil {
				return false, fmt.Sprintf("element %s does not unquote: %v", clip(q), err)
			}
			elems = append(elems, oracle.Pair{Raw: q, Quoted: true, Val: u})
			i = j + 1
		} else {
			j := i
			depth := 0
			for j < len(body) && (body[j] != ',' || depth > 0) {
				if body[j] == '(' {
					depth++
				} else if body[j] == ')' {
					depth--
				}
				j++
			}
			elems = append(elems, oracle.Pair{Raw: body[i:j], Val: body[i:j]})
			i = j
		}
		if i < len(body) {
			if body[i] != ',' {
				return false, fmt.Sprintf("expected ',' at offset %d of %s", i, clip(raw))
			}
			i++
		}
	}
	if len(elems) != len(v.Elems) {
		return false, fmt.Sprintf("list has %d elements, slice had %d: %s", len(elems), len(v.Elems), clip(raw))
	}
	for k := range elems {
		if ok, why := Text(elems[k], v.Elems[k], colored); !ok {
			return false, fmt.Sprintf("[%d]: %s", k, why)
		}
	}
	return true, ""
}
