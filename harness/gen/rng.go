// Package gen generates cases: a PCG generator per case (seeded from
// VERIF_SEED, property, sub-workload and case index, so that any single case
// can be regenerated alone), hostile string / number pools, and Go values of
// every supported kind together with the expectation the decoders compare with.
package gen

import (
	"hash/fnv"
	"math/rand/v2"
)

type R struct{ *rand.Rand }

func NewR(seed int64, prop, sub string, idx int) *R {
	h := fnv.New64a()
	h.Write([]byte(prop))
	h.Write([]byte{0})
	h.Write([]byte(sub))
	h.Write([]byte{0})
	var b [8]byte
	for i := 0; i < 8; i++ {
		b[i] = byte(uint64(idx) >> (8 * i))
	}
	h.Write(b[:])
	return &R{rand.New(rand.NewPCG(uint64(seed)*0x9e3779b97f4a7c15+1, h.Sum64()))}
}

func (r *R) Intn(n int) int {
	if n <= 0 {
		return 0
	}
	return r.IntN(n)
}
func (r *R) Bool() bool           { return r.IntN(2) == 0 }
func (r *R) P(pct int) bool       { return r.IntN(100) < pct }
func (r *R) Range(lo, hi int) int { return lo + r.Intn(hi-lo+1) } // inclusive

func Pick[T any](r *R, xs []T) T { return xs[r.Intn(len(xs))] }
