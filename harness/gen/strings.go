package gen

import (
	"strings"
)

// Hostile fragments: quotes, backslashes, CR/LF, NUL, C0 controls, DEL, escape
// sequences (SGR, OSC title, CSI 2J), invalid and truncated UTF-8, U+2028/2029,
// astral runes, injection payloads for each format.
var Hostile = []string{
	`"`, `\`, `\"`, `\\`, "\n", "\r", "\r\n", "\t", "\x00", "\x01", "\x07", "\x08", "\x0b", "\x0c", "\x1f", "\x7f",
	"\x1b[31m", "\x1b[0m", "\x1b]0;pwned\x07", "\x1b[2J", "\x1b[1;1H", "\x1b", "\x9b31m",
	"\xff", "\xfe\xfd", "\xc3", "\xe2\x82", "\xf0\x9f\x98", "\xc0\xaf", "\xed\xa0\x80",
	"\u2028", "\u2029", "\u00a0", "\u200b", "\ufeff", "\ufffd", "\u00e9", "\u65e5\u672c\u8a9e", "\U0001f600", "\U0010ffff", "\u0085", "next\u0085line", "\u0085\u0085", "\u0084\u0085\u0086",
	`","level":"fatal`, `" forged="1`, "}\n{\"time\":\"x\",\"level\":\"panic\",\"msg\":\"forged\"}", `\u0000`, `\x41`, `%s%d%!`, `{{`, `}}`,
	" ", "  ", "=", `="`, " k=v ", "a=b", "<b>", "</b>", "&amp;", "<", ">", "&", "&#10;", "&#xA;", "&NewLine;", "&#13;", "&#27;[31m", "&lt;", "&quot;", "&#0;", "<br>", "<i>x", "</u>", "'", "`", "[", "]", ",", "{", "}", ":", "null", "true", "<nil>",
}

var Plain = []string{"a", "b", "x1", "hello", "world", "user", "id", "42", "Z", "-", "_", ".", "/", "path/to", "foo-bar", "v", "q"}

// StrOpt controls string generation.
type StrOpt struct {
	MaxFrag   int  // max fragments
	HostilePc int  // percent of fragments that are hostile
	NoESC     bool // no ESC (0x1b) / CSI (0x9b) bytes
	NoLF      bool
	NoCtl     bool // no control chars at all (incl. LF, TAB)
	NoMarkup  bool // no < > &
	ValidUTF8 bool
	ASCII     bool
	Long      bool // sometimes very long
}

func (r *R) Str(o StrOpt) string {
	if o.MaxFrag == 0 {
		o.MaxFrag = 6
	}
	n := r.Intn(o.MaxFrag + 1)
	var sb strings.Builder
	for i := 0; i < n; i++ {
		var f string
		if r.P(o.HostilePc) {
			f = Pick(r, Hostile)
		} else if r.P(10) {
			// random bytes / runes
			k := r.Range(1, 4)
			var b []byte
			for j := 0; j < k; j++ {
				if r.Bool() {
					b = append(b, byte(r.Intn(256)))
				} else {
					b = append(b, []byte(string(rune(r.Intn(0x2fff))))...)
				}
			}
			f = string(b)
		} else {
			f = Pick(r, Plain)
		}
		sb.WriteString(f)
	}
	if o.Long && r.P(3) {
		sb.WriteString(strings.Repeat(Pick(r, Plain)+Pick(r, Hostile), r.Range(100, 4000)))
	}
	return Filter(sb.String(), o)
}

// Filter removes what the options exclude.
func Filter(s string, o StrOpt) string {
	if o.ValidUTF8 || o.ASCII {
		s = strings.ToValidUTF8(s, "?")
	}
	need := false
	for i := 0; i < len(s); i++ {
		c := s[i]
		if (o.NoESC && (c == 0x1b || c == 0x9b)) || (o.NoLF && (c == '\n' || c == '\r')) || (o.NoCtl && (c < 0x20 || c == 0x7f)) ||
			(o.NoMarkup && (c == '<' || c == '>' || c == '&')) || (o.ASCII && c >= 0x80) {
			need = true
			break
		}
	}
	if o.NoCtl && strings.ContainsAny(s, "\u0085\u2028\u2029\u009b") {
		need = true
	}
	if !need {
		return s
	}
	var sb strings.Builder
	for i := 0; i < len(s); i++ {
		c := s[i]
		switch {
		case o.NoESC && (c == 0x1b || c == 0x9b):
		case o.NoLF && (c == '\n' || c == '\r'):
		case o.NoCtl && (c < 0x20 || c == 0x7f):
		case o.NoMarkup && (c == '<' || c == '>' || c == '&'):
		case o.ASCII && c >= 0x80:
		default:
			sb.WriteByte(c)
		}
	}
	out := sb.String()
	if o.NoCtl {
		for _, bad := range []string{"\u0085", "\u2028", "\u2029", "\u009b"} {
			out = strings.ReplaceAll(out, bad, "")
		}
	}
	if o.ValidUTF8 {
		out = strings.ToValidUTF8(out, "?")
	}
	return out
}

// LogfmtKey returns a legal logfmt key (non-empty, no space, '=', quote, control
// character, and — because group members are flattened with dots — no dot).
func (r *R) LogfmtKey(uniq string) string {
	if r.P(6) {
		// long keys: total lengths around the 64-byte mark (stack buffers, dotted group prefixes)
		return uniq + strings.Repeat("k", r.Range(20, 70))
	}
	alphabet := "abcdefghijklmnopqrstuvwxyzABCDEFGHIJKLMNOPQRSTUVWXYZ0123456789_-/:@#$%+*^!?|;,()[]{}<>&'`"
	n := r.Range(0, 5)
	var sb strings.Builder
	sb.WriteString(uniq)
	for i := 0; i < n; i++ {
		if r.P(15) {
			// letters whose UTF-8 encodings contain bytes that are white space or controls in single-byte charsets
			// (0x85, 0xA0, 0x9B, 0x80, 0xAD, 0xBF)
			sb.WriteString(Pick(r, []string{"\u00e9", "\u65e5", "\U0001f600", "\u00df", "\u00e0", "\u00c5", "\u0420", "\u65e0", "\u00c0", "\u015b", "\u00ed", "\u00bf", "\u0105"}))
		} else {
			sb.WriteByte(alphabet[r.Intn(len(alphabet))])
		}
	}
	return sb.String()
}

// SimpleKey returns an identifier-like key.
func (r *R) SimpleKey(uniq string) string {
	alphabet := "abcdefghijklmnopqrstuvwxyz0123456789_"
	n := r.Range(0, 4)
	var sb strings.Builder
	sb.WriteString(uniq)
	for i := 0; i < n; i++ {
		sb.WriteByte(alphabet[r.Intn(len(alphabet))])
	}
	return sb.String()
}
