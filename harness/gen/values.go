package gen

import (
	"errors"
	"fmt"
	"io"
	"math"
	"strconv"
	"sync"
	"time"

	"github.com/hedzr/logg/slog"
	errorsv3 "gopkg.in/hedzr/errors.v3"
)

// V is a generated Go value together with what the decoders expect to read back.
type V struct {
	Kind  string // see Kinds
	Go    any    // the value handed to the logger
	Text  string // string-like kinds: the exact text
	I     int64
	U     uint64
	F     float64
	C     complex128
	B     bool
	T     time.Time
	D     time.Duration
	Elems []V  // slice kinds
	Items []KV // group
}

type KV struct {
	Key string
	Val V
	Src string // source tag for C07 (ctx#i, anc1#i, own#i, call#i)
}

type Stringer struct{ S string }

func (s Stringer) String() string { return s.S }

// LoggingStringer is a Stringer that logs a record through another logger (to nowhere) while it is being formatted -
// what a value with a lazy, instrumented String() does. The record that carries it must not notice.
type LoggingStringer struct{ S string }

var (
	nestOnce   sync.Once
	nestLogger *slog.Entry
	nestCalls  int
	nestMu     sync.Mutex // values may be formatted by several goroutines at once; the private logger is reconfigured per call
)

// NestedLog emits one record through a private logger whose destination discards it; the format rotates.
func NestedLog(why string) {
	nestOnce.Do(func() {
		nestLogger = slog.New("nested-in-value").Root()
		nestLogger.SetWriter(io.Discard).SetErrorWriter(io.Discard).SetLevel(slog.AlwaysLevel)
	})
	nestMu.Lock()
	defer nestMu.Unlock()
	nestCalls++
	switch nestCalls % 3 {
	case 0:
		nestLogger.SetJSONMode(true)
	case 1:
		nestLogger.SetColorMode(true)
	default:
		nestLogger.SetColorMode(false)
	}
	nestLogger.Info("record issued while another record is being formatted\nsecond line", "why", why, "n", nestCalls, slog.Group("g", "x", 1, "y", "z"))
}

// NestedRecords reports how many records were issued from inside values so far.
func NestedRecords() int { return nestCalls }

func (s LoggingStringer) String() string { NestedLog("String()"); return s.S }

// TypedNilErrors switches on error values that are typed nils (see the "err" kind).
var TypedNilErrors = true

// NilSafeErr is a pointer error whose Error() accepts a nil receiver.
type NilSafeErr struct{ S string }

func (e *NilSafeErr) Error() string {
	if e == nil {
		return "nil-safe error (nil receiver)"
	}
	return e.S
}

// ErrList is a slice type that is an error; the nil slice is the empty list.
type ErrList []error

func (e ErrList) Error() string { return fmt.Sprintf("%d error(s) in the list", len(e)) }

// LoggingError is an error whose Error() logs (see LoggingStringer).
type LoggingError struct{ S string }

func (e LoggingError) Error() string { NestedLog("Error()"); return e.S }

// TextM implements encoding.TextMarshaler only.
type TextM struct{ S string }

func (t TextM) MarshalText() ([]byte, error) { return []byte(t.S), nil }

// TextMFail is a TextMarshaler whose MarshalText fails; the error text is free text (it may echo hostile input).
type TextMFail struct{ S string }

func (t TextMFail) MarshalText() ([]byte, error) { return nil, errors.New(t.S) }

// StringerTextM is a Stringer that is a TextMarshaler too (with another text).
type StringerTextM struct{ S string }

func (t StringerTextM) String() string               { return t.S }
func (t StringerTextM) MarshalText() ([]byte, error) { return []byte("marshalled:" + t.S), nil }

type ToStr struct{ S string }

func (s ToStr) ToString(args ...any) string { return s.S }

type PlainStruct struct {
	A int
	B string
	C []int
}

type Options struct {
	Str                   StrOpt
	NoFallback            bool // no struct/map/ptr/func/chan
	NoSlices              bool
	NoGroups              bool
	NoBytes               bool
	NoNil                 bool
	NoErrV3               bool
	NoSpaceInSliceStrings bool
	MaxDepth              int
	Only                  []string // restrict to these kinds
}

var ScalarKinds = []string{"str", "str", "str", "bytes", "bool", "i", "i8", "i16", "i32", "i64", "u", "u8", "u16", "u32", "u64",
	"f32", "f64", "c64", "c128", "time", "dur", "err", "errv3", "stringer", "tostring", "textm", "level", "nil"}
var SliceKinds = []string{"strs", "bools", "is", "i8s", "i16s", "i32s", "i64s", "us", "u16s", "u32s", "u64s", "f32s", "f64s", "c64s", "c128s", "times", "durs"}
var FallbackKinds = []string{"struct", "map", "ptr", "func", "chan", "structptr", "iface-slice"}

var IntPool = []int64{0, 1, -1, 2, 7, 10, 42, 127, 128, -128, -129, 255, 256, 32767, -32768, 65535, 65536, math.MaxInt32, math.MinInt32, math.MaxInt64, math.MinInt64, 1 << 53, (1 << 53) + 1, -(1 << 53) - 1, 1234567890123456789}
var UintPool = []uint64{0, 1, 2, 9, 10, 255, 256, 65535, 65536, math.MaxUint32, math.MaxUint32 + 1, math.MaxInt64, math.MaxInt64 + 1, math.MaxUint64, 1<<53 + 1}
var FloatPool = []float64{0, math.Copysign(0, -1), 1, -1, 0.5, 1.5, 0.1, -0.1, 1e-7, 1e21, 1e-320, 5e-324, math.MaxFloat64, -math.MaxFloat64, math.SmallestNonzeroFloat64, math.MaxFloat32, math.SmallestNonzeroFloat32, 1e100, 123456789.125, math.Pi, math.NaN(), math.Inf(1), math.Inf(-1), 1 << 53, 1<<53 + 2, 9223372036854775808.0, -9223372036854775808.0, 18446744073709551616.0, 9007199254740992.0, 9007199254740993.0, 4294967296.0, 2147483648.0, -2147483649.0, 1e15, 1e16, 1e20, 1e21, 1e-6, 1e-7, 123456789012345678.0, 0.1 + 0.2}

func (r *R) Int64() int64 {
	if r.P(60) {
		return Pick(r, IntPool)
	}
	return int64(r.Uint64()) >> uint(r.Intn(64))
}
func (r *R) U64() uint64 {
	if r.P(60) {
		return Pick(r, UintPool)
	}
	return r.Uint64() >> uint(r.Intn(64))
}
func (r *R) F64() float64 {
	if r.P(60) {
		return Pick(r, FloatPool)
	}
	if r.Bool() {
		return math.Float64frombits(r.Uint64())
	}
	return (r.Float64() - 0.5) * math.Pow(10, float64(r.Range(-20, 20)))
}

var Zones = []*time.Location{time.UTC, time.FixedZone("", 0), time.FixedZone("X", 5*3600+1800), time.FixedZone("Y", -(9*3600 + 45*60)), time.FixedZone("odd", 3600+17*60), time.FixedZone("neg", -1*60)}

// NestingValues switches on Stringer / error values that log through another logger while they are being formatted.
var NestingValues = true

// ExtremeTimes switches on instants outside years 0..9999 (which RFC 3339 cannot carry).
var ExtremeTimes = false

func (r *R) Time() time.Time {
	loc := Pick(r, Zones)
	if ExtremeTimes && r.P(6) {
		return Pick(r, []time.Time{time.Date(10000, 1, 1, 0, 0, 0, 0, time.UTC), time.Unix(1<<40, 0).UTC(), time.Date(-1, 12, 31, 23, 59, 59, 0, time.UTC), time.Date(-44, 3, 15, 12, 0, 0, 0, loc), time.Date(123456, 7, 8, 9, 10, 11, 12, loc), {}, time.Date(0, 1, 1, 0, 0, 0, 0, time.UTC), time.Date(9999, 12, 31, 23, 59, 59, 999999999, time.UTC)})
	}
	switch r.Intn(6) {
	case 0:
		return time.Date(2024, 2, 29, 13, 4, 5, 123456789, loc)
	case 1:
		return time.Date(r.Range(1, 9999), time.Month(r.Range(1, 12)), r.Range(1, 28), r.Intn(24), r.Intn(60), r.Intn(60), r.Intn(1e9), loc)
	case 2:
		return time.Unix(0, 0).In(loc)
	case 3:
		return time.Date(1999, 12, 31, 23, 59, 59, 999999999, loc)
	case 4:
		return time.Date(2038, 1, 19, 3, 14, 8, r.Intn(1000)*1000000, loc)
	}
	return time.Date(r.Range(1970, 2100), time.Month(r.Range(1, 12)), r.Range(1, 28), r.Intn(24), r.Intn(60), r.Intn(60), r.Intn(1000)*1000, loc)
}

func (r *R) Dur() time.Duration {
	pool := []time.Duration{0, 1, -1, 999, 1000, time.Microsecond + 1, time.Millisecond, time.Second, 90 * time.Second, time.Hour, 25 * time.Hour, math.MaxInt64, math.MinInt64, -time.Minute, 1500 * time.Millisecond}
	if r.P(60) {
		return Pick(r, pool)
	}
	return time.Duration(r.Int64())
}

// ExtraLevels joins the pool of Level VALUES once a workload has registered severities of its own.
var ExtraLevels []slog.Level

var levelPool = []slog.Level{slog.PanicLevel, slog.ErrorLevel, slog.WarnLevel, slog.InfoLevel, slog.DebugLevel, slog.TraceLevel, slog.OffLevel, slog.AlwaysLevel, slog.OKLevel, slog.FailLevel,
	slog.Level(17), slog.MaxLevel, slog.Level(-3)} // and values nobody registered

// Scalar builds a value of the given scalar kind.
func (r *R) Scalar(kind string, o Options) V {
	v := V{Kind: kind}
	switch kind {
	case "str":
		v.Text = r.Str(o.Str)
		v.Go = v.Text
	case "bytes":
		v.Text = r.Str(o.Str)
		v.Go = []byte(v.Text)
	case "bool":
		v.B = r.Bool()
		v.Go = v.B
	case "i":
		v.I = r.Int64()
		v.Go = int(v.I)
	case "i8":
		v.I = int64(int8(r.Int64()))
		v.Go = int8(v.I)
	case "i16":
		v.I = int64(int16(r.Int64()))
		v.Go = int16(v.I)
	case "i32":
		v.I = int64(int32(r.Int64()))
		v.Go = int32(v.I)
	case "i64":
		v.I = r.Int64()
		v.Go = v.I
	case "u":
		v.U = r.U64()
		v.Go = uint(v.U)
	case "u8":
		v.U = uint64(uint8(r.U64()))
		v.Go = uint8(v.U)
	case "u16":
		v.U = uint64(uint16(r.U64()))
		v.Go = uint16(v.U)
	case "u32":
		v.U = uint64(uint32(r.U64()))
		v.Go = uint32(v.U)
	case "u64":
		v.U = r.U64()
		v.Go = v.U
	case "f32":
		f := float32(r.F64())
		v.F = float64(f)
		v.Go = f
	case "f64":
		v.F = r.F64()
		v.Go = v.F
	case "c64":
		c := complex(float32(r.F64()), float32(r.F64()))
		v.C = complex128(c)
		v.Go = c
	case "c128":
		v.C = complex(r.F64(), r.F64())
		v.Go = v.C
	case "time":
		v.T = r.Time()
		v.Go = v.T
	case "dur":
		v.D = r.Dur()
		v.Go = v.D
	case "err":
		v.Text = r.Str(o.Str)
		v.Go = errors.New(v.Text)
		if NestingValues && r.P(20) {
			v.Go = LoggingError{v.Text}
		}
		if TypedNilErrors && r.P(10) {
			// an error variable that holds a nil pointer / a nil slice of a type whose Error() copes with that: it is
			// an error value like any other and reads as what Error() returns
			if r.Bool() {
				v.Go = (*NilSafeErr)(nil)
			} else {
				v.Go = ErrList(nil)
			}
			v.Text = v.Go.(error).Error()
		}
	case "errv3":
		v.Text = r.Str(o.Str)
		v.Go = errorsv3.New(safeFmt(v.Text))
		if r.P(12) {
			// ... made with a skip count beyond the stack: an error of the same type whose stack trace is EMPTY
			v.Go = errorsv3.New(safeFmt(v.Text)).WithSkip(100)
		}
		v.Text = v.Go.(error).Error()
	case "stringer":
		v.Text = r.Str(o.Str)
		v.Go = Stringer{v.Text}
		if NestingValues && r.P(35) {
			v.Go = LoggingStringer{v.Text}
		} else if r.P(15) {
			v.Go = StringerTextM{v.Text} // also a TextMarshaler (net.IP, big.Float ... are both): String() is what is logged
		}
	case "tostring":
		v.Text = r.Str(o.Str)
		v.Go = ToStr{v.Text}
	case "textm":
		// a value that implements encoding.TextMarshaler (and nothing else the library knows): its text is text like any other
		v.Text = r.Str(o.Str)
		v.Go = TextM{v.Text}
	case "level":
		l := Pick(r, levelPool)
		if len(ExtraLevels) > 0 && r.P(35) {
			l = Pick(r, ExtraLevels) // severities the workload registered under titles of its own (quotes, escape bytes, line breaks ...)
		}
		v.Text = l.String()
		v.Go = l
	case "nil":
		v.Go = nil
	default:
		panic("gen: unknown scalar kind " + kind)
	}
	return v
}

// errors.v3 New treats its first argument as a format string.
func safeFmt(s string) string {
	out := make([]byte, 0, len(s))
	for i := 0; i < len(s); i++ {
		if s[i] == '%' {
			out = append(out, '%', '%')
		} else {
			out = append(out, s[i])
		}
	}
	return string(out)
}

func (r *R) Slice(kind string, o Options) V {
	v := V{Kind: kind}
	n := r.Intn(5)
	if r.P(5) {
		n = r.Range(20, 200)
	}
	ek := map[string]string{"strs": "str", "bools": "bool", "is": "i", "i8s": "i8", "i16s": "i16", "i32s": "i32", "i64s": "i64",
		"us": "u", "u16s": "u16", "u32s": "u32", "u64s": "u64", "f32s": "f32", "f64s": "f64", "c64s": "c64", "c128s": "c128", "times": "time", "durs": "dur"}[kind]
	eo := o
	if kind == "strs" && o.NoSpaceInSliceStrings {
		eo.Str.NoCtl = true
	}
	for i := 0; i < n; i++ {
		e := r.Scalar(ek, eo)
		if kind == "strs" && o.NoSpaceInSliceStrings {
			e.Text = stripSpaces(e.Text)
			e.Go = e.Text
		}
		v.Elems = append(v.Elems, e)
	}
	switch kind {
	case "strs":
		s := make([]string, n)
		for i, e := range v.Elems {
			s[i] = e.Go.(string)
		}
		v.Go = s
	case "bools":
		s := make([]bool, n)
		for i, e := range v.Elems {
			s[i] = e.B
		}
		v.Go = s
	case "is":
		v.Go = mk(v.Elems, func(e V) int { return int(e.I) })
	case "i8s":
		v.Go = mk(v.Elems, func(e V) int8 { return int8(e.I) })
	case "i16s":
		v.Go = mk(v.Elems, func(e V) int16 { return int16(e.I) })
	case "i32s":
		v.Go = mk(v.Elems, func(e V) int32 { return int32(e.I) })
	case "i64s":
		v.Go = mk(v.Elems, func(e V) int64 { return e.I })
	case "us":
		v.Go = mk(v.Elems, func(e V) uint { return uint(e.U) })
	case "u16s":
		v.Go = mk(v.Elems, func(e V) uint16 { return uint16(e.U) })
	case "u32s":
		v.Go = mk(v.Elems, func(e V) uint32 { return uint32(e.U) })
	case "u64s":
		v.Go = mk(v.Elems, func(e V) uint64 { return e.U })
	case "f32s":
		v.Go = mk(v.Elems, func(e V) float32 { return float32(e.F) })
	case "f64s":
		v.Go = mk(v.Elems, func(e V) float64 { return e.F })
	case "c64s":
		v.Go = mk(v.Elems, func(e V) complex64 { return complex64(e.C) })
	case "c128s":
		v.Go = mk(v.Elems, func(e V) complex128 { return e.C })
	case "times":
		v.Go = mk(v.Elems, func(e V) time.Time { return e.T })
	case "durs":
		v.Go = mk(v.Elems, func(e V) time.Duration { return e.D })
	default:
		panic("gen: unknown slice kind " + kind)
	}
	return v
}

func stripSpaces(s string) string {
	out := make([]byte, 0, len(s))
	for i := 0; i < len(s); i++ {
		if s[i] != ' ' {
			out = append(out, s[i])
		}
	}
	return string(out)
}

func mk[T any](es []V, f func(V) T) []T {
	out := make([]T, len(es))
	for i, e := range es {
		out[i] = f(e)
	}
	return out
}

func (r *R) Fallback(kind string, o Options) V {
	v := V{Kind: kind}
	switch kind {
	case "struct":
		v.Go = PlainStruct{int(r.Int64()), r.Str(o.Str), []int{1, 2}}
	case "structptr":
		v.Go = &PlainStruct{int(r.Int64()), r.Str(o.Str), nil}
	case "map":
		v.Go = map[string]any{r.Str(o.Str): r.Int64()}
	case "ptr":
		x := r.Int64()
		v.Go = &x
	case "func":
		v.Go = func() {}
	case "chan":
		v.Go = make(chan int)
	case "iface-slice":
		v.Go = []any{r.Str(o.Str), r.Int64(), nil}
	default:
		panic("gen: unknown fallback kind " + kind)
	}
	v.Text = fmt.Sprintf("{{%v}}", v.Go)
	return v
}

// Value picks a kind and builds a value; depth bounds group nesting.
func (r *R) Value(o Options, depth int) V {
	if len(o.Only) > 0 {
		return r.OfKind(Pick(r, o.Only), o, depth)
	}
	x := r.Intn(100)
	switch {
	case x < 62:
		for {
			k := Pick(r, ScalarKinds)
			if (k == "bytes" && o.NoBytes) || (k == "nil" && o.NoNil) || (k == "errv3" && o.NoErrV3) {
				continue
			}
			return r.Scalar(k, o)
		}
	case x < 80 && !o.NoSlices:
		return r.Slice(Pick(r, SliceKinds), o)
	case x < 88 && !o.NoFallback:
		return r.Fallback(Pick(r, FallbackKinds), o)
	case x < 100 && !o.NoGroups && depth < o.MaxDepth:
		return r.Group(o, depth+1)
	}
	return r.Scalar(Pick(r, []string{"str", "i", "bool", "f64"}), o)
}

func (r *R) OfKind(k string, o Options, depth int) V {
	for _, s := range SliceKinds {
		if s == k {
			return r.Slice(k, o)
		}
	}
	for _, s := range FallbackKinds {
		if s == k {
			return r.Fallback(k, o)
		}
	}
	if k == "group" {
		return r.Group(o, depth+1)
	}
	return r.Scalar(k, o)
}

// AttrVal builds an Attr (or a group Attr) used in value position: the JSON rendering is a one-member object.
func (r *R) AttrVal(o Options, depth int) V {
	keyCounter++
	k := "av" + strconv.Itoa(keyCounter)
	inner := r.Value(o, depth+1)
	v := V{Kind: "group", Items: []KV{{Key: k, Val: inner}}}
	v.Go = KV{Key: k, Val: inner}.Attr()
	return v
}

// KeyFn produces a fresh unique key.
type KeyFn func() string

var keyCounter int

// Group builds a group value with unique member keys (uniqueness of keys is C04's domain; collisions are C07's).
func (r *R) Group(o Options, depth int) V {
	v := V{Kind: "group"}
	n := r.Intn(4)
	for i := 0; i < n; i++ {
		keyCounter++
		k := "m" + strconv.Itoa(keyCounter) + r.SimpleKey("")
		v.Items = append(v.Items, KV{Key: k, Val: r.Value(o, depth)})
	}
	return v
}

// Attr materialises a KV as a library attribute.
func (kv KV) Attr() slog.Attr {
	if kv.Val.Kind == "group" && kv.Val.Go != nil {
		return slog.NewAttr(kv.Key, kv.Val.Go) // an Attr in value position (AttrVal)
	}
	if kv.Val.Kind == "group" {
		as := make([]slog.Attr, len(kv.Val.Items))
		for i, it := range kv.Val.Items {
			as[i] = it.Attr()
		}
		return slog.NewGroupedAttr(kv.Key, as...)
	}
	return slog.NewAttr(kv.Key, kv.Val.Go)
}

// Desc renders a value for case dumps (JSON-able, printable).
func (v V) Desc() any {
	switch v.Kind {
	case "group":
		m := []any{}
		for _, it := range v.Items {
			m = append(m, map[string]any{"key": strconv.Quote(it.Key), "val": it.Val.Desc()})
		}
		return map[string]any{"k": "group", "items": m}
	case "str", "bytes", "err", "errv3", "stringer", "tostring", "textm", "level":
		return map[string]any{"k": v.Kind, "text": strconv.Quote(v.Text)}
	case "nil":
		return map[string]any{"k": "nil"}
	case "time":
		return map[string]any{"k": "time", "v": v.T.Format(time.RFC3339Nano)}
	case "dur":
		return map[string]any{"k": "dur", "ns": int64(v.D)}
	}
	if len(v.Elems) > 0 || isSliceKind(v.Kind) {
		es := []any{}
		for i, e := range v.Elems {
			if i >= 8 {
				es = append(es, fmt.Sprintf("…(%d more)", len(v.Elems)-8))
				break
			}
			es = append(es, e.Desc())
		}
		return map[string]any{"k": v.Kind, "elems": es}
	}
	return map[string]any{"k": v.Kind, "v": fmt.Sprintf("%#v", v.Go)}
}

func isSliceKind(k string) bool {
	for _, s := range SliceKinds {
		if s == k {
			return true
		}
	}
	return false
}

func DescKVs(kvs []KV) any {
	out := []any{}
	for _, kv := range kvs {
		m := map[string]any{"key": strconv.Quote(kv.Key), "val": kv.Val.Desc()}
		if kv.Src != "" {
			m["src"] = kv.Src
		}
		out = append(out, m)
	}
	return out
}
