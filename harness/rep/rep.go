// Package rep is the child-side reporting channel of the verification
// harness: a journal (case index written before the case runs), a JSONL report
// (violations, samples, counters) and a file of 8-byte hashes of the cases
// that were non-trivial by the property's rule.
package rep

import (
	"bufio"
	"encoding/binary"
	"encoding/json"
	"fmt"
	"hash/fnv"
	"os"
	"sort"
	"strconv"
	"sync"
)

type Reporter struct {
	mu       sync.Mutex
	out      *bufio.Writer
	outF     *os.File
	jour     *os.File
	nt       *bufio.Writer
	ntF      *os.File
	stats    map[string]int64
	maxs     map[string]int64
	sets     map[string]map[string]struct{}
	perSig   map[string]int
	samples  int
	MaxSamp  int
	MaxPerSg int
	evals    int64
	viols    int64
	violIdx  map[int]bool
}

func Open(base string) (*Reporter, error) {
	r := &Reporter{stats: map[string]int64{}, maxs: map[string]int64{}, sets: map[string]map[string]struct{}{}, perSig: map[string]int{}, MaxSamp: 3, MaxPerSg: 3}
	var err error
	if r.outF, err = os.Create(base + ".report"); err != nil {
		return nil, err
	}
	r.out = bufio.NewWriterSize(r.outF, 1<<16)
	if r.jour, err = os.Create(base + ".journal"); err != nil {
		return nil, err
	}
	if r.ntF, err = os.Create(base + ".nt"); err != nil {
		return nil, err
	}
	r.nt = bufio.NewWriterSize(r.ntF, 1<<16)
	return r, nil
}

// Journal records that case idx is about to run (unbuffered, so that a crash
// no recover() can see still identifies its input).
func (r *Reporter) Journal(idx int) {
	r.mu.Lock()
	var b [24]byte
	s := strconv.AppendInt(b[:0], int64(idx), 10)
	s = append(s, '\n')
	_, _ = r.jour.Write(s)
	r.evals++
	r.mu.Unlock()
}

// JournalNote writes free text to the journal (e.g. the operation about to be executed).
func (r *Reporter) JournalNote(s string) {
	r.mu.Lock()
	_, _ = r.jour.WriteString("# " + s + "\n")
	r.mu.Unlock()
}

func (r *Reporter) line(v any) {
	b, err := json.Marshal(v)
	if err != nil {
		b, _ = json.Marshal(map[string]any{"t": "error", "err": err.Error()})
	}
	r.out.Write(b)
	r.out.WriteByte('\n')
}

type Viol struct {
	T      string `json:"t"`
	Idx    int    `json:"idx"`
	Clause string `json:"clause"`
	Sig    string `json:"sig"`
	Detail string `json:"detail"`
	Case   any    `json:"case,omitempty"`
}

// Violation reports a failed oracle clause. sig is the known-findings signature.
func (r *Reporter) Violation(idx int, clause, sig, detail string, cas any) {
	r.mu.Lock()
	defer r.mu.Unlock()
	r.viols++
	if r.violIdx == nil {
		r.violIdx = map[int]bool{}
	}
	if !r.violIdx[idx] {
		// a case that reached an oracle and failed it is a distinct non-trivial case of this run (counted once per case)
		r.violIdx[idx] = true
		var b [8]byte
		h := fnv.New64a()
		fmt.Fprintf(h, "violating-case\x00%d", idx)
		binary.LittleEndian.PutUint64(b[:], h.Sum64())
		r.nt.Write(b[:])
	}
	r.perSig[sig]++
	r.stats["violations."+sig]++
	if r.perSig[sig] > r.MaxPerSg {
		return
	}
	if len(detail) > 4000 {
		detail = detail[:4000] + "…(truncated)"
	}
	r.line(Viol{"viol", idx, clause, sig, detail, cas})
	r.out.Flush()
}

// Sample records one of the first few cases with what was observed.
func (r *Reporter) Sample(idx int, cas any, observed any) {
	r.mu.Lock()
	defer r.mu.Unlock()
	if r.samples >= r.MaxSamp {
		return
	}
	r.samples++
	r.line(map[string]any{"t": "sample", "idx": idx, "case": cas, "observed": observed})
}

func (r *Reporter) WantSample() bool {
	r.mu.Lock()
	defer r.mu.Unlock()
	return r.samples < r.MaxSamp
}

// NonTrivial records the hash of a case that satisfied the non-triviality rule.
func (r *Reporter) NonTrivial(parts ...any) {
	h := fnv.New64a()
	for _, p := range parts {
		switch z := p.(type) {
		case string:
			h.Write([]byte(z))
		case []byte:
			h.Write(z)
		default:
			fmt.Fprint(h, z)
		}
		h.Write([]byte{0})
	}
	var b [8]byte
	binary.LittleEndian.PutUint64(b[:], h.Sum64())
	r.mu.Lock()
	r.nt.Write(b[:])
	r.mu.Unlock()
}

func (r *Reporter) Add(k string, n int64) {
	r.mu.Lock()
	r.stats[k] += n
	r.mu.Unlock()
}

func (r *Reporter) Max(k string, n int64) {
	r.mu.Lock()
	if n > r.maxs[k] {
		r.maxs[k] = n
	}
	r.mu.Unlock()
}

// Distinct counts distinct string values per key (reported as a counter "<k>.distinct"
// per child; the driver merges the sets when they are small enough to be listed).
func (r *Reporter) Distinct(k, v string) {
	r.mu.Lock()
	m := r.sets[k]
	if m == nil {
		m = map[string]struct{}{}
		r.sets[k] = m
	}
	if len(m) < 100000 {
		m[v] = struct{}{}
	}
	r.mu.Unlock()
}

// AddEvals counts evaluations that are not journalled one by one (cells of an enumerated table).
func (r *Reporter) AddEvals(n int64) { r.mu.Lock(); r.evals += n; r.mu.Unlock() }

func (r *Reporter) Violations() int64 { r.mu.Lock(); defer r.mu.Unlock(); return r.viols }

// Done flushes everything and writes the terminal record; a report without it
// means the child died.
func (r *Reporter) Done() {
	r.mu.Lock()
	defer r.mu.Unlock()
	keys := make([]string, 0, len(r.stats))
	for k := range r.stats {
		keys = append(keys, k)
	}
	sort.Strings(keys)
	for _, k := range keys {
		r.line(map[string]any{"t": "stat", "k": k, "n": r.stats[k]})
	}
	for k, n := range r.maxs {
		r.line(map[string]any{"t": "max", "k": k, "n": n})
	}
	for k, m := range r.sets {
		vals := make([]string, 0, len(m))
		for v := range m {
			vals = append(vals, v)
		}
		sort.Strings(vals)
		if len(vals) > 5000 {
			r.line(map[string]any{"t": "set", "k": k, "n": len(vals), "vals": vals[:5000], "truncated": true})
		} else {
			r.line(map[string]any{"t": "set", "k": k, "n": len(vals), "vals": vals})
		}
	}
	r.line(map[string]any{"t": "done", "evaluations": r.evals, "violations": r.viols})
	r.out.Flush()
	r.outF.Close()
	r.nt.Flush()
	r.ntF.Close()
	r.jour.Close()
}
