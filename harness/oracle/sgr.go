package oracle

import (
	"fmt"
	"strconv"
	"strings"
)

// SGRState is the part of the terminal state a record can change with SGR codes.
type SGRState struct {
	Fg, Bg int          // 0 = default
	Attrs  map[int]bool // bold(1) dim(2) italic(3) underline(4) blink(5) reverse(7) hidden(8) strike(9)
}

func (s *SGRState) Default() bool { return s.Fg == 0 && s.Bg == 0 && len(s.Attrs) == 0 }
func (s *SGRState) String() string {
	var a []string
	for k := range s.Attrs {
		a = append(a, strconv.Itoa(k))
	}
	return fmt.Sprintf("fg=%d bg=%d attrs=%v", s.Fg, s.Bg, a)
}

func (s *SGRState) apply(params []int) {
	if len(params) == 0 {
		params = []int{0}
	}
	for i := 0; i < len(params); i++ {
		p := params[i]
		switch {
		case p == 0:
			s.Fg, s.Bg, s.Attrs = 0, 0, map[int]bool{}
		case p >= 1 && p <= 9:
			if s.Attrs == nil {
				s.Attrs = map[int]bool{}
			}
			s.Attrs[p] = true
		case p == 21 || p == 22:
			delete(s.Attrs, 1)
			delete(s.Attrs, 2)
		case p >= 23 && p <= 29:
			delete(s.Attrs, p-20)
		case p >= 30 && p <= 37, p >= 90 && p <= 97:
			s.Fg = p
		case p == 38:
			s.Fg = 38
			if i+1 < len(params) && params[i+1] == 5 {
				i += 2
			} else if i+1 < len(params) && params[i+1] == 2 {
				i += 4
			}
		case p == 39:
			s.Fg = 0
		case p >= 40 && p <= 47, p >= 100 && p <= 107:
			s.Bg = p
		case p == 48:
			s.Bg = 48
			if i+1 < len(params) && params[i+1] == 5 {
				i += 2
			} else if i+1 < len(params) && params[i+1] == 2 {
				i += 4
			}
		case p == 49:
			s.Bg = 0
		}
	}
}

// Seg is a piece of a colored payload: either text or one escape sequence.
type Seg struct {
	Esc    bool
	SGR    bool
	Text   string
	Params []int
	Off    int
}

// ScanANSI splits payload into text and escape sequences. Only CSI sequences are
// recognised as well-formed; any other ESC byte is reported as a one-byte Esc segment.
func ScanANSI(p []byte) []Seg {
	var segs []Seg
	i, n := 0, len(p)
	ts := 0
	flush := func(end int) {
		if end > ts {
			segs = append(segs, Seg{Text: string(p[ts:end]), Off: ts})
		}
	}
	for i < n {
		if p[i] != 0x1b {
			i++
			continue
		}
		flush(i)
		if i+1 < n && p[i+1] == '[' {
			j := i + 2
			for j < n && (p[j] >= 0x30 && p[j] <= 0x3f) {
				j++
			}
			for j < n && (p[j] >= 0x20 && p[j] <= 0x2f) {
				j++
			}
			if j < n && p[j] >= 0x40 && p[j] <= 0x7e {
				s := Seg{Esc: true, Text: string(p[i : j+1]), Off: i}
				if p[j] == 'm' {
					s.SGR = true
					body := string(p[i+2 : j])
					ok := true
					if body != "" {
						for _, f := range strings.Split(body, ";") {
							if f == "" {
								s.Params = append(s.Params, 0)
								continue
							}
							v, err := strconv.Atoi(f)
							if err != nil {
								ok = false
								break
							}
							s.Params = append(s.Params, v)
						}
					}
					s.SGR = ok
				}
				segs = append(segs, s)
				i = j + 1
				ts = i
				continue
			}
		}
		segs = append(segs, Seg{Esc: true, Text: string(p[i : i+1]), Off: i})
		i++
		ts = i
	}
	flush(n)
	return segs
}

// StripANSI returns the payload text without escape sequences.
func StripANSI(p []byte) string {
	var sb strings.Builder
	for _, s := range ScanANSI(p) {
		if !s.Esc {
			sb.WriteString(s.Text)
		}
	}
	return sb.String()
}

// SGRLeak describes a point where colour state is not default at a line break or at the end.
type SGRLeak struct {
	Off   int
	Where string // "LF" | "end"
	State string
}

// SimulateSGR runs the terminal-state machine over the payload and reports the
// state at every LF and at the end, plus any non-SGR escape sequence.
func SimulateSGR(p []byte) (leaks []SGRLeak, nonSGR []Seg) {
	st := &SGRState{}
	for _, s := range ScanANSI(p) {
		if s.Esc {
			if s.SGR {
				st.apply(s.Params)
			} else {
				nonSGR = append(nonSGR, s)
			}
			continue
		}
		for k := 0; k < len(s.Text); k++ {
			if s.Text[k] == '\n' && !st.Default() {
				leaks = append(leaks, SGRLeak{Off: s.Off + k, Where: "LF", State: st.String()})
			}
		}
	}
	if !st.Default() {
		leaks = append(leaks, SGRLeak{Off: len(p), Where: "end", State: st.String()})
	}
	return
}
