package oracle

import (
	"fmt"
	"strconv"
)

// Pair is one token of a logfmt line.
type Pair struct {
	Key    string
	HasKey bool   // false: a bare value with no "key="
	Raw    string // the value text as it stands on the line
	Quoted bool   // value was a double-quoted string
	Val    string // decoded value (strconv.Unquote for quoted ones, Raw otherwise)
	Off    int    // byte offset of the token
}

// ParseLogfmt tokenises one logfmt line (without the trailing newline) the way
// a logfmt reader does: pairs are separated by runs of spaces; a token is
// key=value, where value is either a double-quoted string (backslash escapes,
// decoded with strconv.Unquote) or a run of non-space bytes; a token without
// '=' before its first quote/space is a bare word.
func ParseLogfmt(line []byte) ([]Pair, error) { return parseText(line, false) }

// ParseColoredText tokenises the attribute region of a colored record (escape
// sequences already stripped). Colored output is for a terminal, not for a logfmt
// reader: a bracketed list value ["a b","c"] is one token there.
func ParseColoredText(line []byte) ([]Pair, error) { return parseText(line, true) }

func parseText(line []byte, brackets bool) ([]Pair, error) {
	var out []Pair
	i, n := 0, len(line)
	for i < n {
		if line[i] == ' ' {
			i++
			continue
		}
		start := i
		// key: up to '=', stopping at space or quote
		k := i
		for k < n && line[k] != '=' && line[k] != ' ' && line[k] != '"' {
			k++
		}
		var p Pair
		p.Off = start
		if k < n && line[k] == '=' {
			p.Key, p.HasKey = string(line[i:k]), true
			i = k + 1
		} else {
			i = start
		}
		// value
		if i < n && line[i] == '"' {
			j := i + 1
			for j < n {
				if line[j] == '\\' {
					j += 2
					continue
				}
				if line[j] == '"' {
					break
				}
				j++
			}
			if j >= n {
				return out, fmt.Errorf("unterminated quoted value at byte %d (token %q)", i, clip(string(line[start:]), 60))
			}
			p.Raw, p.Quoted = string(line[i:j+1]), true
			v, err := strconv.Unquote(p.Raw)
			if err != nil {
				return out, fmt.Errorf("quoted value at byte %d does not unquote: %v (%s)", i, err, clip(p.Raw, 60))
			}
			p.Val = v
			i = j + 1
			if i < n && line[i] != ' ' {
				// garbage glued to the closing quote: treat as part of a bare run
				j := i
				for j < n && line[j] != ' ' {
					j++
				}
				return out, fmt.Errorf("bytes glued to a closing quote at byte %d: %q", i, clip(string(line[i:j]), 40))
			}
		} else if brackets && i < n && line[i] == '[' {
			j := i + 1
			for j < n && line[j] != ']' {
				if line[j] == '"' {
					j++
					for j < n && line[j] != '"' {
						if line[j] == '\\' {
							j++
						}
						j++
					}
				}
				j++
			}
			if j >= n {
				return out, fmt.Errorf("unterminated list value at byte %d", i)
			}
			p.Raw = string(line[i : j+1])
			p.Val = p.Raw
			i = j + 1
		} else {
			j := i
			for j < n && line[j] != ' ' {
				j++
			}
			p.Raw = string(line[i:j])
			p.Val = p.Raw
			i = j
		}
		out = append(out, p)
	}
	return out, nil
}

func clip(s string, n int) string {
	if len(s) > n {
		return s[:n] + "…"
	}
	return s
}
