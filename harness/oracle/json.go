// Package oracle holds the independent decoders used as judges: a strict JSON
// token walker that keeps member order and rejects duplicate names, a logfmt
// tokenizer, and an SGR terminal-state simulator.
package oracle

import (
	"bytes"
	"encoding/json"
	"fmt"
	"io"
)

type NodeKind int

const (
	JObj NodeKind = iota
	JArr
	JStr
	JNum
	JBool
	JNull
)

func (k NodeKind) String() string {
	return [...]string{"object", "array", "string", "number", "bool", "null"}[k]
}

type Member struct {
	Key string
	Val *Node
}

type Node struct {
	Kind    NodeKind
	Members []Member
	Elems   []*Node
	Str     string
	Num     string
	Bool    bool
}

func (n *Node) Get(key string) *Node {
	if n == nil || n.Kind != JObj {
		return nil
	}
	for _, m := range n.Members {
		if m.Key == key {
			return m.Val
		}
	}
	return nil
}

func (n *Node) Keys() []string {
	var ks []string
	for _, m := range n.Members {
		ks = append(ks, m.Key)
	}
	return ks
}

// ParseJSONLine checks that line is exactly one syntactically valid JSON object
// (RFC 8259 via encoding/json's scanner) with nothing after it, walks it token
// by token keeping member order, and rejects a duplicate member name at any depth.
func ParseJSONLine(line []byte) (*Node, error) {
	if !json.Valid(line) {
		// locate the offset for the message
		var v any
		err := json.Unmarshal(line, &v)
		return nil, fmt.Errorf("not valid JSON: %v", err)
	}
	dec := json.NewDecoder(bytes.NewReader(line))
	dec.UseNumber()
	n, err := walk(dec)
	if err != nil {
		return nil, err
	}
	if _, err := dec.Token(); err != io.EOF {
		return nil, fmt.Errorf("trailing data after the JSON value")
	}
	if n.Kind != JObj {
		return nil, fmt.Errorf("top-level value is %v, not an object", n.Kind)
	}
	return n, nil
}

func walk(dec *json.Decoder) (*Node, error) {
	tok, err := dec.Token()
	if err != nil {
		return nil, err
	}
	switch t := tok.(type) {
	case json.Delim:
		switch t {
		case '{':
			n := &Node{Kind: JObj}
			seen := map[string]bool{}
			for dec.More() {
				kt, err := dec.Token()
				if err != nil {
					return nil, err
				}
				k, ok := kt.(string)
				if !ok {
					return nil, fmt.Errorf("object key is not a string: %v", kt)
				}
				if seen[k] {
					return nil, &DupError{Key: k}
				}
				seen[k] = true
				v, err := walk(dec)
				if err != nil {
					return nil, err
				}
				n.Members = append(n.Members, Member{k, v})
			}
			if _, err := dec.Token(); err != nil {
				return nil, err
			}
			return n, nil
		case '[':
			n := &Node{Kind: JArr}
			for dec.More() {
				v, err := walk(dec)
				if err != nil {
					return nil, err
				}
				n.Elems = append(n.Elems, v)
			}
			if _, err := dec.Token(); err != nil {
				return nil, err
			}
			return n, nil
		}
		return nil, fmt.Errorf("unexpected delimiter %v", t)
	case string:
		return &Node{Kind: JStr, Str: t}, nil
	case json.Number:
		return &Node{Kind: JNum, Num: string(t)}, nil
	case bool:
		return &Node{Kind: JBool, Bool: t}, nil
	case nil:
		return &Node{Kind: JNull}, nil
	}
	return nil, fmt.Errorf("unexpected token %T", tok)
}

type DupError struct{ Key string }

func (e *DupError) Error() string { return fmt.Sprintf("duplicate member name %q", e.Key) }

// Brief renders a node compactly for messages.
func (n *Node) Brief() string {
	if n == nil {
		return "<absent>"
	}
	switch n.Kind {
	case JStr:
		return fmt.Sprintf("%q", n.Str)
	case JNum:
		return n.Num
	case JBool:
		return fmt.Sprint(n.Bool)
	case JNull:
		return "null"
	case JArr:
		s := "["
		for i, e := range n.Elems {
			if i > 0 {
				s += ","
			}
			if i > 6 {
				s += "…"
				break
			}
			s += e.Brief()
		}
		return s + "]"
	}
	s := "{"
	for i, m := range n.Members {
		if i > 0 {
			s += ","
		}
		if i > 6 {
			s += "…"
			break
		}
		s += fmt.Sprintf("%q:%s", m.Key, m.Val.Brief())
	}
	return s + "}"
}
