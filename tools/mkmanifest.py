#!/usr/bin/env python3
# Regenerates MANIFEST.json from the table below (run from /verif). Properties whose
# check is not registered yet are listed under not_applicable with that reason.
import json, sys

BUILT = {
 "C01": ("exploration", "the admission table (logger level x severity x debug-mode history x logger kind x every public entry point) is enumerated completely per level registry; registries (custom levels) are sampled, one child process each", "model-based runtime monitoring: enumerated admission table, recording writers, reference rule admit(L,r,debug)", "the reference rule is written from the statement (incl. the built-in treat-as table OK/Success->Info, Fail->Error); LnoInterrupt set so Panic/Fatal can be issued"),
 "C02": ("exploration", "generated hostile argument lists / messages / configurations are logged through every entry-point family while recording writers count Writes per destination and check each payload is one whole record; an escaping panic is a violation", "runtime monitoring: recording writers + exactly-once / wholeness oracle over generated argument lists", "admission by the C01 rule and destination selection by the C03 model; values whose own methods panic are not generated"),
 "C03": ("exploration", "all operation sequences up to a length bound (quick 2, thorough 3) over a reduced alphabet plus random longer ones are applied (methods and New options, root and child) and 14 probe severities are routed; per-writer counts, fd 1/2 contents and SetLevel notifications are compared with a reference model", "model-based runtime monitoring: writer-configuration model run in lock-step, recording writers of 6 shapes, fds 1/2 redirected to files, shrinking of failing sequences", "removal meeting several copies may leave k-1 or 0; package default writer not reconfigured"),
 "C04": ("exploration", "generated hostile records are captured at a recording writer and each payload is judged by an independent strict JSON walker plus a kind-by-kind value matcher", "runtime monitoring: recording writer + independent JSON decoder oracle over generated hostile inputs", "encoding/json (go1.23.5) as the JSON syntax reference; sampled"),
 "C05": ("exploration", "generated hostile records in logfmt (production process mode) are tokenised by an independent logfmt tokenizer and every pair compared with what was logged", "runtime monitoring: recording writer + independent logfmt tokenizer oracle (strconv.Unquote) over generated inputs", "strconv.Unquote as the quoted-value decoder; sampled; one open finding (string slices with spaces)"),
 "C06": ("exploration", "generated colored records (both process modes) are judged by an SGR terminal-state simulator, by a differential escape/control skeleton against the same record with neutralised values, and by a layout parser over the stripped text", "runtime monitoring: SGR state simulator + differential execution + layout parser over generated records", "ShortTag and Source.Extract of the library build the expected tag/caller text; under go test error texts carry no control bytes"),
 "C07": ("exploration", "generated logger chains / context keys / colliding argument lists are logged in all formats; every value carries its source tag; the decoded ordered list must equal a reference merge", "model-based runtime monitoring: reference merge (precedence, last-wins, ascending order) vs decoded records", "decoders of C04-C06; sampled"),
}

PENDING = ["C08","C09","C10","C11","C12","C13","C14","C15","C16","C17","C18","C19","C20"]

def main():
    built = dict(BUILT)
    try:
        extra = json.load(open("tools/manifest_extra.json"))
        for k, v in extra.items():
            built[k] = tuple(v)
    except FileNotFoundError:
        pass
    checks = []
    for pid in sorted(built):
        level, text, technique, note = built[pid]
        engine = "overlay-test" if pid == "C20" else "vfh"
        checks.append({
            "property_id": pid,
            "quick_cmd": f"./check {pid} quick",
            "thorough_cmd": f"./check {pid} thorough",
            "evidence_file": f"evidence/{pid}.json",
            "replay_cmd_template": f"./check {pid} --replay {{path}}",
            "engine": engine,
            "level_claimed": {"category": level, "text": text + "; held means: on the executions this run's evidence file describes", "design_ref": f"DESIGN.md §4 {pid} and §4b"},
            "level_note": note,
            "technique": technique,
        })
    na = [{"property_id": p, "reason": "check not registered yet in this revision of the framework (in progress; the property is within reach of runtime monitoring, see DESIGN.md §4)"} for p in PENDING if p not in built]
    m = {
        "version": 1,
        "setup_cmd": "./setup.sh",
        "hooks": {
            "guard": "verif",
            "enable": "no source hooks are needed: every property is observed at the library's public boundary (recording io.Writers, return values, process exit status, public getters, go test -overlay for the internal package); the workload binary is built with -tags verif so that any later hook file would be picked up",
            "baseline_off_cmd": "cd /repo && go test -vet=off -count=1 ./... && cd /repo/tests && go test -vet=off -count=1 ./...",
            "source_commits": [],
            "add_only": True,
        },
        "engines": [
            {"name": "vfh", "path": "harness/cmd/vfh", "serves_properties": [p for p in sorted(built) if p != "C20"], "kind_free_text": "instrumented workload binary (Go) linked against /repo's working tree through a generated go.mod replace; run in child processes (production and under-go-test process modes, optionally -race) by harness/cmd/vcheck; monitors in harness/mon, independent decoders in harness/oracle, generators in harness/gen"},
            {"name": "overlay-test", "path": "overlay/times", "serves_properties": ["C20"], "kind_free_text": "a _test.go file injected into slog/internal/times with go test -overlay (the repository is not touched)"},
        ],
        "checks": checks,
        "not_applicable": na,
        "notes": "Technique family: runtime monitoring and sanitizers only. ./check <id> <tier> rebuilds the workload from $VERIF_REPO (default /repo), honours VERIF_SEED, exits 0 held / 1 violated / 2 inconclusive. known-findings.json lists repaired (fixed:) and open findings.",
    }
    json.dump(m, open("MANIFEST.json", "w"), indent=1)
    print("MANIFEST.json written:", len(checks), "checks,", len(na), "pending")

main()
