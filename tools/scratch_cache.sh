# sourced by seed_try.sh, seed_regress.sh, revert_validate.sh: builds against patched scratch worktrees go through a Go
# build cache of their own, trimmed as they go (every patched tree leaves ~50 MB of objects behind; 1350 regression runs
# once filled the disk through the shared cache). Entries unused for 70 minutes are dropped once the cache exceeds 6 GB
# (go refreshes the time stamp of an entry it uses at most once per hour).
export GOCACHE=${VERIF_SCRATCH_GOCACHE:-/tmp/vf-gocache-scratch}
mkdir -p "$GOCACHE"
trim_scratch_cache() {
  local sz
  sz=$(du -sm "$GOCACHE" 2>/dev/null | cut -f1)
  if [ "${sz:-0}" -gt 6000 ]; then find "$GOCACHE" -type f -mmin +70 -delete 2>/dev/null; fi
  return 0
}
