#!/bin/bash
# tools/seed_regress.sh [outfile] [ids...] — regression of the monitors themselves: every seeded change
# (seeded/<id>/patch.diff) is applied to a scratch worktree of /repo and the check of ITS OWN property is run at the
# quick tier; every one of them must exit 1. One TSV row per change. Exit 0 iff all were detected.
set -u
. "$(cd "$(dirname "$0")" && pwd)/scratch_cache.sh"
here=$(cd "$(dirname "$0")/.." && pwd); cd "$here"
out=${1:-notes/seeded-regression.tsv}; shift 2>/dev/null
ids=${*:-$(ls seeded)}
wt=/tmp/vf-scratch-regress-$$
git -C /repo worktree add -q --detach "$wt" HEAD || exit 2
mkdir -p "$(dirname "$out")"; : > "$out"
miss=0
for id in $ids; do
  trim_scratch_cache
  p=${id%%-*}
  git -C "$wt" checkout -q -- . ; git -C "$wt" clean -fdq
  if ! git -C "$wt" apply "$here/seeded/$id/patch.diff" 2>/dev/null; then echo -e "$id\tPATCH-DOES-NOT-APPLY" >> "$out"; miss=$((miss+1)); continue; fi
  res=$(VERIF_REPO="$wt" ./check $p quick 2>&1); code=$?
  sig=$(echo "$res" | grep -m1 'signature=' | sed 's/^ *//' | cut -c1-140)
  [ $code = 1 ] || miss=$((miss+1))
  echo -e "$id\t$p\texit=$code\t$sig" >> "$out"
done
git -C /repo worktree remove --force "$wt"; rm -rf "$wt"
cat "$out"
echo "seeded regression: $(echo $ids | wc -w) changes, $miss not detected"
[ $miss = 0 ]
