#!/bin/bash
# Validation of the monitors against the defects that were repaired: for every "fix:" commit of
# /repo a scratch worktree of HEAD with just that commit reverted is built (the isolated defect),
# the repository's own tests are run on it (they must still pass: that is why the suite could not
# settle the property) and the check of the property must report a violation at the quick tier.
# usage: tools/revert_validate.sh [outfile]    (run from /verif or a snapshot of it)
set -u
. "$(cd "$(dirname "$0")" && pwd)/scratch_cache.sh"
here=$(cd "$(dirname "$0")/.." && pwd)
out=${1:-$here/notes/revert-validation.tsv}
mkdir -p "$(dirname "$out")"
export GOPROXY=off GOSUMDB=off GOTOOLCHAIN=local
: > "$out"
python3 - "$here/known-findings.json" > /tmp/vf-fixed-list.$$ <<'PY'
import json,sys
for f in json.load(open(sys.argv[1])):
    if f.get("status")=="fixed":
        print(f["property"], f["commit"])
PY
while read -r prop sha; do
  trim_scratch_cache
  wt=/tmp/vf-scratch-revert-$sha
  git -C /repo worktree remove --force "$wt" >/dev/null 2>&1
  rm -rf "$wt"
  git -C /repo worktree add -q --detach "$wt" HEAD || { echo -e "$prop\t$sha\tworktree-failed" >> "$out"; continue; }
  if ! git -C "$wt" revert --no-commit "$sha" >/dev/null 2>&1; then
    echo -e "$prop\t$sha\trevert-conflict\t-\t-" >> "$out"
    git -C /repo worktree remove --force "$wt"; continue
  fi
  tests=pass
  (cd "$wt" && go build ./... >/dev/null 2>&1) || tests=build-fails
  if [ $tests = pass ]; then
    (cd "$wt" && go test -vet=off -count=1 ./... >/dev/null 2>&1 && cd tests && go test -vet=off -count=1 ./... >/dev/null 2>&1) || tests=tests-fail
  fi
  res=$(cd "$here" && VERIF_REPO="$wt" ./check "$prop" quick 2>&1)
  code=$?
  nsig=$(echo "$res" | grep -c '^VIOLATION')
  first=$(echo "$res" | grep -m1 'signature=' | sed 's/^ *//' | cut -c1-120)
  echo -e "$prop\t$sha\t$tests\texit=$code\t$nsig violation line(s)\t$first" >> "$out"
  git -C /repo worktree remove --force "$wt"
  rm -rf "$wt"
done < /tmp/vf-fixed-list.$$
rm -f /tmp/vf-fixed-list.$$
git -C /repo worktree prune
cat "$out"
