#!/bin/bash
# tools/seed_matrix.sh [outfile] [ids...]  — cross matrix: every seeded change (seeded/<id>/patch.diff) is applied to a
# dedicated scratch worktree of /repo and EVERY check is run against it at the quick tier. Output: one TSV row per change
# with the list of checks that exit 1 (and the ones that were inconclusive). The worktree is removed at the end.
set -u
here=$(cd "$(dirname "$0")/.." && pwd); cd "$here"
out=${1:-notes/seeded-matrix.tsv}; shift 2>/dev/null
ids=${*:-$(ls seeded)}
wt=/tmp/vf-scratch-matrix-$$
git -C /repo worktree add -q --detach "$wt" HEAD || exit 2
mkdir -p "$(dirname "$out")"; : > "$out"
for id in $ids; do
  git -C "$wt" checkout -q -- . ; git -C "$wt" clean -fdq
  if ! git -C "$wt" apply "$here/seeded/$id/patch.diff" 2>/dev/null; then echo -e "$id\tPATCH-DOES-NOT-APPLY" >> "$out"; continue; fi
  caught=""; inconcl=""
  for p in C01 C02 C03 C04 C05 C06 C07 C08 C09 C10 C11 C12 C13 C14 C15 C16 C17 C18 C19 C20; do
    VERIF_REPO="$wt" ./check $p quick >/dev/null 2>&1; code=$?
    [ $code = 1 ] && caught="$caught $p"
    [ $code = 2 ] && inconcl="$inconcl $p"
  done
  echo -e "$id\tcaught_by:$caught\tinconclusive:$inconcl" >> "$out"
done
git -C /repo worktree remove --force "$wt"; rm -rf "$wt"
cat "$out"
