#!/bin/bash
# tools/seed_try.sh <Cxx> <changeN> [tier] [more properties...]
# Confirms an independently seeded change in its scratch worktree /tmp/seed-<Cxx>:
# patch applies, tree builds, repository suite passes, the demonstration fails with the change
# and passes without it; then runs ./check for the property (and any further ones) against the
# patched worktree. The worktree is left clean.
set -u
. "$(cd "$(dirname "$0")" && pwd)/scratch_cache.sh"
prop=$1; ch=$2; tier=${3:-quick}; shift; shift; shift 2>/dev/null
more="$*"
wt=/tmp/seed-$prop
out=$wt/${SEED_OUT:-OUT}/$ch
here=$(cd "$(dirname "$0")/.." && pwd)
export GOPROXY=off GOSUMDB=off GOTOOLCHAIN=local
trim_scratch_cache
cd "$wt" || exit 2
clean() { git checkout -q -- . ; git clean -fdq -e "OUT*" >/dev/null 2>&1; }
clean
cmds=$(grep -E '^\s*(export [^;&]*(;|&&) *)?([A-Z_]+=\S*\s+)*(env |cp |mkdir |go test|go run|go build|\(cd |cd |\./)' "$out/RUN.txt" | sed 's/#.*$//' | sed -E 's/ GOCACHE=[^ ;&]*//' | grep -v 'git apply')
rundemo() { ( cd "$wt"; while IFS= read -r l; do [ -z "$l" ] && continue; eval "$l" || return 1; done <<< "$cmds" ) >"$out/.demo.$1.log" 2>&1; }
rundemo clean; demo_clean=$?
clean
if ! git apply "$out/patch.diff" 2>"$out/.apply.log"; then echo "$prop/$ch: PATCH DOES NOT APPLY"; cat "$out/.apply.log"; exit 1; fi
build=ok; go build ./... >/dev/null 2>&1 || build=FAIL
pk=$(go list ./... 2>/dev/null | grep -v '/OUT')
suite=pass
go test -vet=off -count=1 $pk >"$out/.suite.log" 2>&1 || suite=FAIL
(cd tests && go test -vet=off -count=1 ./... >>"$out/.suite.log" 2>&1) || suite=FAIL
rundemo patched; demo_patched=$?
git clean -fdq -e "OUT*" >/dev/null 2>&1
echo "$prop/$ch: build=$build suite=$suite demo(clean)=$( [ $demo_clean = 0 ] && echo pass || echo FAIL) demo(patched)=$( [ $demo_patched = 0 ] && echo pass || echo fail)"
for p in $prop $more; do
  res=$(cd "$here" && VERIF_REPO="$wt" ./check "$p" "$tier" 2>&1); code=$?
  echo "   check $p $tier: exit=$code $(echo "$res" | grep -m1 'signature=' | sed 's/^ *//' | cut -c1-150)"
  [ $code = 1 ] && echo "$res" | grep -A1 -m1 'signature=' | tail -1 | cut -c1-300 | sed 's/^/      /'
done
clean
