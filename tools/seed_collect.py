#!/usr/bin/env python3
# Collects the confirmed seeded changes from /tmp/seed-Cxx/OUT/changeN and the results of
# tools/seed_try.sh (/tmp/seedres/Cxx-changeN.txt) into /verif/seeded/<id>/ and prints the DESIGN table.
import os, json, shutil, re, sys
# usage: seed_collect.py [round]   round 1: /tmp/seed-Cxx/OUT + /tmp/seedres  -> ids Cxx-1, Cxx-2
#                                   round 2: /tmp/seed-Cxx/OUT2 + /tmp/seedres2 -> ids Cxx-3, Cxx-4
#                                   round 3: /tmp/seed-Cxx/OUT3 + /tmp/seedres3 -> ids Cxx-5, Cxx-6
#                                   round 4: /tmp/seed-Cxx/OUT4 + /tmp/seedres4 -> ids Cxx-7, Cxx-8
#                                   round 5: /tmp/seed-Cxx/OUT5 + /tmp/seedres5 -> ids Cxx-9, Cxx-10, Cxx-11 (three per property)
#                                   round 6: /tmp/seed-Cxx/OUT6 + /tmp/seedres6 -> ids Cxx-12, Cxx-13, Cxx-14
#                                   round 7: /tmp/seed-Cxx/OUT7 + /tmp/seedres7 -> ids Cxx-15, Cxx-16, Cxx-17
#                                   round 8: /tmp/seed-Cxx/OUT8 + /tmp/seedres8 -> ids Cxx-18, Cxx-19, Cxx-20
#                                   round 9: /tmp/seed-Cxx/OUT9 + /tmp/seedres9 -> ids Cxx-21, Cxx-22, Cxx-23
#                                   round 10: /tmp/seed-Cxx/OUT10 + /tmp/seedres10 -> ids Cxx-24, Cxx-25, Cxx-26
rnd = int(sys.argv[1]) if len(sys.argv) > 1 else 1
notes_file, outdir, resdir, offset = [("seed_notes.json","OUT","/tmp/seedres",0),("seed_notes2.json","OUT2","/tmp/seedres2",2),("seed_notes3.json","OUT3","/tmp/seedres3",4),("seed_notes4.json","OUT4","/tmp/seedres4",6),("seed_notes5.json","OUT5","/tmp/seedres5",8),("seed_notes6.json","OUT6","/tmp/seedres6",11),("seed_notes7.json","OUT7","/tmp/seedres7",14),("seed_notes8.json","OUT8","/tmp/seedres8",17),("seed_notes9.json","OUT9","/tmp/seedres9",20),("seed_notes10.json","OUT10","/tmp/seedres10",23),("seed_notes11.json","OUT11","/tmp/seedres11",26),("seed_notes12.json","OUT12","/tmp/seedres12",29),("seed_notes13.json","OUT13","/tmp/seedres13",32),("seed_notes14.json","OUT14","/tmp/seedres14",35),("seed_notes15.json","OUT15","/tmp/seedres15",38),("seed_notes16.json","OUT16","/tmp/seedres16",38),("seed_notes17.json","OUT17","/tmp/seedres17",41)][rnd-1]
needs = json.load(open(os.path.join(os.path.dirname(__file__), notes_file)))
missed = needs.pop("_missed")
rows=[]
for p in range(1,21):
    for c in ((1,2,3) if rnd>=5 else (1,2)):
        pid="C%02d"%p; sid="%s-%d"%(pid,c+offset)
        src="/tmp/seed-%s/%s/change%d"%(pid,outdir,c)
        dst="/verif/seeded/"+sid
        if not os.path.isdir(src) or sid not in needs: continue
        if os.path.isdir(dst): shutil.rmtree(dst)
        os.makedirs(dst)
        for f in ("patch.diff","RUN.txt","NOTES.md","demo_test.go","patch.orig-before-9e3f5aa.diff","patch.orig-before-4d12552.diff","patch.orig-before-85932a2.diff"):
            if os.path.exists(src+"/"+f):
                shutil.copy(src+"/"+f, dst+"/"+f)
        if os.path.isdir(src+"/demo"):
            os.makedirs(dst+"/demo")
            for f in os.listdir(src+"/demo"):
                shutil.copy(src+"/demo/"+f, dst+"/demo/"+f)
        res=open("%s/%s-change%d.txt"%(resdir,pid,c)).read()
        m=re.search(r"build=(\S+) suite=(\S+) demo\(clean\)=(\S+) demo\(patched\)=(\S+)",res)
        det=[]
        for m2 in re.finditer(r"check (\S+) (\S+): exit=(\d+)(?: signature=(\S+) clause=(\S+) count=(\d+))?",res):
            d={"check":m2.group(1),"tier":m2.group(2),"exit":int(m2.group(3))}
            if m2.group(4): d.update({"signature":m2.group(4),"violations_counted":int(m2.group(6))})
            det.append(d)
        what,need=needs[sid]
        meta={"id":sid,"breaks_property":pid,"origin":("independent sub-agent (general-purpose) given only the property text and its own scratch worktree of /repo under /tmp; nothing from /verif" if rnd==1 else "independent sub-agent (general-purpose, round %d) given the property text, one line each about the ideas the earlier seeders had used (to avoid repeats), the instruction to make the change HARD to stumble on, and its own scratch worktree of /repo under /tmp; nothing from /verif" % rnd),
              "change":what,"needs_to_manifest":need,
              "files":{"patch":"patch.diff","demonstration":"demo_test.go or demo/main.go (RUN.txt says where to place it in a checkout of the library and how to run it)","notes":"NOTES.md"},
              "confirmed_in_scratch_worktree":{"patch_applies_to":"HEAD of /repo (all fix: commits in)","go_build":m.group(1),"repository_suite_with_change":m.group(2),"demonstration_on_clean_tree":m.group(3),"demonstration_with_change":m.group(4)},
              "round":rnd,"what_was_run":"%stools/seed_try.sh %s change%d  (in /tmp/seed-%s: git apply patch.diff, go build ./..., the repository suite, the demonstration per RUN.txt with and without the change, then VERIF_REPO=/tmp/seed-%s ./check %s quick; worktree restored afterwards)"%("SEED_OUT=%s " % outdir if rnd>1 else "",pid,c,pid,pid,pid),
              "checks_run":det,
              "detected_at_quick_tier": any(d["check"]==pid and d["exit"]==1 for d in det),
              "missed_by_the_first_version_of_the_check":sid in missed}
        if sid in missed: meta["strengthening"]=missed[sid]
        json.dump(meta,open(dst+"/meta.json","w"),indent=1,ensure_ascii=False)
        own=[d for d in det if d["check"]==pid][0]
        rows.append((sid,what,need,own.get("signature","-"),sid in missed))
print("| id | change | needs | caught by (quick) | first version |")
print("|---|---|---|---|---|")
for sid,what,need,sig,ms in rows:
    print("| %s | %s | %s | `%s` | %s |"%(sid,what,need,sig,"missed, strengthened" if ms else "caught"))
