#!/usr/bin/env python3
"""tools/seed_prepare.py <round>  - writes /tmp/seed-Cxx/OUT<round>/PROPERTY.txt and INSTRUCTIONS.md for the next round of
independent seeding: the text of the property (statement, quantifier, why the tests cannot settle it, code anchors) and one
line per idea the earlier seeders used (from tools/seed_notes*.json) - nothing else from /verif."""
import json, os, sys, glob
here = os.path.dirname(os.path.dirname(os.path.abspath(__file__)))
rnd = int(sys.argv[1])
out = "OUT%d" % rnd
notes = {}
for f in sorted(glob.glob(os.path.join(here, "tools", "seed_notes*.json"))):
    d = json.load(open(f))
    d.pop("_missed", None)
    notes.update(d)
earlier = ", ".join(["OUT"] + ["OUT%d" % i for i in range(2, rnd)])
for line in open(os.path.join(here, "properties.jsonl")):
    p = json.loads(line)
    pid = p["id"]
    wt = "/tmp/seed-%s" % pid
    os.makedirs(os.path.join(wt, out), exist_ok=True)
    ideas = [(k, v) for k, v in notes.items() if k.startswith(pid + "-")]
    ideas.sort(key=lambda kv: int(kv[0].split("-")[1]))
    a = p["anchors"]
    txt = ["Property %s: %s" % (pid, p["title"]), "", "STATEMENT: " + p["statement"], "",
           "QUANTIFIER (over %s): %s" % (p["quantifier"]["over"], p["quantifier"]["text"]), "",
           "WHY THE EXISTING TESTS CANNOT SETTLE IT: " + p["why_tests_cant"], "",
           "CODE ANCHORS: files " + ", ".join(a.get("files", [])),
           "  state: " + "; ".join("%s (%s)" % (s["name"], s["where"]) for s in a.get("state", [])),
           "  mechanism: " + "; ".join("%s (%s)" % (s["name"], s["where"]) for s in a.get("mechanism", [])),
           "  observable at: " + "; ".join(a.get("observe_at", [])), "",
           "IDEAS EARLIER SEEDERS ALREADY USED (%d) - do something genuinely different:" % len(ideas)]
    for i, (k, (what, need)) in enumerate(ideas, 1):
        txt.append("  %2d. %s  [manifests with: %s]" % (i, what, need))
    open(os.path.join(wt, out, "PROPERTY.txt"), "w").write("\n".join(txt) + "\n")
    ins = open(os.path.join(here, "tools", "seed_instructions.tmpl")).read()
    ins = ins.replace("@PID@", pid).replace("@OUT@", out).replace("@ROUND@", str(rnd)).replace("@EARLIER@", earlier).replace("@NIDEAS@", str(len(ideas)))
    open(os.path.join(wt, out, "INSTRUCTIONS.md"), "w").write(ins)
print("prepared", out)
