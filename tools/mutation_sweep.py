#!/usr/bin/env python3
"""tools/mutation_sweep.py [out.tsv] [per_file] [seed]

Automatic complement to the hand-seeded changes: syntactic mutants (one operator / constant swap each) of the library
files named in the properties' anchors. Each mutant is applied to a scratch worktree of /repo; mutants that do not build
or that the repository's own suite kills are set aside; the rest are run against the quick checks of every property that
names the mutated file. Output: one TSV row per mutant (file, line, mutation, fate, detecting checks). Survivors are
candidates for a look by hand: equivalent mutants, code outside every property, or a blind spot of a check.
"""
import json, os, random, re, subprocess, sys

here = os.path.dirname(os.path.dirname(os.path.abspath(__file__)))
out = sys.argv[1] if len(sys.argv) > 1 else os.path.join(here, "notes", "mutation-sweep.tsv")
per_file = int(sys.argv[2]) if len(sys.argv) > 2 else 40
seed = int(sys.argv[3]) if len(sys.argv) > 3 else 1
rnd = random.Random(seed)

file_props = {}
for l in open(os.path.join(here, "properties.jsonl")):
    d = json.loads(l)
    for f in d["anchors"].get("files", []):
        file_props.setdefault(f, []).append(d["id"])

SWAPS = [(r"==", "!="), (r"!=", "=="), (r"<=", "<"), (r">=", ">"), (r"(?<![<\-=!>])<(?![=<\-])", "<="), (r"(?<![>\-=!<])>(?![=>])", ">="),
         (r"&&", "||"), (r"\|\|", "&&"), (r"\btrue\b", "false"), (r"\bfalse\b", "true"), (r"\+ 1\b", "- 1"), (r"- 1\b", "+ 1"),
         (r"\+= 1\b", "-= 1"), (r"\bcontinue\b", "break"), (r"\[1:\]", "[0:]"), (r"\b0\b", "1"), (r"\b1\b", "0"), (r"\b2\b", "3")]


def sites(path):
    res = []
    in_block = False
    for i, line in enumerate(open(path, encoding="utf-8", errors="replace").read().split("\n")):
        s = line.strip()
        if in_block:
            if "*/" in s:
                in_block = False
            continue
        if s.startswith("/*"):
            in_block = "*/" not in s
            continue
        if not s or s.startswith("//") or s.startswith("import") or s.startswith("package") or '"' in s and s.count('"') % 2 == 1:
            continue
        code = line.split("//")[0]
        # blank out string and rune literals
        masked = re.sub(r'"(\\.|[^"\\])*"', lambda m: " " * len(m.group(0)), code)
        masked = re.sub(r"'(\\.|[^'\\])+'", lambda m: " " * len(m.group(0)), masked)
        masked = re.sub(r"`[^`]*`", lambda m: " " * len(m.group(0)), masked)
        for pat, rep in SWAPS:
            for m in re.finditer(pat, masked):
                res.append((i, m.start(), m.end(), rep, pat))
    return res


def sh(cmd, cwd, timeout=900, env=None):
    e = dict(os.environ, GOPROXY="off", GOSUMDB="off", GOTOOLCHAIN="local")
    e.pop("GOFLAGS", None)
    if env:
        e.update(env)
    try:
        p = subprocess.run(cmd, cwd=cwd, shell=True, stdout=subprocess.PIPE, stderr=subprocess.STDOUT, timeout=timeout, env=e)
        return p.returncode, p.stdout.decode("utf-8", "replace")
    except subprocess.TimeoutExpired:
        return 124, "timeout"


wt = "/tmp/vf-scratch-mut-%d" % os.getpid()
if sh("git -C /repo worktree add -q --detach %s HEAD" % wt, "/")[0] != 0:
    sys.exit(2)
os.makedirs(os.path.dirname(out), exist_ok=True)
rows = []
try:
    with open(out, "w") as fo:
        fo.write("file\tline\tmutation\tfate\tdetected_by\tnot_detected_by\n")
        for f in sorted(file_props):
            path = os.path.join(wt, f)
            if not os.path.exists(path):
                continue
            ss = sites(path)
            rnd.shuffle(ss)
            for (ln, a, b, rep, pat) in ss[:per_file]:
                sh("git checkout -q -- . && git clean -fdq", wt)
                lines = open(path, encoding="utf-8", errors="replace").read().split("\n")
                orig = lines[ln]
                lines[ln] = orig[:a] + rep + orig[b:]
                open(path, "w", encoding="utf-8").write("\n".join(lines))
                desc = "%s -> %s   | %s" % (orig[a:b], rep, orig.strip()[:90])
                code, _ = sh("go build ./...", wt)
                if code != 0:
                    fate, det, nd = "does-not-build", "", ""
                else:
                    code, _ = sh("go test -vet=off -count=1 ./... && (cd tests && go test -vet=off -count=1 ./...)", wt, timeout=600)
                    if code != 0:
                        fate, det, nd = "killed-by-repository-suite", "", ""
                    else:
                        det, nd = [], []
                        for p in file_props[f]:
                            c, _ = sh("./check %s quick" % p, here, env={"VERIF_REPO": wt})
                            (det if c == 1 else nd).append(p + ("" if c in (0, 1) else "(exit %d)" % c))
                        fate = "detected" if det else "SURVIVED"
                        det, nd = " ".join(det), " ".join(nd)
                fo.write("%s\t%d\t%s\t%s\t%s\t%s\n" % (f, ln + 1, desc.replace("\t", " "), fate, det, nd))
                fo.flush()
                rows.append(fate)
finally:
    sh("git -C /repo worktree remove --force %s" % wt, "/")
    sh("rm -rf %s" % wt, "/")
from collections import Counter
print(Counter(rows))
