#!/bin/bash
# tools/sweep.sh <tier> <seed>...   runs every registered check at the given seeds on $VERIF_REPO (default /repo)
# and prints one line per run that is not "held" plus a summary. Exit 0 iff everything held.
here=$(cd "$(dirname "$0")/.." && pwd); cd "$here"
tier=$1; shift
bad=0; n=0
for seed in "$@"; do
  for p in C01 C02 C03 C04 C05 C06 C07 C08 C09 C10 C11 C12 C13 C14 C15 C16 C17 C18 C19 C20; do
    out=$(VERIF_SEED=$seed ./check $p $tier 2>&1); code=$?
    n=$((n+1))
    if [ $code != 0 ]; then bad=$((bad+1)); echo "seed=$seed $p exit=$code"; echo "$out" | grep -E "^(VIOLATION|INCONCLUSIVE|  signature)" | cut -c1-300 | head -6; fi
  done
done
echo "sweep $tier seeds [$*]: $n runs, $bad not held"
[ $bad = 0 ]
