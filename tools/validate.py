#!/usr/bin/env python3
# validates MANIFEST.json and evidence/*.json against the schemas (python3-vt has jsonschema)
import json, sys, glob, jsonschema
ok = True
try:
    jsonschema.validate(json.load(open('MANIFEST.json')), json.load(open('/root/.vp/MANIFEST.schema.json')))
    print('MANIFEST.json valid')
except Exception as e:
    ok = False; print('MANIFEST.json INVALID', e)
es = json.load(open('/root/.vp/EVIDENCE.schema.json'))
for f in sorted(glob.glob('evidence/*.json')):
    try:
        jsonschema.validate(json.load(open(f)), es); print(f, 'valid')
    except Exception as e:
        ok = False; print(f, 'INVALID', str(e)[:300])
sys.exit(0 if ok else 1)
